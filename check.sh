#!/bin/bash
# check.sh <property> [quick|thorough] — decide one property statically from /repo's current working tree.
# Exit 0: held on everything analysed (KNOWN-FINDING lines possible); 1: VIOLATION line(s); 2: UNDECIDED.
set -u
PROP="${1:?usage: check.sh Cxx [quick|thorough]}"
TIER="${2:-${VERIF_TIER:-quick}}"
HERE="$(cd "$(dirname "$0")" && pwd)"
export PATH=/opt/veriftools/go1.26.8/bin:$PATH
export GOTOOLCHAIN=local GOFLAGS=-mod=mod GOPROXY=off GOWORK=off GONOSUMDB='*' GONOSUMCHECK=1 GOFLAGS=-mod=mod
unset GOSUMDB 2>/dev/null || true
REPO="${VERIF_REPO:-/repo}"
if [ ! -x "$HERE/bin/vuegocheck" ] || [ -n "$(find "$HERE/checker" -name '*.go' -newer "$HERE/bin/vuegocheck" 2>/dev/null | head -1)" ]; then
  (cd "$HERE/checker" && go build -o ../bin/vuegocheck .) || { echo "UNDECIDED: checker does not build"; exit 2; }
fi
"$HERE/bin/vuegocheck" -property "$PROP" -tier "$TIER" -repo "$REPO" -verif "$HERE"
RC=$?
if [ "$TIER" = "thorough" ] && [ -f "$HERE/evidence/$PROP.json" ]; then
  # deeper exploration: known-bad variants (kept seeded changes, pre-fix commits) in scratch worktrees; never alters the verdict
  VERIF_REPO="$REPO" python3 "$HERE/tools/thorough_extra.py" "$PROP" || true
fi
exit $RC
