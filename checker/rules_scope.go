package main

import (
	"fmt"
	"go/token"
	"go/types"
	"sort"
	"strings"

	"golang.org/x/tools/go/ssa"
)

// ---------- A4: push/pop balance ----------

type balState struct{ depth, deferred int }

// balanceStates computes, per block entry, the set of (depth delta, pending deferred releases)
// reachable, for acquire/release call names on one receiver access path.
func balanceAtReturns(fn *ssa.Function, isAcq, isRel func(c *ssa.CallCommon) bool) (map[*ssa.Return][]balState, bool) {
	in := map[*ssa.BasicBlock]map[balState]bool{}
	if len(fn.Blocks) == 0 {
		return nil, true
	}
	in[fn.Blocks[0]] = map[balState]bool{{0, 0}: true}
	work := []*ssa.BasicBlock{fn.Blocks[0]}
	out := map[*ssa.Return][]balState{}
	overflow := false
	for len(work) > 0 {
		b := work[0]
		work = work[1:]
		cur := map[balState]bool{}
		for s := range in[b] {
			cur[s] = true
		}
		for _, instr := range b.Instrs {
			next := map[balState]bool{}
			for s := range cur {
				switch x := instr.(type) {
				case *ssa.Call:
					if isAcq(&x.Call) {
						s.depth++
					} else if isRel(&x.Call) {
						s.depth--
					}
				case *ssa.Defer:
					if isRel(&x.Call) {
						s.deferred++
					}
				case *ssa.RunDefers:
					s.depth -= s.deferred
					s.deferred = 0
				}
				if s.depth > 6 || s.depth < -6 {
					overflow = true
					continue
				}
				next[s] = true
			}
			cur = next
			if r, ok := instr.(*ssa.Return); ok {
				var ss []balState
				for s := range cur {
					ss = append(ss, s)
				}
				sort.Slice(ss, func(i, j int) bool { return ss[i].depth < ss[j].depth })
				out[r] = ss
			}
		}
		for _, succ := range b.Succs {
			if in[succ] == nil {
				in[succ] = map[balState]bool{}
			}
			changed := false
			for s := range cur {
				if !in[succ][s] {
					in[succ][s] = true
					changed = true
				}
			}
			if changed {
				work = append(work, succ)
			}
		}
	}
	return out, !overflow
}

func isStackCall(c *ssa.CallCommon, method string) bool {
	return calleeName(c) == "(*vuego.Stack)."+method
}

// evaluatorCone: module functions reachable from the core evaluator.
func (p *Prog) evaluatorCone() map[*ssa.Function]bool {
	return p.Cone(p.MustFn("(*vuego.Vue).evaluate"))
}

func isNodeSlice(t types.Type) bool {
	sl, ok := t.Underlying().(*types.Slice)
	return ok && isNamed(sl.Elem(), "golang.org/x/net/html", "Node")
}

func isEvaluatorCall(c *ssa.CallCommon) bool {
	n := calleeName(c)
	switch n {
	case "(*vuego.Vue).evaluate", "(*vuego.Vue).evaluateChildren", "(*vuego.Vue).evalTemplate", "(*vuego.Vue).evalInclude", "(*vuego.Vue).evalSlot",
		"(*vuego.Vue).evalVFor", "(*vuego.Vue).evalFor", "(*vuego.Vue).evalElseIfChain", "(*vuego.Vue).evaluateNodeAsElement", "(*vuego.Vue).evaluateSlotNodes":
		return true
	}
	return false
}

// loopHeaderOf returns the innermost loop header block that contains b in its natural loop, or nil.
func loopHeaderOf(b *ssa.BasicBlock) *ssa.BasicBlock {
	for h := b; h != nil; h = h.Idom() {
		for _, pr := range h.Preds {
			if h.Dominates(pr) && (pr == b || loopBlocks(h)[b]) {
				return h
			}
		}
	}
	return nil
}

func init() {
	register(&Rule{
		ID: "C04.R1", Props: []string{"C04", "C05", "C06", "C17", "C10"}, Min: 3,
		Doc: "scope push/pop balance on every exit: in every function that calls Stack.Push, the number of pushed scopes is zero again at every return (error returns and returns out of the v-for callback included; `defer Pop` is applied at the returns it covers) — the necessary condition for 'bindings are visible inside the instance only' and 'nothing leaks to the includer'",
		Run: func(p *Prog, c *Ctx) {
			for _, fn := range p.Funcs {
				uses := false
				for _, site := range callsIn(fn) {
					if isStackCall(site.Common(), "Push") || isStackCall(site.Common(), "Pop") {
						uses = true
					}
				}
				if !uses || typeShort(recvType(fn)) == "*vuego.Stack" {
					continue
				}
				rets, ok := balanceAtReturns(fn,
					func(cc *ssa.CallCommon) bool { return isStackCall(cc, "Push") },
					func(cc *ssa.CallCommon) bool { return isStackCall(cc, "Pop") })
				if !ok {
					c.fail(shortName(fn), p.pos(fn.Pos()), "scope depth grows without bound on some path (push inside a loop without a matching pop)")
					continue
				}
				i := 0
				var keys []*ssa.Return
				for r := range rets {
					keys = append(keys, r)
				}
				sort.Slice(keys, func(a, b int) bool { return keys[a].Pos() < keys[b].Pos() })
				for _, r := range keys {
					i++
					bad := ""
					for _, s := range rets[r] {
						if s.depth != 0 {
							bad = fmt.Sprintf("scope depth is %+d at this return on some path", s.depth)
						}
					}
					c.check(bad == "", fmt.Sprintf("%s: return#%d", shortName(fn), i), p.instrPos(r), "balanced", bad+": a scope pushed for a loop instance / component / slot stays on the stack (or the includer's scope is popped), so bindings leak or are lost")
				}
			}
		},
	})

	register(&Rule{
		ID: "C04.R2", Props: []string{"C04", "C05", "C06"}, Min: 5,
		Doc: "bindings go into the pushed scope: in every function that pushes a scope, each Stack.Set and each evaluator call is dominated by the Push (so loop variables, props, front-matter and slot props are bound in the instance's own scope, never in the caller's)",
		Run: func(p *Prog, c *Ctx) {
			for _, fn := range p.Funcs {
				var pushes []ssa.Instruction
				for _, site := range callsIn(fn) {
					if _, isDefer := site.(*ssa.Defer); !isDefer && isStackCall(site.Common(), "Push") {
						pushes = append(pushes, site)
					}
				}
				if len(pushes) == 0 || typeShort(recvType(fn)) == "*vuego.Stack" {
					continue
				}
				n := 0
				for _, site := range callsIn(fn) {
					cc := site.Common()
					if !(isStackCall(cc, "Set") || isEvaluatorCall(cc)) {
						continue
					}
					n++
					dom := false
					for _, pu := range pushes {
						if dominates(pu, site) {
							dom = true
						}
					}
					// evaluator calls on paths that never push (fallback content, plain children) are fine
					if !dom && isEvaluatorCall(cc) {
						reach := false
						for _, pu := range pushes {
							if canFollow(pu, site) {
								reach = true
							}
						}
						if !reach {
							c.ok(fmt.Sprintf("%s: %s#%d", shortName(fn), calleeName(cc), n), p.instrPos(site), "on a path without a pushed scope")
							continue
						}
					}
					c.check(dom, fmt.Sprintf("%s: %s#%d", shortName(fn), calleeName(cc), n), p.instrPos(site), "dominated by Push", calleeName(cc)+" is not dominated by the Push of the instance's scope: the binding/evaluation happens in the caller's scope")
				}
			}
		},
	})

	register(&Rule{
		ID: "C04.R3", Props: []string{"C04", "C17", "C05", "C10", "C09"}, Min: 2,
		Doc: "scope storage ownership: the scope list (Stack.stack) is read or written only by methods of *Stack; the one deliberate exception (write-through of <template :x> bindings to the parent scope) restores the scope it removed, in the same straight-line block",
		Run: func(p *Prog, c *Ctx) {
			var stackField *types.Var
			if o := p.PkgBy[modPath].Types.Scope().Lookup("Stack"); o != nil {
				if st, ok := o.Type().Underlying().(*types.Struct); ok {
					for i := 0; i < st.NumFields(); i++ {
						if sl, ok := st.Field(i).Type().Underlying().(*types.Slice); ok {
							if _, isMap := sl.Elem().Underlying().(*types.Map); isMap {
								stackField = st.Field(i)
							}
						}
					}
				}
			}
			if stackField == nil {
				undecided("Stack has no []map field: cannot locate the scope list")
			}
			outside := map[*ssa.Function][]*ssa.FieldAddr{}
			inside := 0
			for _, fn := range p.Funcs {
				eachInstr(fn, func(in ssa.Instruction) {
					if fa, ok := in.(*ssa.FieldAddr); ok && fieldVar(fa) == stackField {
						if typeShort(recvType(fn)) == "*vuego.Stack" || fn.Name() == "NewStackWithData" || fn.Name() == "NewStack" {
							inside++
						} else {
							outside[fn] = append(outside[fn], fa)
						}
					}
				})
			}
			c.ok("methods of *Stack", "-", fmt.Sprintf("%d accesses inside the owning type", inside))
			for fn, fas := range outside {
				// accepted shape: truncating store followed, in the same block, by a store of append(load, removedTop)
				var stores []*ssa.Store
				for _, fa := range fas {
					if refs := fa.Referrers(); refs != nil {
						for _, r := range *refs {
							if st, ok := r.(*ssa.Store); ok && st.Addr == fa {
								stores = append(stores, st)
							}
						}
					}
				}
				sort.Slice(stores, func(i, j int) bool { return stores[i].Pos() < stores[j].Pos() })
				okShape := len(stores) == 2 && stores[0].Block() == stores[1].Block() && instrIndex(stores[0]) < instrIndex(stores[1])
				if okShape {
					_, trunc := stores[0].Val.(*ssa.Slice)
					restore := isCallNamed(stores[1].Val, "builtin.append") != nil
					okShape = trunc && restore
				}
				if len(stores) == 0 {
					c.fail(shortName(fn)+": reads scope list", p.pos(fn.Pos()), "the scope list is read directly outside *Stack: scope handling must go through Push/Pop/Set/Lookup")
					continue
				}
				c.check(okShape, shortName(fn)+": save/restore", p.instrPos(stores[0]), "removes the top scope and restores it in the same block (documented write-through)", "direct manipulation of the scope list outside *Stack that is not the remove-top/restore-top pair: scopes may be lost or duplicated")
			}
		},
	})

	register(&Rule{
		ID: "C04.R4", Props: []string{"C04", "C08", "C17", "C05"}, Min: 5,
		Doc: "lookup and the merged environment agree on precedence: Lookup scans scopes from the innermost (index len-1 downwards) and consults the root struct only after the loop; Set writes the innermost scope; EnvMap merges scopes in ascending order with overwrite and applies the root-struct overlay before the scope loop (or non-overwriting), so explicit bindings win everywhere",
		Run: func(p *Prog, c *Ctx) {
			env := p.MustFn("(*vuego.Stack).EnvMap")
			look := p.MustFn("(*vuego.Stack).Lookup")
			set := p.MustFn("(*vuego.Stack).Set")
			// EnvMap: overlay call must not be reachable after a scope MapUpdate
			var overlay ssa.Instruction
			var updates []ssa.Instruction
			eachInstr(env, func(in ssa.Instruction) {
				if site, ok := in.(ssa.CallInstruction); ok {
					if n := calleeName(site.Common()); strings.HasSuffix(n, "PopulateStructFields") {
						overlay = in
					}
				}
				if mu, ok := in.(*ssa.MapUpdate); ok {
					updates = append(updates, mu)
				}
			})
			if len(updates) == 0 {
				undecided("EnvMap has no map update: merge loop not found")
			}
			if overlay != nil {
				after := false
				for _, u := range updates {
					if canFollow(u, overlay) {
						after = true
					}
				}
				c.check(!after, "EnvMap: struct overlay before scopes", p.instrPos(overlay), "root-struct fields are merged first; scopes overwrite them", "the root-struct overlay runs after the scopes were merged and overwrites them: Fill(struct).Assign(k, v) is lost and a root field shadows a loop variable in expressions, while Lookup prefers the scopes")
			} else {
				c.ok("EnvMap: struct overlay before scopes", p.pos(env.Pos()), "no overlay call")
			}
			// EnvMap loop direction: ascending
			asc := loopDirection(env)
			c.check(asc == +1, "EnvMap: ascending merge", p.pos(env.Pos()), "scopes merged bottom-to-top with overwrite", "scopes are not merged in ascending order: an outer binding would overwrite an inner one")
			// Lookup loop direction: descending, starting at len-1
			desc := loopDirection(look)
			c.check(desc == -1, "Lookup: innermost first", p.pos(look.Pos()), "scopes scanned from the top downwards", "Lookup does not scan from the innermost scope outwards")
			// Lookup: root fallback only after the loop (ResolveValue call not inside the loop and dominated by loop header)
			var fb ssa.Instruction
			eachInstr(look, func(in ssa.Instruction) {
				if site, ok := in.(ssa.CallInstruction); ok && strings.HasSuffix(calleeName(site.Common()), "ResolveValue") {
					fb = in
				}
			})
			if fb != nil {
				h := loopHeaderOf(fb.Block())
				var lk *ssa.Lookup
				eachInstr(look, func(in ssa.Instruction) {
					if l, ok := in.(*ssa.Lookup); ok {
						lk = l
					}
				})
				okOrder := h == nil && lk != nil && !canFollow(fb, lk)
				if lk == nil {
					// the scan is a range-over-func loop: its body is a closure, the fallback must come after the iterator ran
					for _, rf := range rangeFuncs(look) {
						inBody := false
						eachInstr(rf.Body, func(in ssa.Instruction) {
							if _, ok := in.(*ssa.Lookup); ok {
								inBody = true
							}
						})
						if inBody {
							okOrder = h == nil && canFollow(rf.Iter, fb) && !canFollow(fb, rf.Iter)
						}
					}
				}
				c.check(okOrder, "Lookup: root struct last", p.instrPos(fb), "root data is consulted only when no scope defines the name", "the root-struct fallback is consulted before/inside the scope scan")
			}
			// Set: innermost scope
			var mu *ssa.MapUpdate
			eachInstr(set, func(in ssa.Instruction) {
				if m, ok := in.(*ssa.MapUpdate); ok {
					mu = m
				}
			})
			okSet := false
			if mu != nil {
				// map = *(&stack[len(stack)-1])
				if ld, ok := mu.Map.(*ssa.UnOp); ok {
					if ia, ok := ld.X.(*ssa.IndexAddr); ok {
						if b, ok := ia.Index.(*ssa.BinOp); ok && b.Op == token.SUB {
							if one, ok := constInt(b.Y); ok && one == 1 && isCallNamed(b.X, "builtin.len") != nil {
								okSet = true
							}
						}
					}
				}
			}
			c.check(okSet, "Set: innermost scope", p.pos(set.Pos()), "writes stack[len-1]", "Set does not write the innermost scope (stack[len(stack)-1])")
		},
	})

	register(&Rule{
		ID: "C04.R6", Props: []string{"C04"}, Min: 4,
		Doc: "index and item are bound as documented: in the v-for callback, the one-variable form binds vars[0] to the item, the two-variable form binds vars[0] to the index and vars[1] to the item; Stack.ForEach passes the same zero-based induction variable to the callback and to Index()",
		Run: func(p *Prog, c *Ctx) {
			var cb *ssa.Function
			evalFor := p.MustFn("(*vuego.Vue).evalFor")
			for _, a := range evalFor.AnonFuncs {
				if len(a.Params) == 2 {
					cb = a
				}
			}
			if cb == nil {
				undecided("evalFor has no two-parameter callback")
			}
			type bind struct{ k, prm int }
			got := map[int][]bind{}
			for _, site := range callsIn(cb) {
				if !isStackCall(site.Common(), "Set") {
					continue
				}
				args := site.Common().Args
				k := int64(-1)
				for _, o := range p.origins(args[1], OriginOpts{}) {
					if ld, ok := o.(*ssa.UnOp); ok {
						if ia, ok := ld.X.(*ssa.IndexAddr); ok {
							if i, ok := constInt(ia.Index); ok {
								k = i
							}
						}
					}
				}
				prm := -1
				for _, o := range p.origins(args[2], OriginOpts{}) {
					for i, q := range cb.Params {
						if o == q {
							prm = i
						}
					}
				}
				n := int64(-1)
				for _, g := range guardsOf(site.Block()) {
					if b := eqOnEdge(g.If.Cond, g.Branch); b != nil {
						if v, ok := constInt(b.Y); ok && isCallNamed(b.X, "builtin.len") != nil {
							n = v
						}
					}
				}
				if n < 0 {
					// the form may be selected by exclusion (`n != 1 && n != 2` → error, `n == 2` → …, else → …):
					// for which numbers of variables is the binding reachable at all?
					var can []int64
					for cand := int64(0); cand <= 3; cand++ {
						cand := cand
						if reachableAssuming(site.Block(), func(cond ssa.Value) (bool, bool) {
							b, ok := cond.(*ssa.BinOp)
							if !ok {
								return false, false
							}
							x, y := b.X, b.Y
							op := b.Op
							if isCallNamed(y, "builtin.len") != nil {
								x, y = y, x
								switch op {
								case token.LSS:
									op = token.GTR
								case token.GTR:
									op = token.LSS
								case token.LEQ:
									op = token.GEQ
								case token.GEQ:
									op = token.LEQ
								}
							}
							if isCallNamed(x, "builtin.len") == nil {
								return false, false
							}
							m, isK := constInt(y)
							if !isK {
								return false, false
							}
							switch op {
							case token.EQL:
								return cand == m, true
							case token.NEQ:
								return cand != m, true
							case token.LSS:
								return cand < m, true
							case token.LEQ:
								return cand <= m, true
							case token.GTR:
								return cand > m, true
							case token.GEQ:
								return cand >= m, true
							}
							return false, false
						}) {
							can = append(can, cand)
						}
					}
					if len(can) == 1 {
						n = can[0]
					}
				}
				got[int(n)] = append(got[int(n)], bind{int(k), prm})
				c.ok(fmt.Sprintf("evalFor callback: Set(vars[%d], param%d) under len(vars)==%d", k, prm, n), p.instrPos(site), "binding found")
			}
			has := func(n int, b bind) bool {
				for _, x := range got[n] {
					if x == b {
						return true
					}
				}
				return false
			}
			c.check(len(got[1]) == 1 && has(1, bind{0, 1}), "evalFor: one-variable form", p.pos(cb.Pos()), "vars[0] ← item", "the one-variable form does not bind vars[0] to the item")
			c.check(len(got[2]) == 2 && has(2, bind{0, 0}) && has(2, bind{1, 1}), "evalFor: two-variable form", p.pos(cb.Pos()), "vars[0] ← index, vars[1] ← item", "the (i, v) form does not bind vars[0] to the index and vars[1] to the item")
			// ForEach sequence arm
			fe := p.MustFn("(*vuego.Stack).ForEach")
			for _, site := range callsIn(fe) {
				cc := site.Common()
				if cc.IsInvoke() || cc.StaticCallee() != nil {
					continue
				}
				if _, isB := cc.Value.(*ssa.Builtin); isB {
					continue
				}
				if len(cc.Args) != 2 {
					continue
				}
				idx := cc.Args[0]
				var viaIndex *ssa.Call
				for _, o := range p.origins(cc.Args[1], OriginOpts{}) {
					if cl := isCallNamed(o, "(reflect.Value).Interface"); cl != nil {
						for _, oo := range p.origins(cl.Call.Args[0], OriginOpts{}) {
							if ix := isCallNamed(oo, "(reflect.Value).Index"); ix != nil {
								viaIndex = ix
							}
						}
					}
				}
				if viaIndex == nil {
					continue
				}
				same := viaIndex.Call.Args[1] == idx
				zero := false
				if ph, ok := idx.(*ssa.Phi); ok {
					for _, e := range ph.Edges {
						if i, ok := constInt(e); ok && i == 0 {
							zero = true
						}
					}
					for _, e := range ph.Edges {
						if b, ok := e.(*ssa.BinOp); ok && b.X == ph {
							if st, ok := constInt(b.Y); !ok || st != 1 || b.Op != token.ADD {
								zero = false
							}
						}
					}
				}
				c.check(same && zero, "ForEach: sequence arm", p.instrPos(site), "callback receives (i, Index(i)) with i = 0,1,2,…", "the callback's index and the element index differ, or the index is not zero-based with step 1")
			}
		},
	})

	register(&Rule{
		ID: "C05.R2", Props: []string{"C05", "C08"}, Min: 3,
		Doc: "merge order inside the component scope: in the include evaluator, the props map is pushed first, the component's front-matter keys are Set into that scope afterwards (so front-matter wins), and every evaluation of the component comes after both; no front-matter write follows an evaluation",
		Run: func(p *Prog, c *Ctx) {
			fn := p.MustFn("(*vuego.Vue).evalInclude")
			var push ssa.Instruction
			var fmSets, evals []ssa.Instruction
			var load *ssa.Call
			for _, site := range callsIn(fn) {
				cc := site.Common()
				switch {
				case isStackCall(cc, "Push"):
					if _, isDefer := site.(*ssa.Defer); !isDefer {
						push = site
					}
				case calleeName(cc) == "(*vuego.Loader).loadFragment":
					load, _ = site.(*ssa.Call)
				case isEvaluatorCall(cc):
					evals = append(evals, site)
				}
			}
			if push == nil || load == nil || len(evals) == 0 {
				undecided("evalInclude: push / loader / evaluator calls not found")
			}
			for _, site := range callsIn(fn) {
				if !isStackCall(site.Common(), "Set") {
					continue
				}
				fromFM := false
				for _, o := range p.origins(site.Common().Args[2], OriginOpts{}) {
					if ex, ok := o.(*ssa.Extract); ok && ex.Tuple == load && ex.Index == 0 {
						fromFM = true
					}
				}
				// origins() maps a range element to the ranged operand
				if fromFM {
					fmSets = append(fmSets, site)
				}
			}
			c.check(len(fmSets) > 0, "evalInclude: front-matter written into the scope", p.pos(fn.Pos()), fmt.Sprintf("%d Set call(s) fed by the loader's front-matter", len(fmSets)), "the component's front-matter is not written into the component scope")
			for i, s := range fmSets {
				c.check(dominates(push, s), fmt.Sprintf("evalInclude: front-matter Set#%d after Push", i+1), p.instrPos(s), "inside the pushed props scope", "front-matter is written before the props scope is pushed: it lands in the includer's scope and leaks, and props would override it")
				for j, e := range evals {
					c.check(!canFollow(e, s), fmt.Sprintf("evalInclude: front-matter Set#%d before evaluation#%d", i+1, j+1), p.instrPos(e), "evaluation follows the merge", "the component is evaluated before its front-matter is merged")
				}
			}
			// no later store of prop values: no Push/Set of the vars parameter after the front-matter loop
			vars := paramOf(fn, "vars", 3, 5)
			for _, site := range callsIn(fn) {
				if site == push {
					continue
				}
				for _, a := range site.Common().Args {
					if a == vars && len(fmSets) > 0 && canFollow(fmSets[0], site) {
						c.fail("evalInclude: props applied after front-matter", p.instrPos(site), "the props map is applied again after the front-matter merge: props would override front-matter")
					}
				}
			}
		},
	})

	register(&Rule{
		ID: "C05.R3", Props: []string{"C05", "C12"}, Min: 2,
		Doc: ":required is checked on every path that renders a <template> root: the loop that returns the 'required … not provided' error (a failed lookup in the component data leading to a non-nil error whose arguments name the missing key) dominates the evaluation of the template's children",
		Run: func(p *Prog, c *Ctx) {
			fn := p.MustFn("(*vuego.Vue).evalTemplate")
			data := paramOf(fn, "componentData", 3, 5)
			var lk *ssa.Lookup
			eachInstr(fn, func(in ssa.Instruction) {
				if l, ok := in.(*ssa.Lookup); ok && l.X == data && l.CommaOk {
					lk = l
				}
			})
			if lk == nil {
				// the check may live in a helper extracted from evalTemplate: a direct callee that receives the component
				// data, looks the names up in it and returns an error — the call then plays the role of the check
				for _, site := range callsIn(fn) {
					callee := site.Common().StaticCallee()
					if callee == nil || !inModule(callee) || callee == fn {
						continue
					}
					for ai, a := range site.Common().Args {
						if a != data || ai >= len(callee.Params) {
							continue
						}
						var hl *ssa.Lookup
						eachInstr(callee, func(in ssa.Instruction) {
							if l, ok := in.(*ssa.Lookup); ok && l.X == callee.Params[ai] && l.CommaOk {
								hl = l
							}
						})
						if hl == nil {
							continue
						}
						missingErr := false
						for _, r := range returnsOf(callee) {
							last := r.Results[len(r.Results)-1]
							if isErrorType(last.Type()) && !isNilConst(last) {
								missingErr = true
							}
						}
						propagated, _ := errorPropagated(site)
						c.check(missingErr && propagated, "evalTemplate: missing → error", p.instrPos(site), "helper "+shortName(callee)+" reports a missing name and its error is returned", "the required-names helper "+shortName(callee)+" does not report an error, or evalTemplate drops it")
						n := 0
						for _, s2 := range callsIn(fn) {
							if calleeName(s2.Common()) != "(*vuego.Vue).evaluateChildren" {
								continue
							}
							n++
							c.check(dominates(site, s2), fmt.Sprintf("evalTemplate: required check before evaluateChildren#%d", n), p.instrPos(s2), "the check call dominates the evaluation", "the template's children can be evaluated on a path that skips the :required check")
						}
						c.ok("evalTemplate: required names looked up in the component data", p.instrPos(hl), "in helper "+shortName(callee))
						return
					}
				}
			}
			if lk == nil {
				c.fail("evalTemplate: required lookup", p.pos(fn.Pos()), "no presence test of the required names in the component data: a missing :required variable is not detected")
				return
			}
			// the not-present edge returns a non-nil error naming the key
			errOK := false
			named := false
			if refs := lk.Referrers(); refs != nil {
				for _, r := range *refs {
					ex, ok := r.(*ssa.Extract)
					if !ok || ex.Index != 1 {
						continue
					}
					if erefs := ex.Referrers(); erefs != nil {
						for _, er := range *erefs {
							ifi, ok := er.(*ssa.If)
							if !ok {
								continue
							}
							missing := ifi.Block().Succs[1]
							if blockReturnsNonNilError(missing) {
								errOK = true
								for _, in := range missing.Instrs {
									if cl, ok := in.(*ssa.Call); ok && calleeName(&cl.Call) == "fmt.Errorf" {
										// the variadic slice holds the key
										for _, in2 := range missing.Instrs {
											if st, ok := in2.(*ssa.Store); ok {
												for _, o := range p.origins(st.Val, OriginOpts{}) {
													for _, ko := range p.origins(lk.Index, OriginOpts{}) {
														if o == ko {
															named = true
														}
													}
												}
											}
										}
									}
								}
							}
						}
					}
				}
			}
			// every :require / :required attribute is read: the keys are compared while ranging over all attributes
			// (a first-match accessor such as GetAttr sees only one of several repeated attributes)
			inLoop := map[string]bool{}
			eachInstr(fn, func(in ssa.Instruction) {
				v, ok := in.(ssa.Value)
				if !ok || loopHeaderOf(in.Block()) == nil {
					return
				}
				// attr.Key == ":require" … or a membership test of attr.Key in a table of those names
				var subj ssa.Value
				var set []string
				if b, ok := in.(*ssa.BinOp); ok && (b.Op == token.EQL || b.Op == token.NEQ) {
					if s, ok := constString(b.Y); ok {
						subj, set = b.X, []string{s}
					}
				} else if x, st, _, isM := memberOf(v); isM {
					subj, set = x, st
				}
				if subj == nil {
					return
				}
				if f := loadedField(subj); f != nil && fieldIs(f, "Key") {
					for _, s := range set {
						if s == ":require" || s == ":required" {
							inLoop[s] = true
						}
					}
				}
			})
			viaGet := ""
			for _, site := range callsIn(fn) {
				if n := calleeName(site.Common()); n == "helpers.GetAttr" || n == "helpers.HasAttr" {
					for _, o := range p.origins(site.Common().Args[1], OriginOpts{}) {
						if s, ok := constString(o); ok && (s == ":require" || s == ":required") {
							viaGet = n
						}
						if ld, ok := o.(*ssa.UnOp); ok {
							if ia, ok := ld.X.(*ssa.IndexAddr); ok {
								_ = ia
								viaGet = n // key taken from a list of names
							}
						}
					}
				}
			}
			c.check(inLoop[":require"] && inLoop[":required"] && viaGet == "", "evalTemplate: every :require/:required attribute is read", p.pos(fn.Pos()), "keys compared while ranging over all attributes", "the required lists are not collected by ranging over all attributes ("+viaGet+" returns only the first attribute of a name): a component that repeats :require — the documented form — has its later lists ignored, so a missing variable no longer fails the render")
			c.check(errOK, "evalTemplate: missing → error", p.instrPos(lk), "a missing required name returns a non-nil error", "the failed presence test does not lead to a returned error")
			c.check(named, "evalTemplate: error names the variable", p.instrPos(lk), "the error's arguments include the missing name", "the error returned for a missing required variable does not carry its name")
			h := loopHeaderOf(lk.Block())
			// (the loop over the attributes, when the names of one attribute are checked in a loop nested in it)
			for h != nil {
				outer := loopHeaderOf2(h)
				if outer == nil {
					break
				}
				h = outer
			}
			n := 0
			for _, site := range callsIn(fn) {
				if calleeName(site.Common()) != "(*vuego.Vue).evaluateChildren" {
					continue
				}
				n++
				dom := h != nil && h.Dominates(site.Block())
				c.check(dom, fmt.Sprintf("evalTemplate: required check before evaluateChildren#%d", n), p.instrPos(site), "the check loop dominates the evaluation", "the template's children can be evaluated on a path that skips the :required check")
			}
		},
	})

	register(&Rule{
		ID: "C05.R4", Props: []string{"C05", "C16"}, Min: 3,
		Doc: "every DOM that enters evaluation has been prepared: each call that hands a freshly parsed DOM (or, outside the evaluator itself, any DOM) to evaluate/evalTemplate — or to extractSlotsFromDOM, whose result the layouts evaluate inside their <slot> elements — is dominated by the shorthand resolution (resolveComponentTags or preProcessNodes) and by the v-once id stamping (assignSeenAttrs) of that same DOM",
		Run: func(p *Prog, c *Ctx) {
			cone := p.evaluatorCone()
			n := 0
			for _, fn := range p.Funcs {
				for _, site := range callsIn(fn) {
					cc := site.Common()
					nm := calleeName(cc)
					argIdx, isSink := map[string]int{"(*vuego.Vue).evaluate": 2, "(*vuego.Vue).evalTemplate": 2, "vuego.extractSlotsFromDOM": 0}[nm]
					if !isSink || argIdx >= len(cc.Args) {
						continue // extractSlotsFromDOM: the nodes it collects are evaluated later, inside the layouts' <slot> elements
					}
					nodes := cc.Args[argIdx]
					// a tail of a prepared list is prepared
					if sl, ok := nodes.(*ssa.Slice); ok {
						nodes = sl.X
					}
					parsed := false
					for _, o := range p.origins(nodes, OriginOpts{}) {
						if ex, ok := o.(*ssa.Extract); ok {
							if cl, ok := ex.Tuple.(*ssa.Call); ok {
								n := calleeName(&cl.Call)
								if strings.Contains(n, "ParseTemplateBytes") || strings.Contains(n, "html.Parse") {
									parsed = true
								}
							}
						}
					}
					if !parsed && cone[fn] {
						continue // inside the evaluator: the DOM was prepared when it entered
					}
					n++
					key := fmt.Sprintf("%s → %s#%d", shortName(fn), strings.TrimPrefix(strings.TrimPrefix(nm, "(*vuego.Vue)."), "vuego."), n)
					same := func(v ssa.Value) bool { return valueIdentity(v) == valueIdentity(nodes) || v == nodes }
					resolved, stamped := false, false
					for _, s2 := range callsIn(fn) {
						if !dominates(s2, site) {
							continue
						}
						a := s2.Common().Args
						switch calleeName(s2.Common()) {
						case "(*vuego.Vue).resolveComponentTags":
							if same(a[1]) {
								resolved = true
							}
						case "(*vuego.Vue).preProcessNodes":
							if same(a[2]) {
								resolved = true
							}
						case "vuego.assignSeenAttrs":
							if same(a[len(a)-1]) {
								stamped = true
							}
						}
					}
					c.check(resolved, key+": shorthand resolved", p.instrPos(site), "resolveComponentTags/preProcessNodes dominates", "this DOM is evaluated without resolving registered shorthand tags: <my-comp> is emitted literally instead of including the component")
					c.check(stamped, key+": v-once ids stamped", p.instrPos(site), "assignSeenAttrs dominates", "this DOM is evaluated without v-once ids: all its v-once elements share the empty id, so the second distinct one is suppressed")
				}
			}
		},
	})

	register(&Rule{
		ID: "C06.R1", Props: []string{"C06", "C11", "C01"}, Min: 2,
		Doc: "supplied slot content is evaluated and never shared: node lists loaded from SlotContent.Nodes (one object shared by every use of the slot) reach an evaluator's result only through an evaluator call on a deep clone — never appended or returned as they are (raw leak of {{ }} and aliasing that can make the output's sibling list cyclic)",
		Run: func(p *Prog, c *Ctx) {
			// the node-carrying fields of SlotContent: the supplied children ([]*html.Node) and the scoped-slot
			// template (*html.Node) — both are one object shared by every use of the slot
			nodeFields := map[*types.Var]bool{}
			var nodesField *types.Var
			if o := p.PkgBy[modPath].Types.Scope().Lookup("SlotContent"); o != nil {
				if st, ok := o.Type().Underlying().(*types.Struct); ok {
					for i := 0; i < st.NumFields(); i++ {
						if isNodeSlice(st.Field(i).Type()) {
							nodesField = st.Field(i)
						}
						if isNodeSlice(st.Field(i).Type()) || isNamed(st.Field(i).Type(), "golang.org/x/net/html", "Node") {
							nodeFields[st.Field(i)] = true
						}
					}
				}
			}
			if nodesField == nil {
				undecided("SlotContent has no []*html.Node field")
			}
			t := newTaint(p)
			t.FollowField = func(fv *types.Var) bool { return false }
			t.StopCall = func(site ssa.CallInstruction, arg ssa.Value) bool {
				n := calleeName(site.Common())
				if callee := site.Common().StaticCallee(); callee != nil && isDeepCloner(p, callee) {
					return true
				}
				return n == "builtin.len"
			}
			cone := p.evaluatorCone()
			t.Sink = func(u ssa.Instruction, v ssa.Value) string {
				if r, ok := u.(*ssa.Return); ok && cone[r.Parent()] {
					for _, res := range r.Results {
						if res == v && (isNodeSlice(v.Type()) || hasNodeType(v.Type(), 0)) {
							return "supplied slot nodes returned unevaluated"
						}
					}
				}
				if site, ok := u.(ssa.CallInstruction); ok && (calleeName(site.Common()) == "(*vuego.Vue).evaluate" || calleeName(site.Common()) == "(*vuego.Vue).evalTemplate" || calleeName(site.Common()) == "(*vuego.Vue).evalInclude") {
					// evaluating the shared nodes themselves is fine for text, but evaluate relinks siblings of what it is given:
					// only private clones may be handed over
					return "shared slot nodes handed to the evaluator without cloning"
				}
				return ""
			}
			loads := 0
			for _, fn := range p.Funcs {
				if !cone[fn] {
					continue
				}
				eachInstr(fn, func(in ssa.Instruction) {
					if ld, ok := in.(*ssa.UnOp); ok && nodeFields[loadedField(ld)] {
						loads++
						fname := canonFieldName(loadedField(ld))
						t.Seed(ld, fmt.Sprintf("SlotContent.%s loaded at %s", fname, p.instrPos(ld)))
						c.ok(fmt.Sprintf("%s: load of SlotContent.%s#%d", shortName(fn), fname, loads), p.instrPos(ld), "followed to its uses")
					}
				})
			}
			t.Run()
			for _, h := range t.Hits {
				c.fail(shortName(h.At.Parent())+": "+h.What, p.instrPos(h.At), h.What+": "+shortWhy(h.Why))
			}
		},
	})

	register(&Rule{
		ID: "C06.R2", Props: []string{"C06"}, Min: 2,
		Doc: "the slot scope of a component comes from its own include tag: in the include evaluator the context's SlotScope is assigned from extractSlotContent(thisNode) unconditionally before the component is evaluated (an inherited scope may only be merged into it)",
		Run: func(p *Prog, c *Ctx) {
			fn := p.MustFn("(*vuego.Vue).evalInclude")
			own := map[ssa.Instruction]bool{}
			var foreign []*ssa.Store
			eachInstr(fn, func(in ssa.Instruction) {
				st, ok := in.(*ssa.Store)
				if !ok {
					return
				}
				fv := fieldVar(st.Addr)
				if fv == nil || !fieldIs(fv, "SlotScope") {
					return
				}
				fromOwn := false
				for _, o := range p.origins(st.Val, OriginOpts{}) {
					if cl := isCallNamed(o, "vuego.extractSlotContent"); cl != nil {
						fromOwn = true
					}
				}
				if fromOwn {
					own[st] = true
				} else {
					foreign = append(foreign, st)
				}
			})
			if len(own) == 0 {
				c.fail("evalInclude: SlotScope := extractSlotContent(node)", p.pos(fn.Pos()), "the include evaluator never assigns the slot scope from its include tag")
				return
			}
			// the component is evaluated by the module calls that are handed a context (methods of the
			// context itself only read it)
			n := 0
			for _, site := range callsIn(fn) {
				cc := site.Common()
				callee := cc.StaticCallee()
				if callee == nil || !inModule(callee) || cc.IsInvoke() {
					continue
				}
				takes := false
				for i, a := range cc.Args {
					if _, nm := namedType(a.Type()); nm == "VueContext" && !(i == 0 && callee.Signature.Recv() != nil) {
						takes = true
					}
				}
				if !takes {
					continue
				}
				n++
				key := fmt.Sprintf("evalInclude: %s#%d runs in the tag's own slot scope", shortName(callee), n)
				bad := ""
				if !mustPassBefore(fn, site, own) {
					bad = "a path reaches it on which the context's SlotScope was not assigned from extractSlotContent(node)"
				}
				for _, st := range foreign {
					if canFollow(st, site) && !mustPassBetween(st, site, own) {
						bad = "the SlotScope assigned at " + p.instrPos(st) + " (not the tag's own) is still current"
					}
				}
				c.check(bad == "", key, p.instrPos(site), "every path assigns the slot scope made from the include tag's own children first",
					"the component is not always evaluated in the slot scope of its own include tag ("+bad+"): a component included from inside another component — or one whose tag supplies nothing — receives the enclosing instance's slot content instead of its fallback")
			}
			if n == 0 {
				c.fail("evalInclude: component evaluation", p.pos(fn.Pos()), "no call of the include evaluator is handed the context: the role of the function changed")
			}
		},
	})

	register(&Rule{
		ID: "C06.R3", Props: []string{"C06"}, Min: 2,
		Doc: "fallback exactly when nothing was supplied: in the slot evaluator, no path on which a slot lookup (GetSlot) returned content reaches the evaluation of the <slot>'s own children",
		Run: func(p *Prog, c *Ctx) {
			fn := p.MustFn("(*vuego.Vue).evalSlot")
			node := paramOf(fn, "node", 2, 4)
			var fallback []ssa.Instruction
			for _, site := range callsIn(fn) {
				cc := site.Common()
				if calleeName(cc) == "(*vuego.Vue).evaluateChildren" && len(cc.Args) > 2 && cc.Args[2] == node {
					fallback = append(fallback, site)
				}
			}
			c.check(len(fallback) > 0, "evalSlot: fallback evaluation", p.pos(fn.Pos()), fmt.Sprintf("%d call(s) evaluate the <slot>'s own children", len(fallback)), "the <slot>'s own children are never evaluated: fallback content is lost")
			n := 0
			eachInstr(fn, func(in ssa.Instruction) {
				ifi, ok := in.(*ssa.If)
				if !ok {
					return
				}
				b, ok := ifi.Cond.(*ssa.BinOp)
				if !ok || !(isNilConst(b.X) || isNilConst(b.Y)) {
					return
				}
				other := b.X
				if isNilConst(b.X) {
					other = b.Y
				}
				if isCallNamed(other, "(*vuego.SlotScope).GetSlot") == nil {
					return
				}
				n++
				found := ifi.Block().Succs[0]
				if b.Op == token.EQL {
					found = ifi.Block().Succs[1]
				}
				bad := false
				for _, f := range fallback {
					if f.Block() == found || blocksAfter(found)[f.Block()] {
						bad = true
					}
				}
				c.check(!bad, fmt.Sprintf("evalSlot: supplied content#%d excludes fallback", n), p.instrPos(ifi), "the found-branch returns without reaching the fallback", "a path on which slot content was found still reaches the fallback evaluation: supplied content and fallback are both rendered")
			})
		},
	})

	register(&Rule{
		ID: "C17.R2", Props: []string{"C17", "C04", "C08", "C10", "C15"}, Min: 3, // Copy independence is what keeps a Load from writing into its parent (C08), into later renders (C10) and past a file edit (C15)
		Doc: "push/pop primitives: Push appends exactly one scope; Pop re-slices the list to len-1 (removes exactly one), re-creates a root scope instead of leaving the list empty, and never recycles the root map; Copy builds its root from EnvMap's fresh map, never from a scope map of the original",
		Run: func(p *Prog, c *Ctx) {
			push := p.MustFn("(*vuego.Stack).Push")
			pop := p.MustFn("(*vuego.Stack).Pop")
			cp := p.MustFn("(*vuego.Stack).Copy")
			appends := 0
			var appendSites []ssa.Instruction
			eachInstr(push, func(in ssa.Instruction) {
				if cl, ok := in.(*ssa.Call); ok && calleeName(&cl.Call) == "builtin.append" {
					// appends to the scope list; a parallel record kept per scope (where the map came from) is not a scope
					if len(cl.Call.Args) > 0 {
						if f := loadedField(cl.Call.Args[0]); f != nil && !fieldIs(f, "stack") {
							return
						}
					}
					appendSites = append(appendSites, in)
				}
			})
			// one append on a way: `if m != nil { append(m) } else { append(pooled) }` has two sites and one per way
			appends = len(appendSites)
			for _, a := range appendSites {
				for _, b := range appendSites {
					if a != b && canFollow(a, b) {
						appends = len(appendSites) + 1 // two on one way
					}
				}
			}
			if appends == len(appendSites) && appends > 1 {
				appends = 1
			}
			c.check(appends == 1, "Push: one append", p.pos(push.Pos()), "appends one scope on a way", fmt.Sprintf("Push performs %d appends on one way", len(appendSites)))
			// … on every way through Push: a Push that only counts the call (an `empty scope on top is shared`
			// shortcut) leaves the bindings set afterwards in the outer scope, where the matching Pop does not remove them
			scopeAppends := map[ssa.Instruction]bool{}
			eachInstr(push, func(in ssa.Instruction) {
				if cl, ok := in.(*ssa.Call); ok && calleeName(&cl.Call) == "builtin.append" && len(cl.Call.Args) > 0 {
					if f := loadedField(cl.Call.Args[0]); f == nil || fieldIs(f, "stack") {
						scopeAppends[cl] = true
					}
				}
			})
			for i, r := range returnsOf(push) {
				c.check(mustPassBefore(push, r, scopeAppends), fmt.Sprintf("Push: return#%d has appended a scope", i+1), p.instrPos(r), "every way to this return appends", "Push can return without having added a scope: what is Set afterwards lands in the scope below and survives the matching Pop")
			}
			// Pop: every return either follows the re-slice or is the `nothing to pop` exit
			reslices := map[ssa.Instruction]bool{}
			eachInstr(pop, func(in ssa.Instruction) {
				if sl, ok := in.(*ssa.Slice); ok && sl.High != nil {
					if f := loadedField(sl.X); f != nil && fieldIs(f, "stack") {
						reslices[sl] = true
					}
				}
			})
			if len(reslices) > 0 {
				for i, r := range returnsOf(pop) {
					if mustPassBefore(pop, r, reslices) {
						c.ok(fmt.Sprintf("Pop: return#%d has removed a scope", i+1), p.instrPos(r), "every way to this return re-slices the list")
						continue
					}
					// every way to this return that does not re-slice the list leaves an emptiness test on its `empty` edge
					// (`if len(s.stack) == 0 { return }` as well as `if len(s.stack) != 0 { … whole body … }`)
					isEmptyEdge := func(from, to *ssa.BasicBlock) bool {
						if len(from.Instrs) == 0 {
							return false
						}
						ifi, ok := from.Instrs[len(from.Instrs)-1].(*ssa.If)
						if !ok || from.Succs[0] == from.Succs[1] {
							return false
						}
						branch := from.Succs[0] == to
						op, x, y, ok := relationConstRight(ifi.Cond, branch)
						if !ok {
							return false
						}
						z, isK := constInt(y)
						if !isK {
							return false
						}
						// the tested quantity may be len(list) shifted by a constant (topIdx := len(list) - 1; topIdx < 0)
						if bo, isB := x.(*ssa.BinOp); isB && (bo.Op == token.SUB || bo.Op == token.ADD) {
							if k, isC := constInt(bo.Y); isC {
								if bo.Op == token.SUB {
									z += k
								} else {
									z -= k
								}
								x = bo.X
							}
						}
						if !((op == token.EQL && z == 0) || (op == token.LSS && z == 1) || (op == token.LEQ && z == 0)) {
							return false
						}
						ln := isCallNamed(x, "builtin.len")
						if ln == nil {
							return false
						}
						f := loadedField(ln.Call.Args[0])
						return f != nil && fieldIs(f, "stack")
					}
					emptyOnly := true
					seenB := map[*ssa.BasicBlock]bool{}
					var reach func(b *ssa.BasicBlock) bool
					reach = func(b *ssa.BasicBlock) bool {
						if seenB[b] {
							return false
						}
						seenB[b] = true
						for _, in := range b.Instrs {
							if reslices[in] {
								return false
							}
							if in == ssa.Instruction(r) {
								return true
							}
						}
						for _, sx := range b.Succs {
							if isEmptyEdge(b, sx) {
								continue
							}
							if reach(sx) {
								return true
							}
						}
						return false
					}
					if len(pop.Blocks) > 0 && reach(pop.Blocks[0]) {
						emptyOnly = false
					}
					c.check(emptyOnly, fmt.Sprintf("Pop: return#%d has removed a scope", i+1), p.instrPos(r), "the only return that removes nothing is taken when the list is empty", "Pop can return without removing a scope although the list is not empty: the scope of the matching Push stays, its bindings shadow the outer ones for the rest of the render")
				}
			}
			// Pop: a Slice of the list with High = len-1
			okSlice := false
			eachInstr(pop, func(in ssa.Instruction) {
				if sl, ok := in.(*ssa.Slice); ok && sl.High != nil {
					hi := sl.High
					// topIdx := len(s.stack) - 1
					for _, o := range p.origins(hi, OriginOpts{}) {
						if b, ok := o.(*ssa.BinOp); ok && b.Op == token.SUB {
							if one, ok := constInt(b.Y); ok && one == 1 && isCallNamed(b.X, "builtin.len") != nil {
								okSlice = true
							}
						}
					}
				}
			})
			c.check(okSlice, "Pop: removes exactly one", p.pos(pop.Pos()), "list re-sliced to [:len-1]", "Pop does not re-slice the scope list to len-1")
			// Pop: pool Put is guarded by topIdx > 0 (never the root)
			for _, site := range callsIn(pop) {
				if isCall(site, "(*sync.Pool).Put") {
					guarded := false
					for _, g := range guardsOf(site.Block()) {
						// index > 0 (also written 0 < index, index >= 1, !(index <= 0) …)
						if op, x, y, ok := relationConstRight(g.If.Cond, g.Branch); ok {
							if z, isK := constInt(y); isK && ((op == token.GTR && z == 0) || (op == token.GEQ && z == 1) || (op == token.NEQ && z == 0)) {
								// the tested quantity is the index of the top scope: len(s.stack) - 1
								for _, o := range append(p.origins(x, OriginOpts{}), x) {
									if bo, ok := o.(*ssa.BinOp); ok && bo.Op == token.SUB {
										for _, lo := range append(p.origins(bo.X, OriginOpts{}), bo.X) {
											if ln := isCallNamed(lo, "builtin.len"); ln != nil {
												if f := loadedField(ln.Call.Args[0]); f != nil && fieldIs(f, "stack") {
													guarded = true
												}
											}
										}
									}
								}
							}
						}
					}
					c.check(guarded, "Pop: root scope is not recycled", p.instrPos(site), "Put is guarded by index > 0", "the root scope map may be cleared and recycled into the pool")
				}
			}
			// Copy: NewStackWithData(EnvMap(), rootData)
			okCopy := false
			freshMap := func(v ssa.Value) bool {
				ok := false
				for _, o := range p.origins(v, OriginOpts{}) {
					if isCallNamed(o, "(*vuego.Stack).EnvMap") != nil {
						ok = true
						continue
					}
					if _, isMk := o.(*ssa.MakeMap); isMk {
						ok = true
						continue
					}
					return false
				}
				return ok
			}
			for _, site := range callsIn(cp) {
				if calleeName(site.Common()) == "vuego.NewStackWithData" && freshMap(site.Common().Args[0]) {
					okCopy = true
				}
			}
			// or the copy is built directly: &Stack{stack: []map[string]any{<fresh map>}, …}
			for _, r := range returnsOf(cp) {
				for _, o := range p.origins(r.Results[0], OriginOpts{}) {
					al, ok := o.(*ssa.Alloc)
					if !ok {
						continue
					}
					for _, u := range *al.Referrers() {
						fa, ok := u.(*ssa.FieldAddr)
						if !ok || !fieldIs(fieldVar(fa), "stack") {
							continue
						}
						for _, uu := range *fa.Referrers() {
							st, ok := uu.(*ssa.Store)
							if !ok || st.Addr != ssa.Value(fa) {
								continue
							}
							// the stored list: a literal whose elements are all fresh maps
							all, n := true, 0
							for _, lo := range p.origins(st.Val, OriginOpts{}) {
								arr, ok := lo.(*ssa.Alloc)
								if !ok {
									all = false
									continue
								}
								for _, au := range *arr.Referrers() {
									if ia, ok := au.(*ssa.IndexAddr); ok {
										for _, iu := range *ia.Referrers() {
											if est, ok := iu.(*ssa.Store); ok && est.Addr == ssa.Value(ia) {
												n++
												if !freshMap(est.Val) {
													all = false
												}
											}
										}
									}
								}
							}
							if all && n > 0 {
								okCopy = true
							}
						}
					}
				}
			}
			c.check(okCopy, "Copy: fresh root map", p.pos(cp.Pos()), "the copy's root is EnvMap()'s fresh map", "Copy does not build its root scope from a fresh merged map: the copy shares scope maps with the original")
			env := p.MustFn("(*vuego.Stack).EnvMap")
			fresh := true
			for _, r := range returnsOf(env) {
				for _, o := range p.origins(r.Results[0], OriginOpts{}) {
					if _, ok := o.(*ssa.MakeMap); !ok {
						fresh = false
					}
				}
			}
			c.check(fresh, "EnvMap: returns a fresh map", p.pos(env.Pos()), "result is a map made in the call", "EnvMap may return one of the stack's own scope maps on some path: a Copy then shares that map with the original, so a Set on one side is visible on the other")
		},
	})
}

func recvType(fn *ssa.Function) types.Type {
	if r := fn.Signature.Recv(); r != nil {
		return r.Type()
	}
	if fn.Parent() != nil {
		return types.Typ[types.Invalid]
	}
	return types.Typ[types.Invalid]
}

// loopDirection inspects the first counting loop of fn that indexes a sequence with its counter:
// +1 when the first element visited is index 0 and the counter grows, -1 when the first element
// visited is index len-1 and the counter shrinks, 0 otherwise. The counter may be offset from the
// index (`for d := len(s); d > 0; d-- { s[d-1] }`, or the -1-based counter of a range loop).
func loopDirection(fn *ssa.Function) int {
	type affine struct {
		len bool // contains len(x)
		k   int64
		ok  bool
	}
	var eval func(v ssa.Value, ph *ssa.Phi, depth int) (viaPhi bool, a affine)
	// value as (phi?) + (len?) + k
	eval = func(v ssa.Value, ph *ssa.Phi, depth int) (bool, affine) {
		if depth > 4 {
			return false, affine{}
		}
		if v == ssa.Value(ph) {
			return true, affine{ok: true}
		}
		if k, ok := constInt(v); ok {
			return false, affine{k: k, ok: true}
		}
		if isCallNamed(v, "builtin.len") != nil {
			return false, affine{len: true, ok: true}
		}
		if bo, ok := v.(*ssa.BinOp); ok && (bo.Op == token.ADD || bo.Op == token.SUB) {
			if k, ok := constInt(bo.Y); ok {
				via, a := eval(bo.X, ph, depth+1)
				if a.ok {
					if bo.Op == token.SUB {
						k = -k
					}
					a.k += k
					return via, a
				}
			}
		}
		return false, affine{}
	}
	dir := 0
	eachInstr(fn, func(in ssa.Instruction) {
		ph, ok := in.(*ssa.Phi)
		if !ok || dir != 0 {
			return
		}
		b, ok := ph.Type().Underlying().(*types.Basic)
		if !ok || b.Info()&types.IsInteger == 0 {
			return
		}
		var step int64
		var init affine
		for _, e := range ph.Edges {
			via, a := eval(e, ph, 0)
			switch {
			case via && a.ok && !a.len && (a.k == 1 || a.k == -1):
				step = a.k
			case !via && a.ok:
				init = a
			}
		}
		if step == 0 || !init.ok {
			return
		}
		// element accesses indexed by the counter (plus a constant) inside the loop
		loop := loopBlocks(ph.Block())
		eachInstr(fn, func(x ssa.Instruction) {
			if dir != 0 || !loop[x.Block()] {
				return
			}
			var idx ssa.Value
			switch y := x.(type) {
			case *ssa.IndexAddr:
				idx = y.Index
			case *ssa.Index:
				idx = y.Index
			default:
				return
			}
			via, a := eval(idx, ph, 0)
			if !via || !a.ok || a.len {
				return
			}
			first := affine{len: init.len, k: init.k + a.k}
			switch {
			case step == +1 && !first.len && first.k == 0:
				dir = +1
			case step == -1 && first.len && first.k == -1:
				dir = -1
			}
		})
	})
	if dir == 0 {
		// a range-over-func loop over a slice iterator of the standard library
		for _, rf := range rangeFuncs(fn) {
			if rf.Dir != 0 {
				dir = rf.Dir
			}
		}
	}
	return dir
}

func init() {
	register(&Rule{
		ID: "C04.R7", Props: []string{"C04", "C01"}, Min: 1,
		Doc: "one private instance per item: inside the v-for callback the element handed to the evaluator is a deep clone (DeepCloneNode) made in that very iteration — not a clone hoisted out of the loop (evaluation mutates <template>/v-html nodes and returns them, so iterations would share one node) and not a shallow clone sharing the original's children (evaluating an include rewrites its attributes in place, so data of iteration 1 becomes template text of iteration 2)",
		Run: func(p *Prog, c *Ctx) {
			evalFor := p.MustFn("(*vuego.Vue).evalFor")
			var cb *ssa.Function
			for _, a := range evalFor.AnonFuncs {
				if len(a.Params) == 2 {
					cb = a
				}
			}
			if cb == nil {
				undecided("evalFor has no two-parameter callback")
			}
			n := 0
			for _, site := range callsIn(cb) {
				if calleeName(site.Common()) != "(*vuego.Vue).evaluate" {
					continue
				}
				n++
				// elements of the slice literal passed as nodes
				var elems []ssa.Value
				for _, o := range p.origins(site.Common().Args[2], OriginOpts{}) {
					// a literal ([]*html.Node{x}: an array filled element by element) or a slice made and filled here
					var all []ssa.Instruction
					switch al := o.(type) {
					case *ssa.Alloc:
						if al.Referrers() != nil {
							all = append(all, *al.Referrers()...)
							// make([]T, k) with a constant k is an array and a slice of it: elements are set through the slice
							for _, r := range *al.Referrers() {
								if sl, ok := r.(*ssa.Slice); ok && sl.Referrers() != nil {
									all = append(all, *sl.Referrers()...)
								}
							}
						}
					case *ssa.MakeSlice:
						if al.Parent() == site.Parent() && al.Referrers() != nil {
							all = append(all, *al.Referrers()...)
						}
					}
					refs := &all
					if len(all) > 0 {
						{
							for _, r := range *refs {
								if ia, ok := r.(*ssa.IndexAddr); ok {
									if irefs := ia.Referrers(); irefs != nil {
										for _, ir := range *irefs {
											if st, ok := ir.(*ssa.Store); ok {
												elems = append(elems, st.Val)
											}
										}
									}
								}
							}
						}
					}
				}
				okAll := len(elems) > 0
				why := "the evaluated node list is not a literal built in the callback"
				for _, e := range elems {
					for _, o := range p.origins(e, OriginOpts{}) {
						cl, ok := o.(*ssa.Call)
						switch {
						case !ok:
							okAll, why = false, "the looped element originates from "+describeValue(o)
						case cl.Call.StaticCallee() == nil || !isDeepCloner(p, cl.Call.StaticCallee()):
							okAll, why = false, "the looped element is produced by "+calleeName(&cl.Call)+", which does not copy the children"
						case cl.Parent() != cb:
							okAll, why = false, "the deep clone is made once outside the per-item callback (at "+p.instrPos(cl)+") and reused for every item"
						}
					}
				}
				c.check(okAll, fmt.Sprintf("evalFor callback: evaluated instance#%d", n), p.instrPos(site), "DeepCloneNode(node) made in this iteration", why+": loop instances share node objects")
			}
			c.check(n > 0, "evalFor callback: evaluates an instance", p.pos(cb.Pos()), "evaluate is called per item", "the v-for callback no longer evaluates an instance per item")
		},
	})

	register(&Rule{
		ID: "C06.R5", Props: []string{"C06"}, Min: 2,
		Doc: "slot partitioning: a child of the include tag is registered as a slot template (SlotContent with a TemplateNode) only when it is a <template> carrying v-slot / # (hasVSlot); every other child — including plain <template v-if/v-for> — goes to the unnamed slot as ordinary content",
		Run: func(p *Prog, c *Ctx) {
			fn := p.MustFn("vuego.extractSlotContent")
			n := 0
			eachInstr(fn, func(in ssa.Instruction) {
				st, ok := in.(*ssa.Store)
				if !ok {
					return
				}
				fv := fieldVar(st.Addr)
				if fv == nil || !fieldIs(fv, "TemplateNode") || isNilConst(st.Val) {
					return
				}
				n++
				byVSlot, byTag := false, false
				for _, ec := range allGuards(st.Block()) {
					if cl, ok := ec.cond.(*ssa.Call); ok && calleeName(&cl.Call) == "vuego.hasVSlot" && ec.want {
						byVSlot = true
					}
					if b := eqOnEdge(ec.cond, ec.want); b != nil {
						if s, ok := constString(b.Y); ok && s == "template" {
							byTag = true
						}
					}
				}
				c.check(byVSlot && byTag, fmt.Sprintf("extractSlotContent: slot template registered#%d", n), p.instrPos(st), "only for <template> with v-slot/#", "a child is registered as a slot template without requiring `<template>` ∧ hasVSlot: a plain <template v-if/v-for> child loses its own directive and replaces or hides the default slot content")
			})
			c.check(n > 0, "extractSlotContent: registers slot templates", p.pos(fn.Pos()), fmt.Sprintf("%d store(s)", n), "named/scoped slot templates are no longer registered")
			// default content: everything else is deep-cloned into the default slot
			clones := 0
			for _, site := range callsIn(fn) {
				if calleeName(site.Common()) == "helpers.DeepCloneNode" || calleeName(site.Common()) == "helpers.CloneNode" {
					clones++
				}
			}
			c.check(clones >= 2, "extractSlotContent: content is cloned", p.pos(fn.Pos()), fmt.Sprintf("%d clone calls", clones), "supplied content is no longer cloned out of the includer's DOM")
		},
	})

	register(&Rule{
		ID: "C06.R6", Props: []string{"C06"}, Min: 2,
		Doc: "slot props are per use: the props a <slot> binds are collected in a map made in that evaluation of the slot, and what is bound into the pushed scope (under the declared name, or key by key) originates from that fresh map — never from storage that outlives the use (the shared SlotContent), which would carry one iteration's props into the next",
		Run: func(p *Prog, c *Ctx) {
			fn := p.MustFn("(*vuego.Vue).evalSlot")
			fresh := func(v ssa.Value) (bool, string) {
				// made in this evaluation of the slot: in evalSlot itself or in a helper it calls (descended into)
				for _, o := range p.origins(v, OriginOpts{Depth: 2}) {
					if _, ok := o.(*ssa.MakeMap); !ok {
						return false, describeValue(o)
					}
				}
				return true, ""
			}
			n := 0
			for _, site := range callsIn(fn) {
				if !isStackCall(site.Common(), "Set") {
					continue
				}
				val := unwrapIface(site.Common().Args[2])
				if _, isMap := val.Type().Underlying().(*types.Map); isMap {
					n++
					ok, from := fresh(val)
					c.check(ok, fmt.Sprintf("evalSlot: scoped props bound#%d", n), p.instrPos(site), "the map collected in this evaluation", "the props bound under the scoped name come from "+from+": props of an earlier use of the slot (another loop iteration) remain visible")
				}
			}
			eachInstr(fn, func(in ssa.Instruction) {
				rg, ok := in.(*ssa.Range)
				if !ok {
					return
				}
				if _, isMap := rg.X.Type().Underlying().(*types.Map); !isMap {
					return
				}
				// only the loop that feeds Stack.Set
				feeds := false
				for _, site := range callsIn(fn) {
					if isStackCall(site.Common(), "Set") {
						for _, o := range p.origins(site.Common().Args[2], OriginOpts{}) {
							if o == rg.X {
								feeds = true
							}
						}
					}
				}
				if !feeds {
					return
				}
				n++
				ok2, from := fresh(rg.X)
				c.check(ok2, fmt.Sprintf("evalSlot: destructured props bound#%d", n), p.instrPos(rg), "the map collected in this evaluation", "the props bound key by key come from "+from)
			})
			c.check(n > 0, "evalSlot: binds slot props", p.pos(fn.Pos()), fmt.Sprintf("%d binding site(s)", n), "slot props are no longer bound into the slot content's scope")
		},
	})
}

// isDeepCloner recognises a deep-copy function structurally: func(*html.Node) *html.Node that calls
// itself (on the children) and whose result is a node obtained fresh in the call (allocator / pool getter),
// never the argument.
func isDeepCloner(p *Prog, fn *ssa.Function) bool {
	if !inModule(fn) || len(fn.Params) != 1 || fn.Signature.Results().Len() != 1 {
		return false
	}
	if !isNamed(fn.Params[0].Type(), "golang.org/x/net/html", "Node") || !isNamed(fn.Signature.Results().At(0).Type(), "golang.org/x/net/html", "Node") {
		return false
	}
	self := false
	for _, site := range callsIn(fn) {
		if site.Common().StaticCallee() == fn {
			self = true
		}
	}
	if !self {
		return false
	}
	for _, r := range returnsOf(fn) {
		for _, o := range p.origins(r.Results[0], OriginOpts{}) {
			switch x := o.(type) {
			case *ssa.Alloc:
			case *ssa.Call:
				if x.Call.StaticCallee() == fn {
					return false
				}
			default:
				return false
			}
		}
	}
	return true
}

func init() {
	register(&Rule{
		ID: "C05.R5", Props: []string{"C05"}, Min: 2,
		Doc: "a shorthand tag is the include by construction: the rewrite of a registered component tag only renames the element to `template` and appends an `include` attribute whose value is the registry's filename — it touches no other field, keeps the attributes (props) and the children (slot content), and the registry is consulted with the element's own tag name",
		Run: func(p *Prog, c *Ctx) {
			// the rewrite itself — or, when the two-statement method was inlined and deleted, the walk that contains it
			hosts, isRole := p.hostsOf("(*vuego.Vue).replaceWithInclude")
			if len(hosts) == 0 {
				undecided("anchor function (*vuego.Vue).replaceWithInclude not found, nor its former callers")
			}
			fn := hosts[0]
			var node ssa.Value
			var file ssa.Value
			if isRole {
				node = paramOf(fn, "node", 1, 3)
				file = paramOf(fn, "filename", 2, 3)
			} else {
				node = paramOf(fn, "node", 1, 2)
				for _, lk := range registryLookups(fn) {
					if refs := lk.v.Referrers(); refs != nil {
						for _, u := range *refs {
							if ex, ok := u.(*ssa.Extract); ok && ex.Index == 0 {
								file = ex
							}
						}
					}
				}
			}
			fields := map[string]ssa.Value{}
			eachInstr(fn, func(in ssa.Instruction) {
				if st, ok := in.(*ssa.Store); ok {
					if fa, ok := st.Addr.(*ssa.FieldAddr); ok && fa.X == node {
						fields[fieldName(fa.X.Type(), fa.Field)] = st.Val
					}
				}
			})
			var names []string
			for k := range fields {
				names = append(names, k)
			}
			sort.Strings(names)
			onlyTwo := len(fields) == 2 && fields["Data"] != nil && fields["Attr"] != nil
			c.check(onlyTwo, "replaceWithInclude: fields written", p.pos(fn.Pos()), "Data and Attr only", "the shorthand rewrite writes "+strings.Join(names, ", ")+": it must only rename the element and append the include attribute (children and other attributes are the component's props and slot content)")
			if d, ok := fields["Data"]; ok {
				s, isC := constString(d)
				c.check(isC && s == "template", "replaceWithInclude: renamed to template", p.pos(fn.Pos()), "Data = \"template\"", "the element is not renamed to `template`")
			}
			if a, ok := fields["Attr"]; ok {
				isAppend := isCallNamed(a, "builtin.append") != nil
				keyOK, valOK := false, false
				eachInstr(fn, func(in ssa.Instruction) {
					if st, ok := in.(*ssa.Store); ok {
						if fv := fieldVar(st.Addr); fv != nil && fv.Pkg() != nil && fv.Pkg().Path() == "golang.org/x/net/html" {
							if fieldIs(fv, "Key") {
								if s, ok := constString(st.Val); ok && s == "include" {
									keyOK = true
								}
							}
							if fieldIs(fv, "Val") && st.Val == file {
								valOK = true
							}
						}
					}
				})
				c.check(isAppend && keyOK && valOK, "replaceWithInclude: include attribute appended", p.pos(fn.Pos()), "Attr = append(Attr, {include, filename})", "the include attribute is not appended with the registered filename (existing attributes would be lost or the wrong file included)")
			}
			// the registry lookup uses the element's tag
			pc := p.MustFn("(*vuego.Vue).processComponentNode")
			okLookup := false
			for _, lk := range registryLookups(pc) {
				if f := loadedField(lk.key); f != nil && fieldIs(f, "Data") {
					okLookup = true
				}
			}
			c.check(okLookup, "processComponentNode: registry keyed by the tag name", p.pos(pc.Pos()), "GetComponentFile(node.Data)", "the component registry is not consulted with the element's tag name")
		},
	})

	register(&Rule{
		ID: "C05.R6", Props: []string{"C05", "C14"}, Min: 2,
		Doc: "bound props keep their type: in the attribute evaluator the value recorded for a bound attribute is evalBoundAttribute's result itself (no stringification in between), and the later pass that adds the string form of every attribute to the result map only fills keys that are absent, so it cannot overwrite the typed value",
		Run: func(p *Prog, c *Ctx) {
			fn := p.MustFn("(*vuego.Vue).evalAttributes")
			n := 0
			eachInstr(fn, func(in ssa.Instruction) {
				mu, ok := in.(*ssa.MapUpdate)
				if !ok || !isNamedMapStringAny(mu.Map.Type()) {
					return
				}
				// is this the returned results map?
				isResult := false
				for _, r := range returnsOf(fn) {
					if len(r.Results) > 0 && r.Results[0] == mu.Map {
						isResult = true
					}
				}
				if !isResult {
					return
				}
				n++
				fromBound, stringified := false, false
				for _, o := range p.origins(mu.Value, OriginOpts{}) {
					if ex, ok := o.(*ssa.Extract); ok && isCallNamed(ex.Tuple, "(*vuego.Vue).evalBoundAttribute") != nil {
						fromBound = true
					}
					if cl, ok := o.(*ssa.Call); ok && strings.HasPrefix(calleeName(&cl.Call), "fmt.Sprint") {
						stringified = true
					}
				}
				if fromBound {
					c.check(!stringified, fmt.Sprintf("evalAttributes: typed bound value recorded#%d", n), p.instrPos(mu), "the evaluated value itself", "the bound value is stringified before it is recorded: props lose their type (numbers, booleans, maps, slices arrive as strings in the component)")
					return
				}
				absent := guardedBy(mu.Block(), func(cnd ssa.Value, want bool) bool {
					if ex, ok := cnd.(*ssa.Extract); ok && ex.Index == 1 && !want {
						if lk, ok := ex.Tuple.(*ssa.Lookup); ok && lk.X == mu.Map {
							return true
						}
					}
					return false
				})
				c.check(absent, fmt.Sprintf("evalAttributes: string form added#%d only when absent", n), p.instrPos(mu), "guarded by !exists", "the string form of an attribute can overwrite the typed bound value recorded earlier: props lose their type")
			})
			c.check(n >= 2, "evalAttributes: result map is filled", p.pos(fn.Pos()), fmt.Sprintf("%d stores", n), "the attribute evaluator no longer records bound and static attributes in its result map")
		},
	})
}

func isNamedMapStringAny(t types.Type) bool {
	m, ok := t.Underlying().(*types.Map)
	if !ok {
		return false
	}
	return isString(m.Key()) && types.IsInterface(m.Elem())
}

// registryLookups: where a function consults the component registry — a call of GetComponentFile, or the
// lookup in the registry map itself (the accessor inlined by hand).
type registryLookup struct {
	v   ssa.Value // the (file, ok) tuple
	key ssa.Value
}

func registryLookups(fn *ssa.Function) []registryLookup {
	var out []registryLookup
	eachInstr(fn, func(in ssa.Instruction) {
		switch x := in.(type) {
		case *ssa.Call:
			if calleeName(&x.Call) == "(*vuego.Vue).GetComponentFile" && len(x.Call.Args) > 1 {
				out = append(out, registryLookup{x, x.Call.Args[1]})
			}
		case *ssa.Lookup:
			if f := loadedField(x.X); f != nil && fieldIs(f, "componentMap") {
				out = append(out, registryLookup{x, x.Index})
			}
		}
	})
	return out
}
