package main

import (
	"go/constant"
	"go/token"
	"slices"

	"golang.org/x/tools/go/ssa"
)

// Clean-up after inlining (see inline.go): what a programmer gets by inlining a helper by hand is not
// "jump to a join block, merge the results in φ-nodes, test the φ" but straight control flow — the
// helper's `return nil, err` under `if err != nil` goes directly to the caller's error handling. The
// two passes below give the machine-inlined body that shape, so the rules' guard and dominance
// reasoning applies unchanged:
//
//   - fuse: a block that ends in a jump to a block with no other predecessor is merged with it;
//   - thread: a block consisting only of φ-nodes, at most one comparison of a φ, and the branch on it
//     is split per predecessor; where the branch outcome is known for that predecessor (constant edge,
//     or an error value that the predecessor's own guards prove non-nil / nil) the predecessor jumps
//     straight to the target, otherwise it gets its own copy of the test.
//
// Both passes touch only blocks that the inliner created (or blocks fused with them).

func (il *inliner) simplify(f *ssa.Function) {
	for round := 0; round < 400; round++ {
		il.finish(f)
		if il.forward(f) || il.foldIf(f) {
			continue
		}
		if il.fuse(f) {
			continue
		}
		if il.thread(f) {
			continue
		}
		return
	}
	undecided("inliner: clean-up of %s does not settle", f)
}

func reindex(f *ssa.Function) {
	for i, b := range f.Blocks {
		b.Index = i
	}
}

func rebuildRefs(in ssa.Instruction, mutate func()) {
	dropReferrers(in)
	mutate()
	addReferrers(in)
}

func (il *inliner) fuse(f *ssa.Function) bool {
	for _, d := range f.Blocks {
		if len(d.Instrs) == 0 {
			continue
		}
		if _, ok := d.Instrs[len(d.Instrs)-1].(*ssa.Jump); !ok {
			continue
		}
		c := d.Succs[0]
		if c == d || len(c.Preds) != 1 || c == f.Blocks[0] || c == f.Recover || !(il.marked[c] || il.marked[d]) {
			continue
		}
		// single-edge φ
		for len(c.Instrs) > 0 {
			phi, ok := c.Instrs[0].(*ssa.Phi)
			if !ok {
				break
			}
			v := phi.Edges[0]
			dropReferrers(phi)
			replaceUses(phi, v)
			c.Instrs = c.Instrs[1:]
		}
		d.Instrs = d.Instrs[: len(d.Instrs)-1 : len(d.Instrs)-1]
		for _, in := range c.Instrs {
			setBlock(in, d)
			d.Instrs = append(d.Instrs, in)
		}
		d.Succs = c.Succs
		for _, s := range d.Succs {
			for i, pr := range s.Preds {
				if pr == c {
					s.Preds[i] = d
				}
			}
		}
		f.Blocks = slices.DeleteFunc(slices.Clone(f.Blocks), func(b *ssa.BasicBlock) bool { return b == c })
		reindex(f)
		il.marked[d] = true
		return true
	}
	return false
}

// nilness of v when control leaves block p: +1 known non-nil, -1 known nil, 0 unknown.
func nilnessAt(v ssa.Value, p *ssa.BasicBlock) int {
	if isNilConst(v) {
		return -1
	}
	switch x := v.(type) {
	case *ssa.MakeInterface, *ssa.Alloc, *ssa.MakeMap, *ssa.MakeSlice, *ssa.MakeClosure, *ssa.FieldAddr, *ssa.IndexAddr:
		return +1
	case *ssa.Call:
		switch calleeName(&x.Call) {
		case "fmt.Errorf", "errors.New":
			return +1
		}
	}
	for _, g := range guardsOf(p) {
		b, ok := g.If.Cond.(*ssa.BinOp)
		if !ok || (b.Op != token.EQL && b.Op != token.NEQ) {
			continue
		}
		var other ssa.Value
		switch {
		case b.X == v:
			other = b.Y
		case b.Y == v:
			other = b.X
		default:
			continue
		}
		if !isNilConst(other) {
			continue
		}
		if (b.Op == token.NEQ) == g.Branch {
			return +1
		}
		return -1
	}
	return 0
}

func (il *inliner) thread(f *ssa.Function) bool {
	for _, c := range f.Blocks {
		if il.threadBlock(f, c) {
			return true
		}
	}
	return false
}

func (il *inliner) threadBlock(f *ssa.Function, c *ssa.BasicBlock) bool {
	if !il.marked[c] || len(c.Preds) < 2 || c == f.Blocks[0] || c == f.Recover {
		return false
	}
	ifi, ok := c.Instrs[len(c.Instrs)-1].(*ssa.If)
	if !ok {
		return false
	}
	var phis []*ssa.Phi
	i := 0
	for ; i < len(c.Instrs); i++ {
		phi, ok := c.Instrs[i].(*ssa.Phi)
		if !ok {
			break
		}
		phis = append(phis, phi)
	}
	if len(phis) == 0 {
		return false
	}
	isPhi := func(v ssa.Value) *ssa.Phi {
		if p, ok := v.(*ssa.Phi); ok && p.Block() == c {
			return p
		}
		return nil
	}
	definedInC := func(v ssa.Value) bool {
		in, ok := v.(ssa.Instruction)
		return ok && in.Block() == c
	}
	var cmp *ssa.BinOp
	rest := c.Instrs[i : len(c.Instrs)-1]
	switch len(rest) {
	case 0:
		if isPhi(ifi.Cond) == nil {
			return false
		}
	case 1:
		b, ok := rest[0].(*ssa.BinOp)
		if !ok || ifi.Cond != b {
			return false
		}
		switch b.Op {
		case token.EQL, token.NEQ, token.LSS, token.LEQ, token.GTR, token.GEQ:
		default:
			return false
		}
		px, py := isPhi(b.X), isPhi(b.Y)
		if (px == nil) == (py == nil) {
			return false
		}
		if px == nil && definedInC(b.X) || py == nil && definedInC(b.Y) {
			return false
		}
		cmp = b
	default:
		return false
	}
	t := [2]*ssa.BasicBlock{c.Succs[0], c.Succs[1]}
	if t[0] == t[1] || t[0] == c || t[1] == c {
		return false
	}
	for a := range c.Preds {
		for b := a + 1; b < len(c.Preds); b++ {
			if c.Preds[a] == c.Preds[b] {
				return false
			}
		}
		if c.Preds[a] == c {
			return false
		}
	}
	sole := [2]bool{len(t[0].Preds) == 1, len(t[1].Preds) == 1}
	// values defined in c and where they are used
	var cvals []ssa.Value
	for _, p := range phis {
		cvals = append(cvals, p)
	}
	if cmp != nil {
		cvals = append(cvals, cmp)
	}
	type use struct {
		user ssa.Instruction
		w    ssa.Value
	}
	var region [2][]use
	for _, w := range cvals {
		seen := map[ssa.Instruction]bool{}
		for _, u := range *w.Referrers() {
			if seen[u] {
				continue
			}
			seen[u] = true
			if u.Block() == c {
				continue
			}
			placed := false
			for j := 0; j < 2; j++ {
				if up, ok := u.(*ssa.Phi); ok && up.Block() == t[j] {
					okEdges := true
					for k, e := range up.Edges {
						if e == w && t[j].Preds[k] != c {
							okEdges = false
						}
					}
					if okEdges {
						placed = true // handled with the target's φ-nodes
						break
					}
				}
				if sole[j] && t[j].Dominates(u.Block()) {
					region[j] = append(region[j], use{u, w})
					placed = true
					break
				}
			}
			if !placed {
				return false
			}
		}
	}
	// decide every incoming edge
	n := len(c.Preds)
	known := make([]int, n) // 0 unknown, 1 → t[0] (cond true), 2 → t[1]
	subst := func(v ssa.Value, i int) ssa.Value {
		if p := isPhi(v); p != nil {
			return p.Edges[i]
		}
		return v
	}
	for i, pr := range c.Preds {
		if cmp == nil {
			v := subst(ifi.Cond, i)
			if k, ok := v.(*ssa.Const); ok && k.Value != nil && k.Value.Kind() == constant.Bool {
				if constant.BoolVal(k.Value) {
					known[i] = 1
				} else {
					known[i] = 2
				}
			}
			continue
		}
		a, b := subst(cmp.X, i), subst(cmp.Y, i)
		res := 0 // +1 the comparison is true on this edge, -1 false
		ka, aok := a.(*ssa.Const)
		kb, bok := b.(*ssa.Const)
		isEq := cmp.Op == token.EQL || cmp.Op == token.NEQ
		sign := func(t bool) int {
			if t {
				return +1
			}
			return -1
		}
		switch {
		case aok && bok && ka.Value == nil && kb.Value == nil && isEq:
			res = sign(cmp.Op == token.EQL)
		case aok && bok && ka.Value != nil && kb.Value != nil && ka.Value.Kind() == kb.Value.Kind() && ka.Value.Kind() != constant.Unknown && (isEq || ka.Value.Kind() == constant.Int || ka.Value.Kind() == constant.String || ka.Value.Kind() == constant.Float):
			res = sign(constant.Compare(ka.Value, cmp.Op, kb.Value))
		case bok && kb.Value == nil && isEq:
			if nz := nilnessAt(a, pr); nz != 0 {
				res = sign((nz < 0) == (cmp.Op == token.EQL))
			}
		case aok && ka.Value == nil && isEq:
			if nz := nilnessAt(b, pr); nz != 0 {
				res = sign((nz < 0) == (cmp.Op == token.EQL))
			}
		}
		if res > 0 {
			known[i] = 1
		} else if res < 0 {
			known[i] = 2
		}
	}
	// an edge must not duplicate an existing successor edge of its predecessor
	for i, pr := range c.Preds {
		if known[i] != 0 && slices.Contains(pr.Succs, t[known[i]-1]) {
			return false
		}
	}
	// ---- transform ----
	type incoming struct {
		from *ssa.BasicBlock
		i    int
		cmpv ssa.Value // value of cmp on this edge (const or the copy)
	}
	var in [2][]incoming
	boolConst := func(b bool) ssa.Value { return ssa.NewConst(constant.MakeBool(b), ifi.Cond.Type()) }
	var copies []*ssa.BasicBlock
	for i, pr := range c.Preds {
		if known[i] != 0 {
			j := known[i] - 1
			for k, s := range pr.Succs {
				if s == c {
					pr.Succs[k] = t[j]
				}
			}
			var cv ssa.Value
			if cmp != nil {
				cv = boolConst(j == 0)
			}
			in[j] = append(in[j], incoming{pr, i, cv})
			continue
		}
		ci := &ssa.BasicBlock{Comment: c.Comment + ":edge"}
		setUnexported(ci, "parent", f)
		il.marked[ci] = true
		var cond ssa.Value
		if cmp == nil {
			cond = subst(ifi.Cond, i)
		} else {
			nb := cloneInstr(cmp).(*ssa.BinOp)
			nb.X, nb.Y = subst(cmp.X, i), subst(cmp.Y, i)
			setBlock(nb, ci)
			addReferrers(nb)
			ci.Instrs = append(ci.Instrs, nb)
			cond = nb
		}
		ni := &ssa.If{Cond: cond}
		setBlock(ni, ci)
		addReferrers(ni)
		ci.Instrs = append(ci.Instrs, ni)
		ci.Preds = []*ssa.BasicBlock{pr}
		ci.Succs = []*ssa.BasicBlock{t[0], t[1]}
		for k, s := range pr.Succs {
			if s == c {
				pr.Succs[k] = ci
			}
		}
		var cv ssa.Value
		if cmp != nil {
			cv = cond
		}
		in[0] = append(in[0], incoming{ci, i, cv})
		in[1] = append(in[1], incoming{ci, i, cv})
		copies = append(copies, ci)
	}
	valOn := func(w ssa.Value, e incoming) ssa.Value {
		if cmp != nil && w == ssa.Value(cmp) {
			return e.cmpv
		}
		return subst(w, e.i)
	}
	for j := 0; j < 2; j++ {
		tj := t[j]
		pos := slices.Index(tj.Preds, c)
		var froms []*ssa.BasicBlock
		for _, e := range in[j] {
			froms = append(froms, e.from)
		}
		// existing φ-nodes of the target
		for _, x := range tj.Instrs {
			up, ok := x.(*ssa.Phi)
			if !ok {
				break
			}
			rebuildRefs(up, func() {
				old := up.Edges[pos]
				var ne []ssa.Value
				ne = append(ne, up.Edges[:pos]...)
				for _, e := range in[j] {
					if definedInC(old) {
						ne = append(ne, valOn(old, e))
					} else {
						ne = append(ne, old)
					}
				}
				ne = append(ne, up.Edges[pos+1:]...)
				up.Edges = ne
			})
		}
		var np []*ssa.BasicBlock
		np = append(np, tj.Preds[:pos]...)
		np = append(np, froms...)
		np = append(np, tj.Preds[pos+1:]...)
		tj.Preds = np
		// uses in the region dominated by the target
		if len(in[j]) == 0 {
			continue
		}
		repl := map[ssa.Value]ssa.Value{}
		var newPhis []ssa.Instruction
		for _, u := range region[j] {
			r, ok := repl[u.w]
			if !ok {
				if len(in[j]) == 1 {
					r = valOn(u.w, in[j][0])
				} else {
					phi := &ssa.Phi{Comment: "threaded"}
					for _, e := range in[j] {
						phi.Edges = append(phi.Edges, valOn(u.w, e))
					}
					setUnexported(phi, "typ", u.w.Type())
					setBlock(phi, tj)
					addReferrers(phi)
					newPhis = append(newPhis, phi)
					r = phi
				}
				repl[u.w] = r
			}
			rebuildRefs(u.user, func() {
				for _, op := range u.user.Operands(nil) {
					if op != nil && *op == u.w {
						*op = r
					}
				}
			})
		}
		if len(newPhis) > 0 {
			tj.Instrs = append(newPhis, tj.Instrs...)
			il.marked[tj] = true
		}
	}
	// delete c
	for _, x := range c.Instrs {
		dropReferrers(x)
	}
	var nb []*ssa.BasicBlock
	for _, b := range f.Blocks {
		if b == c {
			nb = append(nb, copies...)
			continue
		}
		nb = append(nb, b)
	}
	f.Blocks = nb
	reindex(f)
	removeUnreachable(f)
	return true
}

// removeUnreachable deletes blocks that no path from the entry (or the recover block) reaches.
func removeUnreachable(f *ssa.Function) {
	reach := map[*ssa.BasicBlock]bool{}
	var dfs func(b *ssa.BasicBlock)
	dfs = func(b *ssa.BasicBlock) {
		if reach[b] {
			return
		}
		reach[b] = true
		for _, s := range b.Succs {
			dfs(s)
		}
	}
	dfs(f.Blocks[0])
	if f.Recover != nil {
		dfs(f.Recover)
	}
	dead := false
	for _, b := range f.Blocks {
		if !reach[b] {
			dead = true
		}
	}
	if !dead {
		return
	}
	for _, b := range f.Blocks {
		if !reach[b] {
			for _, in := range b.Instrs {
				dropReferrers(in)
			}
			continue
		}
		for k := len(b.Preds) - 1; k >= 0; k-- {
			if reach[b.Preds[k]] {
				continue
			}
			for _, x := range b.Instrs {
				up, ok := x.(*ssa.Phi)
				if !ok {
					break
				}
				rebuildRefs(up, func() { up.Edges = slices.Delete(slices.Clone(up.Edges), k, k+1) })
			}
			b.Preds = slices.Delete(slices.Clone(b.Preds), k, k+1)
		}
	}
	f.Blocks = slices.DeleteFunc(slices.Clone(f.Blocks), func(b *ssa.BasicBlock) bool { return !reach[b] })
	reindex(f)
	// a value defined in a dead block cannot be used in a live one (it would not dominate the use)
}

// forward replaces, inside one inliner-made block, a load of a non-escaping local cell by the value
// of the store that precedes it in the same block (the spill/reload pair go/ssa emits around the
// deferred calls of a function with named results), and deletes cells that are only written.
func (il *inliner) forward(f *ssa.Function) bool {
	private := func(a *ssa.Alloc) bool {
		for _, u := range *a.Referrers() {
			switch x := u.(type) {
			case *ssa.Store:
				if x.Addr != ssa.Value(a) || x.Val == ssa.Value(a) {
					return false
				}
			case *ssa.UnOp:
				if x.Op != token.MUL {
					return false
				}
			default:
				return false
			}
		}
		return true
	}
	for _, b := range f.Blocks {
		if !il.marked[b] {
			continue
		}
		for i, in := range b.Instrs {
			ld, ok := in.(*ssa.UnOp)
			if !ok || ld.Op != token.MUL {
				continue
			}
			a, ok := ld.X.(*ssa.Alloc)
			if !ok || a.Parent() != f || !private(a) {
				continue
			}
			for k := i - 1; k >= 0; k-- {
				if st, ok := b.Instrs[k].(*ssa.Store); ok && st.Addr == ssa.Value(a) {
					dropReferrers(ld)
					replaceUses(ld, st.Val)
					removeInstr(ld)
					return true
				}
			}
		}
	}
	// dead cells
	for _, b := range f.Blocks {
		for _, in := range b.Instrs {
			a, ok := in.(*ssa.Alloc)
			if !ok || !il.clonedAlloc[a] {
				continue
			}
			onlyStores := true
			for _, u := range *a.Referrers() {
				if st, ok := u.(*ssa.Store); !ok || st.Addr != ssa.Value(a) || st.Val == ssa.Value(a) {
					onlyStores = false
				}
			}
			if !onlyStores {
				continue
			}
			for _, u := range slices.Clone(*a.Referrers()) {
				dropReferrers(u)
				removeInstr(u)
			}
			removeInstr(a)
			f.Locals = slices.DeleteFunc(slices.Clone(f.Locals), func(l *ssa.Alloc) bool { return l == a })
			return true
		}
	}
	return false
}

// foldIf turns a branch on a boolean constant (left behind by forwarding or threading) into a jump.
func (il *inliner) foldIf(f *ssa.Function) bool {
	for _, b := range f.Blocks {
		if !il.marked[b] {
			continue
		}
		ifi, ok := b.Instrs[len(b.Instrs)-1].(*ssa.If)
		if !ok {
			continue
		}
		k, ok := ifi.Cond.(*ssa.Const)
		if !ok || k.Value == nil || k.Value.Kind() != constant.Bool {
			continue
		}
		taken, other := b.Succs[0], b.Succs[1]
		if !constant.BoolVal(k.Value) {
			taken, other = other, taken
		}
		if taken == other {
			continue
		}
		pos := slices.Index(other.Preds, b)
		for _, x := range other.Instrs {
			up, ok := x.(*ssa.Phi)
			if !ok {
				break
			}
			rebuildRefs(up, func() { up.Edges = slices.Delete(slices.Clone(up.Edges), pos, pos+1) })
		}
		other.Preds = slices.Delete(slices.Clone(other.Preds), pos, pos+1)
		j := &ssa.Jump{}
		setBlock(j, b)
		b.Instrs[len(b.Instrs)-1] = j
		b.Succs = []*ssa.BasicBlock{taken}
		removeUnreachable(f)
		return true
	}
	return false
}
