package main

import (
	"go/types"
	"sort"
	"strings"

	"golang.org/x/tools/go/ssa"
)

// lockKey names one mutex instance as seen from a function: access path of the struct that holds
// it plus the mutex field ("param0.templateMu", "global:pathCache.RWMutex").
type lockKey string

type lockState map[lockKey]int // 1 = read-held, 2 = write-held

func (s lockState) clone() lockState {
	o := lockState{}
	for k, v := range s {
		o[k] = v
	}
	return o
}

func meetLocks(a, b lockState) lockState {
	o := lockState{}
	for k, v := range a {
		if w, ok := b[k]; ok {
			if w < v {
				v = w
			}
			o[k] = v
		}
	}
	return o
}

func equalLocks(a, b lockState) bool {
	if len(a) != len(b) {
		return false
	}
	for k, v := range a {
		if b[k] != v {
			return false
		}
	}
	return true
}

func isMutexType(t types.Type) bool {
	return isNamed(t, "sync", "Mutex") || isNamed(t, "sync", "RWMutex")
}

// mutexOp classifies a call as a lock operation on a mutex identified by its access path.
func mutexOp(c *ssa.CallCommon) (key lockKey, op string, ok bool) {
	n := calleeName(c)
	switch n {
	case "(*sync.RWMutex).Lock", "(*sync.Mutex).Lock":
		op = "lock"
	case "(*sync.RWMutex).RLock":
		op = "rlock"
	case "(*sync.RWMutex).Unlock", "(*sync.Mutex).Unlock":
		op = "unlock"
	case "(*sync.RWMutex).RUnlock":
		op = "runlock"
	default:
		return "", "", false
	}
	if len(c.Args) == 0 {
		return "", "", false
	}
	return lockKey(accessPath(c.Args[0])), op, true
}

// lockFacts computes the must-held lockset before every instruction of fn.
func lockFacts(fn *ssa.Function) map[ssa.Instruction]lockState {
	in := map[*ssa.BasicBlock]lockState{}
	reached := map[*ssa.BasicBlock]bool{}
	if len(fn.Blocks) == 0 {
		return nil
	}
	in[fn.Blocks[0]] = lockState{}
	reached[fn.Blocks[0]] = true
	work := []*ssa.BasicBlock{fn.Blocks[0]}
	transfer := func(s lockState, instr ssa.Instruction) lockState {
		call, ok := instr.(*ssa.Call) // deferred unlocks run at function exit: the lock stays held
		if !ok {
			return s
		}
		k, op, ok := mutexOp(&call.Call)
		if !ok {
			return s
		}
		s = s.clone()
		switch op {
		case "lock":
			s[k] = 2
		case "rlock":
			if s[k] < 1 {
				s[k] = 1
			}
		case "unlock", "runlock":
			delete(s, k)
		}
		return s
	}
	for len(work) > 0 {
		b := work[0]
		work = work[1:]
		s := in[b]
		for _, instr := range b.Instrs {
			s = transfer(s, instr)
		}
		for _, succ := range b.Succs {
			if !reached[succ] {
				reached[succ] = true
				in[succ] = s.clone()
				work = append(work, succ)
				continue
			}
			m := meetLocks(in[succ], s)
			if !equalLocks(m, in[succ]) {
				in[succ] = m
				work = append(work, succ)
			}
		}
	}
	out := map[ssa.Instruction]lockState{}
	for _, b := range fn.Blocks {
		s, ok := in[b]
		if !ok {
			s = lockState{}
		}
		for _, instr := range b.Instrs {
			out[instr] = s
			s = transfer(s, instr)
		}
	}
	return out
}

// structMutexes returns, for a struct type, the names of its mutex fields.
func structMutexes(st *types.Struct) []string {
	var out []string
	for i := 0; i < st.NumFields(); i++ {
		if isMutexType(st.Field(i).Type()) {
			out = append(out, st.Field(i).Name())
		}
	}
	return out
}

// sharedAccess is one read or write of a field that lives next to a mutex.
type sharedAccess struct {
	fn    *ssa.Function
	at    ssa.Instruction
	base  string // access path of the struct
	field string
	owner string // struct type name (or global name for anonymous structs)
	write bool
	what  string
	held  int  // 0 none, 1 read, 2 write (of the sibling mutex)
	fresh bool // the struct is a fresh allocation of this function (constructor)
}

// collectSharedAccesses finds every access to non-mutex fields of structs that contain a mutex.
func (p *Prog) collectSharedAccesses() []sharedAccess {
	var out []sharedAccess
	for _, fn := range p.Funcs {
		facts := lockFacts(fn)
		eachInstr(fn, func(in ssa.Instruction) {
			fa, ok := in.(*ssa.FieldAddr)
			if !ok {
				return
			}
			pt, ok := fa.X.Type().Underlying().(*types.Pointer)
			if !ok {
				return
			}
			st, ok := pt.Elem().Underlying().(*types.Struct)
			if !ok {
				return
			}
			mus := structMutexes(st)
			if len(mus) == 0 {
				return
			}
			f := st.Field(fa.Field)
			if isMutexType(f.Type()) {
				return
			}
			base := accessPath(fa.X)
			owner := typeShort(pt.Elem())
			if strings.HasPrefix(owner, "struct{") {
				owner = base
			}
			fresh := false
			for _, o := range p.origins(fa.X, OriginOpts{}) {
				if _, isAlloc := o.(*ssa.Alloc); isAlloc {
					fresh = true
				}
			}
			heldAt := func(at ssa.Instruction) int {
				best := 0
				for _, mu := range mus {
					if v := facts[at][lockKey(base+"."+mu)]; v > best {
						best = v
					}
				}
				return best
			}
			add := func(at ssa.Instruction, write bool, what string) {
				out = append(out, sharedAccess{fn: fn, at: at, base: base, field: f.Name(), owner: owner, write: write, what: what, held: heldAt(at), fresh: fresh})
			}
			refs := fa.Referrers()
			if refs == nil {
				return
			}
			for _, r := range *refs {
				switch x := r.(type) {
				case *ssa.Store:
					if x.Addr == fa {
						add(x, true, "assignment of the field")
					}
				case *ssa.UnOp:
					// load of the field: the accesses are the uses of the loaded value
					add(x, false, "load of the field")
					if urefs := x.Referrers(); urefs != nil {
						for _, u := range *urefs {
							switch y := u.(type) {
							case *ssa.MapUpdate:
								if y.Map == x {
									add(y, true, "map update")
								}
							case *ssa.Lookup:
								if y.X == x {
									add(y, false, "map lookup")
								}
							case *ssa.Range:
								add(y, false, "range")
							case *ssa.Call:
								if b, ok := y.Call.Value.(*ssa.Builtin); ok {
									switch b.Name() {
									case "len":
										add(y, false, "len()")
									case "delete":
										add(y, true, "delete()")
									case "append":
										add(y, false, "append() read")
									}
								}
							}
						}
					}
				}
			}
		})
	}
	sort.SliceStable(out, func(i, j int) bool {
		if out[i].fn != out[j].fn {
			return out[i].fn.String() < out[j].fn.String()
		}
		return out[i].at.Pos() < out[j].at.Pos()
	})
	return out
}
