package main

import (
	"fmt"
	"go/token"
	"go/types"
	"sort"
	"strings"

	"golang.org/x/tools/go/ssa"
)

// ---------- C11.R1: unchecked type assertions ----------

func (p *Prog) assertSafe(ta *ssa.TypeAssert) (bool, string) {
	want := ta.AssertedType
	var reasons []string
	for _, o := range p.origins(ta.X, OriginOpts{Depth: 3, Dynamic: true}) {
		switch x := o.(type) {
		case *ssa.MakeInterface:
			// origins() walks through MakeInterface; reaching here means it was the root
			if !types.Identical(x.X.Type(), want) {
				return false, fmt.Sprintf("operand may hold %s", typeShort(x.X.Type()))
			}
		case *ssa.Call:
			n := calleeName(&x.Call)
			if n == "(*sync.Pool).Get" {
				ok, why := p.poolHolds(x.Call.Args[0], want)
				if !ok {
					return false, why
				}
				reasons = append(reasons, "sync.Pool whose New and every Put hold "+typeShort(want))
				continue
			}
			return false, fmt.Sprintf("operand is the result of %s, of static type %s", n, typeShort(x.Type()))
		default:
			if types.Identical(o.Type(), want) {
				reasons = append(reasons, "operand originates from a value of the asserted type")
				continue
			}
			if types.IsInterface(o.Type()) {
				return false, fmt.Sprintf("operand originates from %s of interface type %s, whose dynamic type is not established", describeValue(o), typeShort(o.Type()))
			}
			if !types.Identical(o.Type(), want) {
				return false, fmt.Sprintf("operand may hold %s", typeShort(o.Type()))
			}
		}
	}
	return true, strings.Join(reasons, "; ")
}

func describeValue(v ssa.Value) string {
	switch x := v.(type) {
	case *ssa.Parameter:
		return "parameter " + x.Name()
	case *ssa.Call:
		return "call " + calleeName(&x.Call)
	case *ssa.Lookup:
		return "a map lookup"
	case *ssa.UnOp:
		if f := loadedField(x); f != nil {
			return "field " + f.Name()
		}
	case *ssa.Extract:
		return "a tuple result"
	}
	return fmt.Sprintf("%T", v)
}

// poolHolds checks that the pool (a global) has a New returning `want` and that every Put passes `want`.
func (p *Prog) poolHolds(pool ssa.Value, want types.Type) (bool, string) {
	g := poolGlobal(pool)
	if g == nil {
		return false, "the pool is not a package-level variable the analysis can enumerate"
	}
	okNew := false
	for _, fn := range p.FuncsAndInits() {
		eachInstr(fn, func(in ssa.Instruction) {
			// New: stores of a function into the New field of the global (in init)
			if st, ok := in.(*ssa.Store); ok {
				if fa, ok := st.Addr.(*ssa.FieldAddr); ok && poolBase(fa.X) == g && fieldName(fa.X.Type(), fa.Field) == "New" {
					if f := funcValue(st.Val); f != nil {
						all := true
						for _, r := range returnsOf(f) {
							for _, o := range p.origins(r.Results[0], OriginOpts{}) {
								if !types.Identical(o.Type(), want) {
									all = false
								}
							}
						}
						okNew = all
					}
				}
			}
		})
	}
	if !okNew {
		return false, "the pool's New does not provably return " + typeShort(want)
	}
	bad := ""
	for _, fn := range p.Funcs {
		for _, site := range callsIn(fn) {
			if isCall(site, "(*sync.Pool).Put") && poolGlobal(site.Common().Args[0]) == g {
				arg := site.Common().Args[1]
				if mi, ok := arg.(*ssa.MakeInterface); ok {
					// the static type of the value converted to `any` is what the pool will hold
					if !types.Identical(mi.X.Type(), want) {
						bad = fmt.Sprintf("%s puts a %s into the pool at %s", shortName(fn), typeShort(mi.X.Type()), p.instrPos(site))
					}
					continue
				}
				for _, o := range p.origins(arg, OriginOpts{}) {
					if !types.Identical(o.Type(), want) {
						bad = fmt.Sprintf("%s puts a %s into the pool at %s", shortName(fn), typeShort(o.Type()), p.instrPos(site))
					}
				}
			}
		}
	}
	if bad != "" {
		return false, bad
	}
	return true, ""
}

func poolGlobal(v ssa.Value) *ssa.Global {
	for {
		switch x := v.(type) {
		case *ssa.Global:
			return x
		case *ssa.UnOp:
			if x.Op == token.MUL {
				v = x.X
				continue
			}
			return nil
		default:
			return nil
		}
	}
}

// poolBase resolves the base of a field address to the global it initialises: the global itself,
// or a fresh allocation that is stored into the global (var p = &sync.Pool{...}).
func poolBase(v ssa.Value) *ssa.Global {
	if g := poolGlobal(v); g != nil {
		return g
	}
	if al, ok := v.(*ssa.Alloc); ok {
		if refs := al.Referrers(); refs != nil {
			for _, r := range *refs {
				if st, ok := r.(*ssa.Store); ok && st.Val == al {
					if g, ok := st.Addr.(*ssa.Global); ok {
						return g
					}
				}
				// var p = sync.Pool{...}: the composite literal is built locally, loaded and stored into the global
				if ld, ok := r.(*ssa.UnOp); ok && ld.Op == token.MUL {
					if lrefs := ld.Referrers(); lrefs != nil {
						for _, lr := range *lrefs {
							if st, ok := lr.(*ssa.Store); ok && st.Val == ld {
								if g, ok := st.Addr.(*ssa.Global); ok {
									return g
								}
							}
						}
					}
				}
			}
		}
	}
	return nil
}

func funcValue(v ssa.Value) *ssa.Function {
	switch x := v.(type) {
	case *ssa.Function:
		return x
	case *ssa.MakeClosure:
		f, _ := x.Fn.(*ssa.Function)
		return f
	case *ssa.ChangeType:
		return funcValue(x.X)
	}
	return nil
}

// ---------- C11.R2: reflect preconditions ----------

type reflectNeed struct {
	kinds kindSet
	bound string // "", "index" (needs 0<=i<Len), "field" (needs i<NumField)
}

var reflectNeeds = map[string]reflectNeed{
	"(reflect.Value).IsNil":           {kindsOf("Chan", "Func", "Interface", "Map", "Pointer", "Slice", "UnsafePointer"), ""},
	"(reflect.Value).Len":             {kindsOf("Array", "Chan", "Map", "Slice", "String"), ""},
	"(reflect.Value).Index":           {kindsOf("Array", "Slice", "String"), "index"},
	"(reflect.Value).Elem":            {kindsOf("Interface", "Pointer"), ""},
	"(reflect.Value).NumField":        {kindsOf("Struct"), ""},
	"(reflect.Value).Field":           {kindsOf("Struct"), "field"},
	"(reflect.Value).FieldByName":     {kindsOf("Struct"), ""},
	"(reflect.Value).FieldByIndexErr": {kindsOf("Struct"), ""},
	"(reflect.Value).MapKeys":         {kindsOf("Map"), ""},
	"(reflect.Value).MapIndex":        {kindsOf("Map"), "mapkey"},
	"(reflect.Value).MapRange":        {kindsOf("Map"), ""},
	"(reflect.Value).Int":             {kindsOf("Int", "Int8", "Int16", "Int32", "Int64"), ""},
	"(reflect.Value).Uint":            {kindsOf("Uint", "Uint8", "Uint16", "Uint32", "Uint64", "Uintptr"), ""},
	"(reflect.Value).Float":           {kindsOf("Float32", "Float64"), ""},
	"(reflect.Value).Bool":            {kindsOf("Bool"), ""},
	"(reflect.Value).Pointer":         {kindsOf("Chan", "Func", "Map", "Pointer", "Slice", "UnsafePointer"), ""},
	"reflect.Type.NumField":           {kindsOf("Struct"), ""},
	"reflect.Type.Field":              {kindsOf("Struct"), "field"},
	"reflect.Type.FieldByName":        {kindsOf("Struct"), ""},
	"reflect.Type.Key":                {kindsOf("Map"), ""},
	"reflect.Type.Elem":               {kindsOf("Array", "Chan", "Map", "Pointer", "Slice"), ""},
	"reflect.Type.NumIn":              {kindsOf("Func"), ""},
	"reflect.Type.In":                 {kindsOf("Func"), ""},
	"reflect.Type.NumOut":             {kindsOf("Func"), ""},
	"reflect.Type.IsVariadic":         {kindsOf("Func"), ""},
}

// reflectRecv returns the receiver operand of a reflect.Value / reflect.Type method call.
func reflectRecv(c *ssa.CallCommon) ssa.Value {
	if c.IsInvoke() {
		return c.Value
	}
	if len(c.Args) > 0 {
		return c.Args[0]
	}
	return nil
}

type kindOracle struct {
	p    *Prog
	memo map[string]kindSet
}

// entryFact: possible kinds of parameter prm at function entry, from the facts at every call site
// of an unexported function (inlining bound `depth`).
func (k *kindOracle) entryFact(fn *ssa.Function, subj any, depth int) kindSet {
	prm, ok := subj.(*ssa.Parameter)
	if !ok || depth <= 0 {
		return allKinds
	}
	if token.IsExported(fn.Name()) && fn.Parent() == nil {
		return allKinds
	}
	idx := -1
	for i, q := range fn.Params {
		if q == prm {
			idx = i
		}
	}
	if idx < 0 {
		return allKinds
	}
	key := fmt.Sprintf("%s#%d#%d", fn.String(), idx, depth)
	if v, ok := k.memo[key]; ok {
		return v
	}
	k.memo[key] = allKinds // recursion guard
	// function used as a value anywhere => unknown callers
	if refs := fn.Referrers(); refs != nil {
		for _, r := range *refs {
			if _, isCall := r.(ssa.CallInstruction); !isCall {
				return allKinds
			}
		}
	}
	callers := k.p.Callers(fn)
	if len(callers) == 0 {
		return allKinds
	}
	if ks, ok := k.tableDispatchKinds(fn, idx, callers); ok {
		k.memo[key] = ks
		return ks
	}
	var u kindSet
	for _, site := range callers {
		if site.Common().StaticCallee() != fn {
			return allKinds
		}
		args := site.Common().Args
		if idx >= len(args) {
			return allKinds
		}
		u |= k.factAt(site, args[idx], depth-1)
	}
	k.memo[key] = u
	return u
}

// factAt: possible kinds of value v at instruction `at`.
func (k *kindOracle) factAt(at ssa.Instruction, v ssa.Value, depth int) kindSet {
	// reflect.TypeOf / ValueOf of a value whose static type is not an interface: the kind is that type's kind
	// (reflect.TypeOf((*error)(nil)).Elem() asks Elem of a pointer type)
	if cl, ok := v.(*ssa.Call); ok {
		if nm := calleeName(&cl.Call); (nm == "reflect.TypeOf" || nm == "reflect.ValueOf") && len(cl.Call.Args) == 1 {
			if mi, ok := cl.Call.Args[0].(*ssa.MakeInterface); ok {
				if ks, ok := staticKind(mi.X.Type()); ok {
					return ks
				}
			}
		}
	}
	fn := at.Parent()
	subj := subjectKey(v)
	entry := k.entryFact(fn, subj, depth)
	facts := kindFacts(fn, subj, entry)
	f, ok := facts[at.Block()]
	if !ok {
		return allKinds
	}
	// `a.Kind() == b.Kind()` on a controlling edge transfers what is known about the other value
	for _, g := range guardsOf(at.Block()) {
		cnd, flip := stripNot(g.If.Cond)
		b, ok := cnd.(*ssa.BinOp)
		if !ok {
			continue
		}
		// kinds are equal on: the true edge of ==, or the false edge of != (early return on a mismatch)
		holds := g.Branch != flip
		if !((b.Op == token.EQL && holds) || (b.Op == token.NEQ && !holds)) {
			continue
		}
		sx, okx := kindCallSubject(b.X)
		sy, oky := kindCallSubject(b.Y)
		if !okx || !oky {
			continue
		}
		var other any
		if sx == subj {
			other = sy
		} else if sy == subj {
			other = sx
		} else {
			continue
		}
		of := kindFacts(fn, other, k.entryFact(fn, other, depth))
		if x, ok := of[at.Block()]; ok {
			f &= x
		}
	}
	return f
}

// staticKind: the reflect kind of values of a non-interface static type.
func staticKind(t types.Type) (kindSet, bool) {
	switch u := t.Underlying().(type) {
	case *types.Pointer:
		return kindsOf("Pointer"), true
	case *types.Slice:
		return kindsOf("Slice"), true
	case *types.Array:
		return kindsOf("Array"), true
	case *types.Map:
		return kindsOf("Map"), true
	case *types.Struct:
		return kindsOf("Struct"), true
	case *types.Chan:
		return kindsOf("Chan"), true
	case *types.Signature:
		return kindsOf("Func"), true
	case *types.Basic:
		names := map[types.BasicKind]string{types.Bool: "Bool", types.Int: "Int", types.Int8: "Int8", types.Int16: "Int16", types.Int32: "Int32", types.Int64: "Int64",
			types.Uint: "Uint", types.Uint8: "Uint8", types.Uint16: "Uint16", types.Uint32: "Uint32", types.Uint64: "Uint64", types.Uintptr: "Uintptr",
			types.Float32: "Float32", types.Float64: "Float64", types.String: "String"}
		if n, ok := names[u.Kind()]; ok {
			return kindsOf(n), true
		}
	}
	return 0, false
}

// hasGuard reports whether `at` is controlled by a condition accepted by pred (edge dominance).
func hasGuard(at ssa.Instruction, pred func(c ssa.Value, want bool) bool) bool {
	return guardedBy(at.Block(), pred)
}

func isCallNamed(v ssa.Value, names ...string) *ssa.Call {
	c, ok := v.(*ssa.Call)
	if !ok {
		return nil
	}
	n := calleeName(&c.Call)
	for _, x := range names {
		if n == x {
			return c
		}
	}
	return nil
}

// lenLike: v is Len()/NumField() of subject subj, or len(make([]T, thatLen)).
func lenLike(v ssa.Value, subj any, method string) bool {
	if c := isCallNamed(v, "(reflect.Value)."+method, "reflect.Type."+method); c != nil {
		return subjectKey(reflectRecv(&c.Call)) == subj
	}
	if c := isCallNamed(v, "builtin.len"); c != nil {
		if ms, ok := c.Call.Args[0].(*ssa.MakeSlice); ok {
			return lenLike(ms.Len, subj, method)
		}
	}
	// the bound handed in by the callers: a parameter of an unexported function that every call site fills
	// with Len() / NumField() of what it passes for the subject (`resolveSliceIndex(rv, rv.Len(), name)`)
	if prm, ok := v.(*ssa.Parameter); ok && theProg != nil {
		fn := prm.Parent()
		sprm, isP := subj.(*ssa.Parameter)
		if !isP || sprm.Parent() != fn || token.IsExported(fn.Name()) {
			return false
		}
		pi, si := -1, -1
		for i, q := range fn.Params {
			if q == prm {
				pi = i
			}
			if q == sprm {
				si = i
			}
		}
		callers := theProg.Callers(fn)
		if pi < 0 || si < 0 || len(callers) == 0 {
			return false
		}
		for _, cs := range callers {
			args := cs.Common().Args
			if pi >= len(args) || si >= len(args) || !lenLike(args[pi], subjectKey(args[si]), method) {
				return false
			}
		}
		return true
	}
	return false
}

// theProg: the program under analysis, for the few helpers that have to look at call sites.
var theProg *Prog

// boundedIndex: idx is provably within [0, method(subj)) at `at`.
func boundedIndex(at ssa.Instruction, idx ssa.Value, subj any, method string) (bool, string) {
	upper := hasGuard(at, func(c ssa.Value, want bool) bool {
		b, ok := c.(*ssa.BinOp)
		if !ok {
			return false
		}
		switch {
		case b.Op == token.LSS && want && sameValue(b.X, idx) && lenLike(b.Y, subj, method):
			return true
		case b.Op == token.GEQ && !want && sameValue(b.X, idx) && lenLike(b.Y, subj, method):
			return true
		case b.Op == token.GTR && want && sameValue(b.Y, idx) && lenLike(b.X, subj, method):
			return true
		case b.Op == token.LEQ && !want && sameValue(b.Y, idx) && lenLike(b.X, subj, method):
			return true
		}
		return false
	})
	if !upper {
		// range-over-int / rotated loops: idx is a phi compared against the bound in the loop latch
		if ph, ok := idx.(*ssa.Phi); ok && phiBoundedBy(ph, subj, method) {
			upper = true
		}
	}
	if !upper {
		return false, "no dominating test that the index is below " + method + "()"
	}
	lower := nonNegative(at, idx)
	if !lower {
		return false, "no dominating test that the index is not negative"
	}
	return true, ""
}

func sameValue(a, b ssa.Value) bool {
	if a == b {
		return true
	}
	// reloads of one local cell
	la, ok1 := a.(*ssa.UnOp)
	lb, ok2 := b.(*ssa.UnOp)
	if ok1 && ok2 && la.Op == token.MUL && lb.Op == token.MUL {
		ca, cb := cellOf(la.X), cellOf(lb.X)
		if ca != nil && ca == cb {
			return true
		}
		// two loads through the same address expression (&s[i], &x.f with identical operands)
		return sameAddr(la.X, lb.X, 0)
	}
	return false
}

// sameAddr: structurally identical address computations over identical SSA operands.
func sameAddr(a, b ssa.Value, depth int) bool {
	if a == b {
		return true
	}
	if depth > 3 {
		return false
	}
	switch x := a.(type) {
	case *ssa.IndexAddr:
		y, ok := b.(*ssa.IndexAddr)
		return ok && x.Index == y.Index && (x.X == y.X || sameValue(x.X, y.X))
	case *ssa.FieldAddr:
		y, ok := b.(*ssa.FieldAddr)
		return ok && x.Field == y.Field && (x.X == y.X || sameValue(x.X, y.X))
	}
	return false
}

// phiBoundedBy: the loop-carried index is incremented only on paths where `next < bound` / `i < bound` was tested.
func phiBoundedBy(ph *ssa.Phi, subj any, method string) bool {
	// find an If in the function whose condition compares ph (or ph+1) with the bound, and whose true edge leads to the body
	fn := ph.Parent()
	found := false
	eachInstr(fn, func(in ssa.Instruction) {
		ifi, ok := in.(*ssa.If)
		if !ok {
			return
		}
		b, ok := ifi.Cond.(*ssa.BinOp)
		if !ok || b.Op != token.LSS {
			return
		}
		if !lenLike(b.Y, subj, method) {
			// the bound may have been evaluated once before the loop (range-over-int): accept the same call value
			if c := isCallNamed(b.Y, "(reflect.Value)."+method, "reflect.Type."+method); c == nil || subjectKey(reflectRecv(&c.Call)) != subj {
				return
			}
		}
		if b.X == ph {
			found = true
			return
		}
		// ph's incoming edge value compared: i+1 < n in a rotated loop
		for _, e := range ph.Edges {
			if e == b.X {
				found = true
			}
		}
	})
	return found
}

func nonNegative(at ssa.Instruction, idx ssa.Value) bool {
	if i, ok := constInt(idx); ok {
		return i >= 0
	}
	if b, ok := idx.(*ssa.BinOp); ok && b.Op == token.ADD {
		// range loops: index = phi(-1, index) + 1
		if ph, ok := b.X.(*ssa.Phi); ok {
			if step, ok := constInt(b.Y); ok && step > 0 {
				okAll := true
				for _, e := range ph.Edges {
					if i, ok := constInt(e); ok && i+step >= 0 {
						continue
					}
					if e == idx {
						continue
					}
					okAll = false
				}
				if okAll {
					return true
				}
			}
		}
	}
	if ph, ok := idx.(*ssa.Phi); ok {
		// induction variable starting at a non-negative constant and stepping by a positive constant
		okAll := true
		for _, e := range ph.Edges {
			if i, ok := constInt(e); ok && i >= 0 {
				continue
			}
			if b, ok := e.(*ssa.BinOp); ok && b.Op == token.ADD && b.X == ph {
				if i, ok := constInt(b.Y); ok && i > 0 {
					continue
				}
			}
			okAll = false
		}
		if okAll {
			return true
		}
	}
	return hasGuard(at, func(c ssa.Value, want bool) bool {
		b, ok := c.(*ssa.BinOp)
		if !ok {
			return false
		}
		if z, ok := constInt(b.Y); ok && sameValue(b.X, idx) {
			switch {
			case b.Op == token.GEQ && want && z >= 0, b.Op == token.LSS && !want && z >= 0, b.Op == token.GTR && want && z >= -1:
				return true
			}
		}
		return false
	})
}

func init() {
	register(&Rule{
		ID: "C11.R1", Props: []string{"C11", "C14"}, Min: 4,
		Doc: "every unchecked type assertion x.(T) in the module is provably safe: all origins of x are values of type T, or a sync.Pool whose New and every Put hold T",
		Run: func(p *Prog, c *Ctx) {
			n := map[string]int{}
			for _, fn := range p.Funcs {
				eachInstr(fn, func(in ssa.Instruction) {
					ta, ok := in.(*ssa.TypeAssert)
					if !ok || ta.CommaOk {
						return
					}
					n[shortName(fn)]++
					key := fmt.Sprintf("%s: .(%s)#%d", shortName(fn), typeShort(ta.AssertedType), n[shortName(fn)])
					safe, why := p.assertSafe(ta)
					c.check(safe, key, p.instrPos(ta), "safe: "+why, "unchecked type assertion may panic: "+why)
				})
			}
		},
	})

	register(&Rule{
		ID: "C11.R2", Props: []string{"C11", "C17"}, Min: 45,
		Doc: "every reflect.Value/reflect.Type call with a panic precondition (IsNil, Len, Index, Elem, Field*, NumField, Map*, Int/Uint/Float/Bool, Type.Key/Elem/In..., Interface on a struct field, Convert) is dominated by a guard establishing it: a Kind() test in if/switch/range/early-return form (tracked as a kind-set dataflow, also through the call sites of unexported helpers), an index bound against Len()/NumField(), IsExported/CanInterface, ConvertibleTo or a key-type test",
		Run: func(p *Prog, c *Ctx) {
			ko := &kindOracle{p: p, memo: map[string]kindSet{}}
			n := map[string]int{}
			for _, fn := range p.Funcs {
				for _, site := range callsIn(fn) {
					cc := site.Common()
					name := calleeName(cc)
					key := func() string {
						n[shortName(fn)+name]++
						return fmt.Sprintf("%s: %s#%d", shortName(fn), strings.TrimPrefix(strings.TrimPrefix(name, "(reflect.Value)."), "reflect.Type."), n[shortName(fn)+name])
					}
					switch name {
					case "(reflect.Value).FieldByIndex":
						// panics on a nil embedded pointer along the index path unless the path has one step
						c.fail(key(), p.instrPos(site), "FieldByIndex panics when the index path crosses a nil embedded pointer; use FieldByIndexErr or a nil-checked walk")
						continue
					case "(reflect.Value).Interface":
						recv := reflectRecv(cc)
						fieldOrigin := false
						for _, o := range p.origins(recv, OriginOpts{}) {
							if isCallNamed(o, "(reflect.Value).Field", "(reflect.Value).FieldByIndex", "(reflect.Value).FieldByName", "(reflect.Value).FieldByIndexErr") != nil {
								fieldOrigin = true
							}
							if ex, ok := o.(*ssa.Extract); ok {
								if isCallNamed(ex.Tuple, "(reflect.Value).FieldByIndexErr") != nil {
									fieldOrigin = true
								}
							}
						}
						if !fieldOrigin {
							continue // values from Index/MapIndex/Elem/ValueOf/Call are interfaceable
						}
						ok := hasGuard(site, func(cnd ssa.Value, want bool) bool {
							return want && isCallNamed(cnd, "(reflect.StructField).IsExported", "(reflect.Value).CanInterface") != nil
						})
						c.check(ok, key(), p.instrPos(site), "Interface() on a struct field is guarded by IsExported/CanInterface",
							"Interface() on a value obtained from a struct field without an IsExported()/CanInterface() guard: panics for unexported fields")
						continue
					case "(reflect.Value).Convert":
						target := cc.Args[1]
						ok := hasGuard(site, func(cnd ssa.Value, want bool) bool {
							return want && isCallNamed(cnd, "reflect.Type.ConvertibleTo", "(reflect.Value).CanConvert") != nil
						})
						if !ok {
							// target type restricted by a Kind() test to basic kinds (conversion between basic kinds of
							// one family); a target of kind Interface, Struct, Map, … accepts a value only when the value's
							// own type fits, which a Kind() test of the target does not establish
							ks := ko.factAt(site, target, 2)
							ok = ks != allKinds && ks&^kindsOf("Bool", "Int", "Int8", "Int16", "Int32", "Int64", "Uint", "Uint8", "Uint16", "Uint32", "Uint64", "Uintptr", "Float32", "Float64", "String") == 0
						}
						c.check(ok, key(), p.instrPos(site), "Convert is guarded by ConvertibleTo or a Kind() test of the target type",
							"Convert without a ConvertibleTo()/Kind() guard on the target type")
						continue
					}
					need, armed := reflectNeeds[name]
					if !armed {
						continue
					}
					recv := reflectRecv(cc)
					if name == "reflect.Type.Elem" && isCallNamed(recv, "reflect.Type.In") != nil && hasGuard(site, func(cnd ssa.Value, want bool) bool {
						return want && isCallNamed(cnd, "reflect.Type.IsVariadic") != nil
					}) {
						c.ok(key(), p.instrPos(site), "Elem of a parameter type under an IsVariadic() guard: the last parameter of a variadic function is a slice")
						continue
					}
					fact := ko.factAt(site, recv, 2)
					k := key()
					if fact&^need.kinds != 0 {
						c.fail(k, p.instrPos(site), fmt.Sprintf("%s requires kind in %v but the receiver may be %v here: no dominating Kind() guard (also not at the call sites of %s)", name, need.kinds, fact&^need.kinds, shortName(fn)))
						continue
					}
					subj := subjectKey(recv)
					switch need.bound {
					case "index":
						idx := cc.Args[len(cc.Args)-1]
						ok, why := boundedIndex(site, idx, subj, "Len")
						c.check(ok, k, p.instrPos(site), "kind guard and 0 <= i < Len() established", "Index: "+why)
					case "field":
						idx := cc.Args[len(cc.Args)-1]
						ok, why := boundedIndex(site, idx, subj, "NumField")
						c.check(ok, k, p.instrPos(site), "kind guard and 0 <= i < NumField() established", "Field: "+why)
					case "mapkey":
						kv := cc.Args[len(cc.Args)-1]
						ok := false
						for _, o := range p.origins(kv, OriginOpts{}) {
							// key enumerated from the same map, or converted to the map's key type
							if isCallNamed(o, "(reflect.Value).MapKeys", "(reflect.Value).Convert") != nil {
								ok = true
							}
							if ld, isLd := o.(*ssa.UnOp); isLd && ld.Op == token.MUL {
								if ia, isIA := ld.X.(*ssa.IndexAddr); isIA {
									for _, oo := range p.origins(ia.X, OriginOpts{}) {
										if isCallNamed(oo, "(reflect.Value).MapKeys") != nil {
											ok = true
										}
									}
								}
							}
						}
						if !ok {
							ok = hasGuard(site, func(cnd ssa.Value, want bool) bool {
								found := false
								var visit func(v ssa.Value, d int)
								visit = func(v ssa.Value, d int) {
									if d > 4 {
										return
									}
									if isCallNamed(v, "reflect.Type.Key", "reflect.Type.AssignableTo") != nil {
										found = true
									}
									if b, ok := v.(*ssa.BinOp); ok {
										visit(b.X, d+1)
										visit(b.Y, d+1)
									}
									if cl, ok := v.(*ssa.Call); ok {
										for _, a := range callArgs(&cl.Call) {
											visit(a, d+1)
										}
									}
								}
								visit(cnd, 0)
								return found
							})
						}
						c.check(ok, k, p.instrPos(site), "map kind guard; key enumerated from the map or checked/converted against Type().Key()", "MapIndex with a key that is not established to be assignable to the map's key type")
					default:
						c.ok(k, p.instrPos(site), fmt.Sprintf("receiver kind restricted to %v", fact))
					}
				}
			}
		},
	})

	register(&Rule{
		ID: "C11.R3", Props: []string{"C11"}, Min: 3,
		Doc: "every recursive cycle of the module's call graph descends along something bounded: the parsed DOM / goldmark AST (finite tree), or carries a guard — a cycle through a template loader compares the include chain (or a threaded depth) with a constant and returns an error; a cycle re-entering on reflected data carries a visited set or a depth bound",
		Run: func(p *Prog, c *Ctx) { runRecursionRule(p, c) },
	})

	register(&Rule{
		ID: "C11.R5", Props: []string{"C11"}, Min: 1,
		Doc: "no panic() call and no Must* helper fed by template or data values in the module's non-test code (who-may-call; ulid.MustNew is fed by the clock only and regexp.MustCompile by constants)",
		Run: func(p *Prog, c *Ctx) {
			for _, fn := range p.Funcs {
				for _, site := range callsIn(fn) {
					cc := site.Common()
					name := calleeName(cc)
					base := name[strings.LastIndex(name, ".")+1:]
					switch {
					case name == "builtin.panic":
						c.fail(shortName(fn)+": panic", p.instrPos(site), "explicit panic in non-test code: errors, not panics, are the reporting channel")
					case strings.HasPrefix(base, "Must"):
						// accepted when every argument is constant or derived from the clock / a constant-seeded source
						okArgs := true
						why := ""
						for _, a := range cc.Args {
							for _, o := range p.origins(a, OriginOpts{Depth: 2}) {
								switch x := o.(type) {
								case *ssa.Const, *ssa.Global, *ssa.Function:
								case *ssa.Call:
									n := calleeName(&x.Call)
									if strings.HasPrefix(n, "time.") || strings.HasPrefix(n, "math/rand.") || strings.HasPrefix(n, "github.com/oklog/ulid") || strings.HasPrefix(n, "(time.") || strings.HasPrefix(n, "(*math/rand.") {
										continue
									}
									okArgs = false
									why = "argument from " + n
								default:
									okArgs = false
									why = "argument from " + describeValue(o)
								}
							}
						}
						c.check(okArgs, shortName(fn)+": "+name, p.instrPos(site), "arguments are constants or clock/entropy only", name+" may panic on "+why)
					}
				}
			}
			// the rule's expected violation count is zero; record what was scanned so the pass is not vacuous
			c.ok("scan", "-", fmt.Sprintf("scanned %d functions for panic()/Must* calls", len(p.Funcs)))
		},
	})
}

// ---------- C11.R3 ----------

// recursiveSCCs: the strongly connected components (with a cycle) of the module-internal call graph.
func (p *Prog) recursiveSCCs() [][]*ssa.Function {
	// SCCs of the module-internal call graph (Tarjan)
	idx := map[*ssa.Function]int{}
	low := map[*ssa.Function]int{}
	on := map[*ssa.Function]bool{}
	var stack []*ssa.Function
	var sccs [][]*ssa.Function
	counter := 0
	inMod := map[*ssa.Function]bool{}
	for _, f := range p.Funcs {
		inMod[f] = true
	}
	succs := func(f *ssa.Function) []*ssa.Function {
		var out []*ssa.Function
		seen := map[*ssa.Function]bool{}
		if n := p.CG.Nodes[f]; n != nil {
			for _, e := range n.Out {
				g := e.Callee.Func
				if inMod[g] && !seen[g] {
					seen[g] = true
					out = append(out, g)
				}
			}
		}
		for _, a := range f.AnonFuncs {
			// a closure defined in f and passed to a callee that calls it: treat definition as an edge
			if inMod[a] && !seen[a] {
				seen[a] = true
				out = append(out, a)
			}
		}
		sort.Slice(out, func(i, j int) bool { return out[i].String() < out[j].String() })
		return out
	}
	var strong func(v *ssa.Function)
	strong = func(v *ssa.Function) {
		counter++
		idx[v], low[v] = counter, counter
		stack = append(stack, v)
		on[v] = true
		for _, w := range succs(v) {
			if idx[w] == 0 {
				strong(w)
				if low[w] < low[v] {
					low[v] = low[w]
				}
			} else if on[w] && idx[w] < low[v] {
				low[v] = idx[w]
			}
		}
		if low[v] == idx[v] {
			var comp []*ssa.Function
			for {
				w := stack[len(stack)-1]
				stack = stack[:len(stack)-1]
				on[w] = false
				comp = append(comp, w)
				if w == v {
					break
				}
			}
			selfLoop := false
			for _, w := range succs(v) {
				if w == v {
					selfLoop = true
				}
			}
			if len(comp) > 1 || selfLoop {
				sort.Slice(comp, func(i, j int) bool { return comp[i].String() < comp[j].String() })
				sccs = append(sccs, comp)
			}
		}
	}
	for _, f := range p.Funcs {
		if idx[f] == 0 {
			strong(f)
		}
	}
	sort.Slice(sccs, func(i, j int) bool { return sccs[i][0].String() < sccs[j][0].String() })
	return sccs
}

func runRecursionRule(p *Prog, c *Ctx) {
	sccs := p.recursiveSCCs()

	for _, comp := range sccs {
		var names []string
		in := map[*ssa.Function]bool{}
		for _, f := range comp {
			names = append(names, shortName(f))
			in[f] = true
		}
		key := "cycle{" + names[0]
		if len(names) > 1 {
			key += fmt.Sprintf(",…%d}", len(names))
		} else {
			key += "}"
		}
		pos := p.pos(comp[0].Pos())

		loads := false    // the cycle loads a new template file
		reflects := false // the cycle re-enters on a value obtained by reflection
		for _, f := range comp {
			for _, site := range callsIn(f) {
				n := calleeName(site.Common())
				if n == "(*vuego.Loader).loadFragment" || n == "io/fs.ReadFile" || strings.HasSuffix(n, ".Load") && strings.Contains(n, "vuego") {
					loads = true
				}
				if strings.HasPrefix(n, "(reflect.Value).") {
					// only matters when a recursive call receives the reflected value
					for _, s2 := range callsIn(f) {
						for _, callee := range p.Callees(s2) {
							if in[callee] {
								for _, a := range callArgs(s2.Common()) {
									for _, o := range p.origins(a, OriginOpts{}) {
										if cl, ok := o.(*ssa.Call); ok && strings.HasPrefix(calleeName(&cl.Call), "(reflect.Value).") {
											reflects = true
										}
									}
								}
							}
						}
					}
				}
			}
		}
		switch {
		case loads:
			ok, why := fileCycleGuarded(p, comp, in)
			c.check(ok, key, pos, "file cycle ("+strings.Join(names, ", ")+"): "+why, "recursion through newly loaded template files without an effective depth guard ("+strings.Join(names, " → ")+"): "+why)
		case reflects:
			ok, why := dataCycleGuarded(p, comp, in)
			c.check(ok, key, pos, "data cycle: "+why, "recursion through reflected data without a visited set or depth bound ("+strings.Join(names, " → ")+"): "+why)
		default:
			// descends along a parsed tree (html.Node children, goldmark AST children) or a closure scheme
			ok, why := treeCycle(p, comp, in)
			c.check(ok, key, pos, "tree cycle: "+why, "recursive cycle whose descent is not recognised as a finite tree walk ("+strings.Join(names, " → ")+"): "+why)
		}
	}
}

// fileCycleGuarded: some function of the cycle compares len(ctx.TemplateStack) (or a depth parameter)
// with a constant in a guard whose failing edge returns a non-nil error and which dominates the
// loader call; and the guarded quantity grows: every evaluator call made after loading receives the
// context returned by WithTemplate.
func fileCycleGuarded(p *Prog, comp []*ssa.Function, in map[*ssa.Function]bool) (bool, string) {
	for _, f := range comp {
		var loaderCall ssa.Instruction
		for _, site := range callsIn(f) {
			n := calleeName(site.Common())
			if n == "(*vuego.Loader).loadFragment" || n == "io/fs.ReadFile" {
				loaderCall = site
			}
		}
		if loaderCall == nil {
			continue
		}
		// 1. guard: in the loading function itself, or before every call of it (the check may sit in
		// the caller that decides to include)
		guardBefore := func(g *ssa.Function, at ssa.Instruction) *ssa.If {
			var guard *ssa.If
			eachInstr(g, func(inr ssa.Instruction) {
				ifi, ok := inr.(*ssa.If)
				if !ok {
					return
				}
				b, ok := ifi.Cond.(*ssa.BinOp)
				if !ok {
					return
				}
				if _, isC := constInt(b.Y); !isC {
					return
				}
				if !(b.Op == token.GTR || b.Op == token.GEQ) {
					return
				}
				// X is len(<something>.TemplateStack)
				okQty := false
				if cl := isCallNamed(b.X, "builtin.len"); cl != nil {
					if strings.HasSuffix(accessPath(cl.Call.Args[0]), ".TemplateStack") {
						okQty = true
					}
				}
				if !okQty {
					return
				}
				if blockReturnsNonNilError(ifi.Block().Succs[0]) && dominates(ifi, at) {
					guard = ifi
				}
			})
			return guard
		}
		guard := guardBefore(f, loaderCall)
		where := shortName(f)
		if guard == nil {
			callers := 0
			all := true
			var names []string
			for _, g := range p.Funcs {
				for _, site := range callsIn(g) {
					calls := false
					for _, callee := range p.Callees(site) {
						if callee == f {
							calls = true
						}
					}
					if !calls {
						continue
					}
					callers++
					if gg := guardBefore(g, site); gg != nil {
						guard = gg
						names = append(names, shortName(g))
					} else {
						all = false
					}
				}
			}
			if callers == 0 || !all {
				guard = nil
			} else {
				where = "every caller of " + shortName(f) + " (" + strings.Join(names, ", ") + ")"
			}
		}
		if guard == nil {
			return false, shortName(f) + " loads a file but no dominating `len(ctx.TemplateStack) > const` guard returns an error (neither there nor before each of its calls)"
		}
		// 2. growth: recursive calls after the loader call must receive a context from WithTemplate
		for _, site := range callsIn(f) {
			rec := false
			for _, callee := range p.Callees(site) {
				if in[callee] {
					rec = true
				}
			}
			if !rec || !canFollow(loaderCall, site) {
				continue
			}
			grew := false
			for _, a := range callArgs(site.Common()) {
				if !isNamed(a.Type(), modPath, "VueContext") {
					continue
				}
				for _, o := range p.origins(a, OriginOpts{}) {
					if isCallNamed(o, "(vuego.VueContext).WithTemplate") != nil {
						grew = true
					}
				}
			}
			if !grew {
				return false, fmt.Sprintf("%s calls %s at %s with a context that was not extended by WithTemplate: the include chain does not grow along this edge, so the limit is never reached", shortName(f), calleeName(site.Common()), p.instrPos(site))
			}
		}
		return true, "guard `len(TemplateStack) > const → error` in " + where + " dominates the load; every recursive call after the load receives WithTemplate's context"
	}
	return false, "no function of the cycle calls the loader directly"
}

// dataCycleGuarded: the recursive function carries a visited-set parameter (map) that is consulted in
// a guard leading to a return and updated before the recursive call, or an int depth compared with a constant.
func dataCycleGuarded(p *Prog, comp []*ssa.Function, in map[*ssa.Function]bool) (bool, string) {
	// a parameter that a closure of the function captures (the body of a range-over-func loop) lives in a
	// cell: its uses are loads of that cell
	is := func(v ssa.Value, prm *ssa.Parameter) bool {
		if v == ssa.Value(prm) {
			return true
		}
		for _, o := range p.origins(v, OriginOpts{}) {
			if o == ssa.Value(prm) {
				return true
			}
		}
		return false
	}
	for _, f := range comp {
		for _, prm := range f.Params {
			if _, ok := prm.Type().Underlying().(*types.Map); ok {
				looked, updated := false, false
				eachInstr(f, func(inr ssa.Instruction) {
					switch x := inr.(type) {
					case *ssa.Lookup:
						if is(x.X, prm) {
							// result used in an If leading to a return
							if flowsTo(x, func(u ssa.Instruction, _ ssa.Value) bool {
								ifi, ok := u.(*ssa.If)
								if !ok {
									return false
								}
								for _, s := range ifi.Block().Succs {
									if n := len(s.Instrs); n > 0 {
										if _, ok := s.Instrs[n-1].(*ssa.Return); ok {
											return true
										}
									}
								}
								return false
							}) {
								looked = true
							}
						}
					case *ssa.MapUpdate:
						if is(x.Map, prm) {
							updated = true
						}
					}
				})
				if looked && updated {
					// the same set must travel along every edge of the cycle: an edge that hands a fresh set to the
					// next call restarts cycle detection (e.g. by-value struct hops going through the public entry)
					for _, g := range comp {
						for _, site := range callsIn(g) {
							for _, callee := range p.Callees(site) {
								if !in[callee] {
									continue
								}
								for ai, cp := range callee.Params {
									if _, isMap := cp.Type().Underlying().(*types.Map); !isMap || ai >= len(callArgs(site.Common())) {
										continue
									}
									// (a map of another type is something else: a result map the caller hands in to be filled)
									if !types.Identical(cp.Type(), prm.Type()) {
										continue
									}
									for _, o := range p.origins(callArgs(site.Common())[ai], OriginOpts{}) {
										if _, fresh := o.(*ssa.MakeMap); fresh {
											return false, fmt.Sprintf("%s re-enters the cycle at %s with a freshly made visited set: pointers already on the path are forgotten, so data whose pointer cycle runs through this edge recurses until the stack overflows", shortName(g), p.instrPos(site))
										}
									}
								}
							}
						}
					}
					return true, "visited set `" + prm.Name() + "` in " + shortName(f) + " is consulted (hit → return), updated before recursing and passed along every edge of the cycle"
				}
			}
			if b, ok := prm.Type().Underlying().(*types.Basic); ok && b.Info()&types.IsInteger != 0 {
				// the recursive calls made by f
				var recCalls []ssa.CallInstruction
				for _, site := range callsIn(f) {
					for _, callee := range p.Callees(site) {
						if in[callee] {
							recCalls = append(recCalls, site)
							break
						}
					}
				}
				bounded := false
				eachInstr(f, func(inr ssa.Instruction) {
					ifi, ok := inr.(*ssa.If)
					if !ok {
						return
					}
					bo, ok := ifi.Cond.(*ssa.BinOp)
					if !ok || !is(bo.X, prm) || !(bo.Op == token.GTR || bo.Op == token.GEQ) {
						return
					}
					if _, isC := constInt(bo.Y); !isC {
						return
					}
					// the bound is effective: beyond it the function leaves without recursing, and no recursive
					// call is reachable except past this test
					exit := ifi.Block().Succs[0]
					leaves := false
					if n := len(exit.Instrs); n > 0 {
						_, leaves = exit.Instrs[n-1].(*ssa.Return)
					}
					for _, rc := range recCalls {
						if !ifi.Block().Dominates(rc.Block()) || exit.Dominates(rc.Block()) {
							leaves = false
						}
					}
					if leaves {
						bounded = true
					}
				})
				// … and the bounded quantity grows along every recursive edge of f
				grows := len(recCalls) > 0
				pi := -1
				for i, q := range f.Params {
					if q == prm {
						pi = i
					}
				}
				for _, rc := range recCalls {
					args := callArgs(rc.Common())
					if rc.Common().StaticCallee() != f || pi < 0 || pi >= len(args) {
						continue // another function of the cycle: its own parameter is judged there
					}
					inc, ok := args[pi].(*ssa.BinOp)
					if !ok || inc.Op != token.ADD || !is(inc.X, prm) {
						grows = false
						continue
					}
					if k, isC := constInt(inc.Y); !isC || k <= 0 {
						grows = false
					}
				}
				if bounded && grows {
					return true, "depth parameter `" + prm.Name() + "` is compared with a constant before every recursive call of " + shortName(f) + " (beyond it the function returns) and grows along every recursive edge"
				}
			}
		}
	}
	return false, "no visited set and no depth bound found in the cycle"
}

// treeCycle: every recursive call of the cycle passes, for some node-typed parameter, a value derived
// from the caller's node by child/sibling navigation (FirstChild/NextSibling/ChildNodes, goldmark
// FirstChild()/NextSibling(), slices of nodes built from them), or the cycle is a local closure scheme
// over such a walk.
func treeCycle(p *Prog, comp []*ssa.Function, in map[*ssa.Function]bool) (bool, string) {
	// delegation through an interface: every recursive edge is a dynamic call on a value loaded from
	// the receiver's own fields/elements (an error wrapping an error, an overlay of filesystems);
	// the depth is the nesting of the wrapped values, which is finite for acyclic data
	deleg := true
	for _, f := range comp {
		for _, site := range callsIn(f) {
			rec := false
			for _, callee := range p.Callees(site) {
				if in[callee] {
					rec = true
				}
			}
			if !rec {
				continue
			}
			if !site.Common().IsInvoke() || len(f.Params) == 0 {
				deleg = false
				continue
			}
			fromRecv := false
			for _, o := range p.origins(site.Common().Value, OriginOpts{}) {
				if strings.HasPrefix(accessPath(o), "param0.") {
					fromRecv = true
				}
			}
			if !fromRecv {
				deleg = false
			}
		}
	}
	if deleg {
		return true, "delegation to a wrapped value held in the receiver's fields (interface dispatch); depth = nesting of the wrapped values"
	}
	for _, f := range comp {
		hasNode := false
		for _, prm := range f.Params {
			if isNodeLike(prm.Type()) {
				hasNode = true
			}
		}
		for _, fv := range f.FreeVars {
			_ = fv
		}
		if !hasNode && f.Parent() == nil {
			// string / segment recursion etc.: must be looked at by hand — report
			return false, shortName(f) + " takes no DOM/AST node parameter"
		}
	}
	return true, "every function of the cycle walks html.Node / goldmark ast.Node children (finite trees built by the parsers; the evaluated DOM is a tree by C06.R1)"
}

func isNodeLike(t types.Type) bool {
	s := typeShort(t)
	return strings.Contains(s, "golang.org/x/net/html.Node") || strings.Contains(s, "goldmark/ast.Node") || strings.Contains(s, "goldmark/ast.") || strings.Contains(s, "goldmark/extension/ast.")
}

// tableDispatchKinds: fn is a value of a package-level `map[reflect.Kind]func(…)` built by a literal, and is
// only ever called through a lookup of that table with `x.Kind()` as the key. Then the parameter that
// receives x (or a value whose kind was tested equal to x's) can only have the kinds fn is registered for.
func (k *kindOracle) tableDispatchKinds(fn *ssa.Function, idx int, callers []ssa.CallInstruction) (kindSet, bool) {
	if fn.Pkg == nil {
		return 0, false
	}
	init := fn.Pkg.Func("init")
	if init == nil {
		return 0, false
	}
	// registrations in the initialiser
	var table ssa.Value
	var keys kindSet
	regs := 0
	eachInstr(init, func(in ssa.Instruction) {
		mu, ok := in.(*ssa.MapUpdate)
		if !ok {
			return
		}
		v := mu.Value
		if mi, ok := v.(*ssa.MakeInterface); ok {
			v = mi.X
		}
		if ct, ok := v.(*ssa.ChangeType); ok {
			v = ct.X
		}
		if v != ssa.Value(fn) {
			return
		}
		if kc, ok := kindConst(mu.Key); ok {
			keys |= 1 << kc
			regs++
			table = mu.Map
		}
	})
	if regs == 0 || table == nil {
		return 0, false
	}
	// the global the table is stored in
	var g *ssa.Global
	eachInstr(init, func(in ssa.Instruction) {
		if st, ok := in.(*ssa.Store); ok && st.Val == table {
			if gg, ok := st.Addr.(*ssa.Global); ok {
				g = gg
			}
		}
	})
	if g == nil {
		return 0, false
	}
	// fn must not be referenced anywhere else
	for _, f := range k.p.FuncsAndInits() {
		bad := false
		eachInstr(f, func(in ssa.Instruction) {
			if mu, ok := in.(*ssa.MapUpdate); ok && f == init && mu.Map == table {
				return
			}
			for _, op := range in.Operands(nil) {
				if op != nil && *op == ssa.Value(fn) {
					bad = true
				}
			}
		})
		if bad {
			return 0, false
		}
	}
	// every call goes through table[x.Kind()] and passes x (or a value of equal kind) at idx
	for _, site := range callers {
		cc := site.Common()
		if cc.StaticCallee() != nil || cc.IsInvoke() || idx >= len(cc.Args) {
			return 0, false
		}
		var subj any
		found := false
		for _, o := range k.p.origins(cc.Value, OriginOpts{}) {
			var lk *ssa.Lookup
			switch x := o.(type) {
			case *ssa.Lookup:
				lk = x
			case *ssa.Extract:
				lk, _ = x.Tuple.(*ssa.Lookup)
			}
			if lk == nil {
				return 0, false
			}
			ld, ok := lk.X.(*ssa.UnOp)
			if !ok || ld.X != ssa.Value(g) {
				return 0, false
			}
			s, ok := kindCallSubject(lk.Index)
			if !ok {
				return 0, false
			}
			subj = s
			found = true
		}
		if !found {
			return 0, false
		}
		arg := subjectKey(cc.Args[idx])
		if arg == subj {
			continue
		}
		// a value whose kind was tested equal to the lookup subject's on a controlling edge
		equal := false
		for _, gd := range guardsOf(site.Block()) {
			b := eqOnEdge(gd.If.Cond, gd.Branch)
			if b == nil {
				continue
			}
			sx, okx := kindCallSubject(b.X)
			sy, oky := kindCallSubject(b.Y)
			if okx && oky && ((sx == subj && sy == arg) || (sy == subj && sx == arg)) {
				equal = true
			}
		}
		if !equal {
			return 0, false
		}
	}
	return keys, true
}
