package main

import (
	"fmt"
	"go/token"
	"go/types"
	"reflect"
	"regexp"
	"strings"

	"golang.org/x/tools/go/ssa"
)

// Rules that came with the twelfth (half) seeding round.

// holdsAddress: a type in which an address of data can sit — uintptr, unsafe.Pointer, a pointer, or a struct / array
// that has one of them.
func holdsAddress(t types.Type, depth int) bool {
	if depth > 4 {
		return false
	}
	switch u := t.Underlying().(type) {
	case *types.Basic:
		return u.Kind() == types.Uintptr || u.Kind() == types.UnsafePointer
	case *types.Pointer:
		return true
	case *types.Struct:
		for i := 0; i < u.NumFields(); i++ {
			if holdsAddress(u.Field(i).Type(), depth+1) {
				return true
			}
		}
	case *types.Array:
		return holdsAddress(u.Elem(), depth+1)
	}
	return false
}

func init() {
	register(&Rule{
		ID: "C12.R11", Props: []string{"C12", "C13"}, Min: 1,
		Doc: "a function's failure is read from the value it returned: resultError decides whether a result is an error by what the value *is* (a type assertion to error on the value's interface) — it compares no reflect.Type with a fixed type. A registered `func(string) (string, *FieldError)`, or one whose last result is an interface that embeds error, declares another type than `error`; gated on the declared type its failure is dropped: the render returns nil and writes the document with a hole where the call was",
		Run: func(p *Prog, c *Ctx) {
			fn := p.MustFn("vuego.resultError")
			asserts := 0
			bad := ""
			walkFuncTree(fn, func(f *ssa.Function) {
				eachInstr(f, func(in ssa.Instruction) {
					switch x := in.(type) {
					case *ssa.TypeAssert:
						if isErrorType(x.AssertedType) {
							asserts++
						}
					case *ssa.BinOp:
						if (x.Op == token.EQL || x.Op == token.NEQ) && (isNamed(x.X.Type(), "reflect", "Type") || isNamed(x.Y.Type(), "reflect", "Type")) {
							bad = p.instrPos(x)
						}
					}
				})
			})
			if asserts == 0 {
				undecided("resultError asserts no value to error")
			}
			c.check(bad == "", "resultError: decided on the value, not on the declared type", p.pos(fn.Pos()), fmt.Sprintf("%d assertion(s) to error, no comparison of reflect.Type values", asserts), "resultError compares the result's reflect.Type with a fixed type at "+bad+": a failure returned as a concrete error type (or through an interface that embeds error) is not read — the render succeeds and writes a document from which the failed call is missing")
		},
	})

	register(&Rule{
		ID: "C10.R15", Props: []string{"C10", "C08", "C09"}, Min: 3,
		Doc: "nothing about a caller's data outlives the call: no long-lived memo of the module (a sync.Map, a map in an engine object, a package-level map) is keyed by an address — a uintptr, an unsafe.Pointer, a pointer, or a struct that holds one. What lies at an address changes (the caller edits the struct between two renders, the allocator reuses the address): a conversion remembered under it is served for other data — the second render prints the first render's values, while a fresh engine prints the current ones",
		Run: func(p *Prog, c *Ctx) {
			n := 0
			for _, st := range p.memoStores() {
				k := st.key
				if mi, ok := k.(*ssa.MakeInterface); ok {
					k = mi.X
				}
				n++
				c.check(!holdsAddress(k.Type(), 0), fmt.Sprintf("memo#%d is keyed by a name, not by an address", n), p.instrPos(st.at), "key type "+typeShort(k.Type()), "a long-lived memo is filled under a key of type "+typeShort(k.Type())+", which holds an address of the data that was passed in: when the caller changes that data (or its address is used again) the remembered result is served for it — renders of one engine no longer depend on their input alone")
			}
			if n == 0 {
				undecided("the module fills no long-lived memo")
			}
		},
	})

	register(&Rule{
		ID: "C11.R25", Props: []string{"C11"}, Min: 1,
		Doc: "a table of fixed size is indexed inside it: every index into a package-level array with a position that is not a constant is made under a comparison that keeps the position below the array's length (`i < len(t)`, `i <= N-1`, the loop condition of a range) — or the position is a byte and the table has 256 entries. `if indent > maxCached { … }; return cache[indent]` reads one past the end for indent == maxCached: a page nested exactly that deep panics in the serialiser",
		Run: func(p *Prog, c *Ctx) {
			n := 0
			for _, fn := range p.liveFuncs() {
				if pk := funcPkg(fn); pk == nil || strings.Contains(pk.Path(), "/cmd/") {
					continue
				}
				eachInstr(fn, func(in ssa.Instruction) {
					ia, ok := in.(*ssa.IndexAddr)
					if !ok {
						return
					}
					g, ok := ia.X.(*ssa.Global)
					if !ok {
						return
					}
					pt, ok := g.Type().Underlying().(*types.Pointer)
					if !ok {
						return
					}
					arr, ok := pt.Elem().Underlying().(*types.Array)
					if !ok {
						return
					}
					if _, isC := ia.Index.(*ssa.Const); isC {
						return
					}
					n++
					N := arr.Len()
					if b, ok := ia.Index.Type().Underlying().(*types.Basic); ok && b.Kind() == types.Uint8 && N >= 256 {
						c.ok(fmt.Sprintf("%s: index#%d into %s stays inside", shortName(fn), n, g.Name()), p.instrPos(ia), "a byte indexes a table of 256")
						return
					}
					idx := ia.Index
					if cv, ok := idx.(*ssa.Convert); ok {
						idx = cv.X
					}
					below := func(cnd ssa.Value, want bool) bool {
						op, x, y, ok := relationOnEdge(cnd, want)
						if !ok {
							return false
						}
						strip := func(v ssa.Value) ssa.Value {
							if cv, ok := v.(*ssa.Convert); ok {
								return cv.X
							}
							return v
						}
						x, y = strip(x), strip(y)
						if y == idx { // k > i  ⇔  i < k
							x, y = y, x
							switch op {
							case token.GTR:
								op = token.LSS
							case token.GEQ:
								op = token.LEQ
							case token.LSS:
								op = token.GTR
							case token.LEQ:
								op = token.GEQ
							}
						}
						if x != idx {
							return false
						}
						k, isK := constInt(y)
						if !isK {
							return false
						}
						return (op == token.LSS && k <= N) || (op == token.LEQ && k <= N-1) || (op == token.EQL && k >= 0 && k < N)
					}
					inside := guardedBy(ia.Block(), below)
					if ph, isPhi := idx.(*ssa.Phi); isPhi && !inside {
						// a rotated counting loop (`for i := range len(t)`): the position is a φ whose every incoming value was
						// compared on the edge it comes in by — 0 on entry, i+1 under `i+1 < len(t)` on the back edge
						inside = true
						for k, e := range ph.Edges {
							if kc, isK := constInt(e); isK && kc >= 0 && kc < N {
								continue
							}
							pred := ph.Block().Preds[k]
							okEdge := false
							if ifi, isIf := pred.Instrs[len(pred.Instrs)-1].(*ssa.If); isIf {
								saved := idx
								idx = e
								okEdge = below(ifi.Cond, pred.Succs[0] == ph.Block())
								idx = saved
							}
							if !okEdge {
								inside = false
							}
						}
					}
					c.check(inside, fmt.Sprintf("%s: index#%d into %s stays inside", shortName(fn), n, g.Name()), p.instrPos(ia), fmt.Sprintf("under a comparison that keeps the position below %d", N), fmt.Sprintf("%s[…] is read with a position that no comparison keeps below the table's length %d on this way: the value that equals the bound reads one past the end and the render panics (index out of range)", g.Name(), N))
				})
			}
			if n == 0 {
				undecided("no package-level table is indexed with a computed position")
			}
		},
	})

	register(&Rule{
		ID: "C03.R21", Props: []string{"C03", "C13"}, Min: 1,
		Doc: "a scanner that knows backslash escapes consumes them in pairs: no scanner of the module decides whether a quote ends a string literal by looking at the byte *before* it (`s[i-1] != '\\\\'`). The byte before may itself be the second half of an escaped backslash: `'C:\\\\'` ends at its quote. A look-behind scanner never closes that literal, takes the rest of the condition for text, leaves its `===` unrewritten — the condition does not compile, falls back to a path lookup and is false: a true v-if is skipped and its v-else rendered",
		Run: func(p *Prog, c *Ctx) {
			scanners, n := 0, 0
			for _, fn := range p.liveFuncs() {
				if pk := funcPkg(fn); pk == nil || strings.Contains(pk.Path(), "/cmd/") {
					continue
				}
				isScanner := false
				var bad []ssa.Instruction
				eachInstr(fn, func(in ssa.Instruction) {
					b, ok := in.(*ssa.BinOp)
					if !ok || (b.Op != token.EQL && b.Op != token.NEQ) {
						return
					}
					for _, pair := range [][2]ssa.Value{{b.X, b.Y}, {b.Y, b.X}} {
						k, isK := constInt(pair[1])
						if !isK || k != '\\' {
							continue
						}
						isScanner = true
						// the byte that is compared: s[i] (an Index / Lookup on a string, or a load of an IndexAddr)
						var index ssa.Value
						switch x := pair[0].(type) {
						case *ssa.Lookup:
							index = x.Index
						case *ssa.Index:
							index = x.Index
						case *ssa.UnOp:
							if ia, ok := x.X.(*ssa.IndexAddr); ok && x.Op == token.MUL {
								index = ia.Index
							}
						}
						if sub, ok := index.(*ssa.BinOp); ok && sub.Op == token.SUB {
							if d, isD := constInt(sub.Y); isD && d == 1 {
								bad = append(bad, b)
							}
						}
					}
				})
				if !isScanner {
					continue
				}
				scanners++
				for _, b := range bad {
					n++
					c.fail(fmt.Sprintf("%s: escapes are consumed, not looked behind for#%d", shortName(fn), n), p.instrPos(b), shortName(fn)+" tests the byte before the current one for a backslash: an escaped backslash in front of the closing quote (`'\\\\'`) is taken for an escape of the quote, the literal never ends and the operators after it are not seen")
				}
				if len(bad) == 0 {
					c.ok(shortName(fn)+": escapes are consumed, not looked behind for", p.pos(fn.Pos()), "no s[i-1] == '\\\\' test")
				}
			}
			if scanners == 0 {
				undecided("no function of the module compares a byte with a backslash")
			}
		},
	})

	register(&Rule{
		ID: "C06.R18", Props: []string{"C06"}, Min: 1,
		Doc: "a slot is found under the name it was written with: the name evalSlot asks the slot scope for (GetSlot) is the element's static `name` attribute or the constant `default` — never the result of an evaluation. `:name` on a <slot> is a scoped prop called name, as every other bound attribute of the element: taken for a computed slot name, a component that hands its user `:name=\"u.name\"` looks for content under `Ann` and renders its fallback although content was supplied",
		Run: func(p *Prog, c *Ctx) {
			fn := p.MustFn("(*vuego.Vue).evalSlot")
			n := 0
			for _, site := range callsIn(fn) {
				if calleeName(site.Common()) != "(*vuego.SlotScope).GetSlot" {
					continue
				}
				args := callArgs(site.Common())
				if len(args) == 0 {
					continue
				}
				n++
				bad := ""
				for _, o := range p.origins(args[len(args)-1], OriginOpts{}) {
					switch x := o.(type) {
					case *ssa.Const:
					case *ssa.Call:
						k := ""
						if len(x.Call.Args) == 2 {
							k, _ = constString(x.Call.Args[1])
						}
						if calleeName(&x.Call) != "helpers.GetAttr" || k != "name" {
							bad = calleeName(&x.Call) + " at " + p.instrPos(x)
						}
					default:
						bad = o.String() + " at " + p.instrPosOf(o)
					}
				}
				c.check(bad == "", fmt.Sprintf("evalSlot: the slot name#%d is the static name attribute", n), p.instrPos(site), "GetAttr(node, \"name\") or a constant", "the name under which evalSlot looks for supplied content comes from "+bad+": a bound attribute of the <slot> decides which content is rendered — the content supplied for the slot is passed over and the fallback shown")
			}
			if n == 0 {
				undecided("evalSlot no longer asks the slot scope through GetSlot")
			}
		},
	})

	register(&Rule{
		ID: "C13.R31", Props: []string{"C13"}, Min: 1,
		Doc: "what is a call stays a call whatever its arguments say: the pattern that tells `name` / `name(args)` from an expression (the package-level regular expression the pipe parser matches segments with) accepts an argument list that contains a closing parenthesis inside a string literal — `wrap(\"(\", \")\")`, `default(\"n/a (none)\")` — and hands the whole list over as the arguments. The pattern is a constant of the source: it is compiled here and tried on these witnesses. A pattern that stops at the first `)` sends such a call to the expression evaluator, which knows no registered function: `cannot call nil`",
		Run: func(p *Prog, c *Ctx) {
			n := 0
			for _, fn := range p.FuncsAndInits() {
				pk := funcPkg(fn)
				if fn.Name() != "init" || pk == nil || pk.Path() != modPath {
					continue
				}
				for _, site := range callsIn(fn) {
					if calleeName(site.Common()) != "regexp.MustCompile" || len(site.Common().Args) != 1 {
						continue
					}
					pat, ok := constString(site.Common().Args[0])
					if !ok {
						continue
					}
					re, err := regexp.Compile(pat)
					if err != nil || re.NumSubexp() != 2 {
						continue
					}
					// the call pattern: it takes `name` and `name(a, b)` apart into a name and an argument list
					if m := re.FindStringSubmatch("upper"); m == nil || m[1] != "upper" {
						continue
					}
					if m := re.FindStringSubmatch("add(1, 2)"); m == nil || m[1] != "add" || m[2] != "1, 2" {
						continue
					}
					n++
					bad := ""
					for _, w := range [][3]string{
						{`wrap("(", ")")`, "wrap", `"(", ")"`},
						{`default("n/a (none)")`, "default", `"n/a (none)"`},
						{`suffix(name, ')')`, "suffix", `name, ')'`},
					} {
						if m := re.FindStringSubmatch(w[0]); m == nil || m[1] != w[1] || m[2] != w[2] {
							bad = w[0]
							break
						}
					}
					c.check(bad == "", fmt.Sprintf("call pattern#%d takes a `)` inside the arguments", n), p.instrPos(site), "the witnesses with a parenthesis in a string literal match with their whole argument list", "the pattern "+pat+" does not take `"+bad+"` apart into its name and its arguments: a filter or function whose string argument contains `)` is no longer recognised as a call and goes to the expression evaluator, which fails with `cannot call nil`")
				}
			}
			if n == 0 {
				undecided("no package-level pattern of the engine takes `name(args)` apart")
			}
		},
	})

	register(&Rule{
		ID: "C08.R18", Props: []string{"C08"}, Min: 1,
		Doc: "Assign stores what it is given: every way through (*template).Assign passes a Stack.Set of the key — also for nil. The root scope is one flat map over a fallback (the data given to Fill, the config); a key that Assign *removes* instead of setting lets the lookup fall through to that fallback: the later source no longer wins over the earlier one, and the read positions disagree (v-if sees nothing where {{ }} prints the Fill value)",
		Run: func(p *Prog, c *Ctx) {
			fn := p.MustFn("(*vuego.template).Assign")
			sets := map[ssa.Instruction]bool{}
			for _, site := range callsIn(fn) {
				if calleeName(site.Common()) == "(*vuego.Stack).Set" {
					sets[site] = true
				}
			}
			if len(sets) == 0 || len(fn.Blocks) == 0 {
				undecided("Assign no longer stores through Stack.Set")
			}
			bad := ""
			if first := fn.Blocks[0].Instrs[0]; !sets[first] {
				if r := pathAvoiding(first, func(x ssa.Instruction) bool { _, ok := x.(*ssa.Return); return ok }, func(x ssa.Instruction) bool { return sets[x] }); r != nil {
					bad = p.instrPos(r)
				}
			}
			c.check(bad == "", "Assign: every way stores the key", p.pos(fn.Pos()), fmt.Sprintf("%d Set call(s), on every way to a return", len(sets)), "the return at "+bad+" is reached without the key having been set: for some values Assign leaves (or removes) the entry, and what the template sees under the key is the earlier source's value")
		},
	})

	register(&Rule{
		ID: "C04.R17", Props: []string{"C04", "C17"}, Min: 1,
		Doc: "a loop hands out the elements themselves: in Stack.ForEach what the callback gets for an element of a slice, array or map is the element as it stands (Value.Index / MapIndex, then Interface) — nothing follows a pointer *element* (no Value.Elem / reflect.Indirect on what Index returned). Only the collection is dereferenced. An item of a []*T is a *T: its String() / Error() method and its pointer-receiver methods belong to the pointer; handed out as a copy of T, `{{ u }}` of a []*url.URL prints the struct's fields and `t.Label()` fails the render",
		Run: func(p *Prog, c *Ctx) {
			fn := p.MustFn("(*vuego.Stack).ForEach")
			isElemOf := func(v ssa.Value) bool {
				cl, ok := v.(*ssa.Call)
				if !ok {
					return false
				}
				switch calleeName(&cl.Call) {
				case "(reflect.Value).Index", "(reflect.Value).MapIndex":
					return true
				}
				return false
			}
			var fromElem func(v ssa.Value, d int, seen map[ssa.Value]bool) bool
			fromElem = func(v ssa.Value, d int, seen map[ssa.Value]bool) bool {
				if v == nil || seen[v] || d > 6 {
					return false
				}
				seen[v] = true
				if isElemOf(v) {
					return true
				}
				switch x := v.(type) {
				case *ssa.Phi:
					for _, e := range x.Edges {
						if fromElem(e, d+1, seen) {
							return true
						}
					}
				case *ssa.UnOp:
					if al, ok := x.X.(*ssa.Alloc); ok && x.Op == token.MUL {
						for _, st := range storesToCell(al) {
							if fromElem(st.Val, d+1, seen) {
								return true
							}
						}
					}
				case *ssa.Call:
					if nm := calleeName(&x.Call); nm == "(reflect.Value).Elem" || nm == "reflect.Indirect" {
						for _, a := range callArgs(&x.Call) {
							if fromElem(a, d+1, seen) {
								return true
							}
						}
					}
				}
				return false
			}
			elems, n := 0, 0
			walkFuncTree(fn, func(f *ssa.Function) {
				for _, site := range callsIn(f) {
					if v, ok := site.(ssa.Value); ok && isElemOf(v) {
						elems++
					}
					nm := calleeName(site.Common())
					if nm != "(reflect.Value).Elem" && nm != "reflect.Indirect" {
						continue
					}
					for _, a := range callArgs(site.Common()) {
						if fromElem(a, 0, map[ssa.Value]bool{}) {
							n++
							c.fail(fmt.Sprintf("ForEach: an element is handed out as it stands#%d", n), p.instrPos(site), "ForEach follows the pointer of an *element* (Value.Elem on what Index / MapIndex returned): the loop variable of a []*T is a copy of T — the pointer's String() / Error() and its pointer-receiver methods are gone, `{{ item }}` prints the struct's fields")
						}
					}
				}
			})
			if elems == 0 {
				undecided("ForEach reads no element through Value.Index / MapIndex")
			}
			if n == 0 {
				c.ok("ForEach: an element is handed out as it stands", p.pos(fn.Pos()), fmt.Sprintf("%d element reads, none dereferenced", elems))
			}
		},
	})
}

func init() {
	register(&Rule{
		ID: "C16.R15", Props: []string{"C16", "C05"}, Min: 1,
		Doc: "a component's nodes are evaluated once: in evalInclude the call that evaluates the *whole* list of the component's nodes (the list evalTemplate was given) lies on the way on which isTemplateRoot said no — and on no way on which it said yes. A <template> root has been evaluated by evalTemplate; evaluated again — for some roots only, the first result dropped — everything the first pass recorded stays recorded: a v-once element inside the root counts as emitted and the pass whose output is kept leaves it out: emitted zero times",
		Run: func(p *Prog, c *Ctx) {
			fn := p.MustFn("(*vuego.Vue).evalInclude")
			var nodes ssa.Value
			for _, site := range callsIn(fn) {
				if calleeName(site.Common()) == "(*vuego.Vue).evalTemplate" {
					if a := callArgs(site.Common()); len(a) >= 3 {
						nodes = a[2]
					}
				}
			}
			if nodes == nil {
				undecided("evalInclude no longer hands the component's nodes to evalTemplate")
			}
			n := 0
			for _, site := range callsIn(fn) {
				if calleeName(site.Common()) != "(*vuego.Vue).evaluate" {
					continue
				}
				a := callArgs(site.Common())
				if len(a) < 3 || a[2] != nodes {
					continue // the rest after the root: another list
				}
				n++
				// every way to the call crosses an edge on which `the first node is a <template>` failed: the helper said
				// no, or one of its conjuncts did (no node, not an element, another tag)
				onNo := everyPathCrosses(site.Block(), func(cnd ssa.Value, want bool) bool {
					if cl := isCallNamed(cnd, "vuego.isTemplateRoot"); cl != nil {
						return !want
					}
					op, x, y, ok := relationOnEdge(cnd, want)
					if !ok {
						return false
					}
					for _, pair := range [][2]ssa.Value{{x, y}, {y, x}} {
						if s, isS := constString(pair[1]); isS && s == "template" && op == token.NEQ {
							return true
						}
						if k, isK := constInt(pair[1]); isK && k == 3 && isNamed(pair[1].Type(), "golang.org/x/net/html", "NodeType") && op == token.NEQ {
							return true
						}
					}
					if cl, isCall := x.(*ssa.Call); isCall {
						if b, isB := cl.Call.Value.(*ssa.Builtin); isB && b.Name() == "len" {
							if k, isK := constInt(y); isK && ((op == token.LEQ && k == 0) || (op == token.EQL && k == 0) || (op == token.LSS && k == 1)) {
								return true
							}
						}
					}
					return false
				})
				c.check(onNo, fmt.Sprintf("evalInclude: the whole component#%d is evaluated only when evalTemplate did not", n), p.instrPos(site), "every way to it crosses `not a <template> root`", "the component's whole node list is evaluated on a way on which its <template> root has already been evaluated by evalTemplate: the root is evaluated twice and one result thrown away — what the discarded pass recorded (v-once elements as emitted) makes the kept pass leave them out")
			}
			if n == 0 {
				undecided("evalInclude no longer evaluates the component's node list as a whole")
			}
		},
	})
}

func init() {
	register(&Rule{
		ID: "C08.R19", Props: []string{"C08", "C09"}, Min: 1,
		Doc: "the lookup fallback is the struct behind the root scope, never a map: wherever Stack.rootData is set from data that was passed in, the function (or the helper whose result it stores) tests the data's kind against reflect.Map and has a way on which nil is stored. The entries of a map are copied into the root scope; the caller's map kept as the fallback is read live by Lookup (ResolveValue resolves map keys too) and not by EnvMap: a key added after Fill is printed by {{ }} and :attr and returned by Get while v-if does not see it — the read positions disagree, and the template sees data that was never given to it",
		Run: func(p *Prog, c *Ctx) {
			n := 0
			for _, fn := range p.liveFuncs() {
				eachInstr(fn, func(in ssa.Instruction) {
					st, ok := in.(*ssa.Store)
					if !ok {
						return
					}
					fa, ok := st.Addr.(*ssa.FieldAddr)
					if !ok {
						return
					}
					fv := fieldVar(fa)
					if fv == nil || !fieldIs(fv, "rootData") || !strings.HasSuffix(typeShort(fa.X.Type()), "Stack") {
						return
					}
					os := p.origins(st.Val, OriginOpts{Depth: 2})
					passed, hasNil := false, false
					for _, o := range os {
						if isNilConst(o) {
							hasNil = true
							continue
						}
						if ld, ok := o.(*ssa.UnOp); ok && ld.Op == token.MUL {
							if f2 := fieldVar(ld.X); f2 != nil && fieldIs(f2, "rootData") {
								continue // another stack's fallback, handed on
							}
						}
						passed = true
					}
					if !passed {
						return
					}
					n++
					// the kind test: in the storing function or in a module function it calls directly
					scan := []*ssa.Function{fn}
					for _, site := range callsIn(fn) {
						if callee := site.Common().StaticCallee(); callee != nil && inModule(callee) && len(callee.Blocks) > 0 {
							scan = append(scan, callee)
						}
					}
					kindTest := false
					for _, f := range scan {
						eachInstr(f, func(x ssa.Instruction) {
							b, ok := x.(*ssa.BinOp)
							if !ok || (b.Op != token.EQL && b.Op != token.NEQ) {
								return
							}
							for _, side := range []ssa.Value{b.X, b.Y} {
								if k, isK := constInt(side); isK && k == int64(reflect.Map) && isNamed(side.Type(), "reflect", "Kind") {
									kindTest = true
								}
							}
						})
					}
					c.check(hasNil && kindTest, fmt.Sprintf("%s: rootData#%d is not set to a map", shortName(fn), n), p.instrPos(st), "the data's kind is compared with reflect.Map and nil is stored on one way", "Stack.rootData is set to the data as it was passed in, a map included: Lookup falls back to the caller's live map, EnvMap does not — a key the caller adds after Fill is seen by {{ }}, :attr and Get and not by v-if")
				})
			}
			if n == 0 {
				undecided("no function sets Stack.rootData from passed data")
			}
		},
	})
}

func init() {
	register(&Rule{
		ID: "C07.R16", Props: []string{"C07"}, Min: 1,
		Doc: "a probe for a layout file asks whether the file is there, nothing else: Loader.Stat calls fs.Stat and reads no file (no loadFragment, ReadFile, Open, no front-matter parse). The callers — the default-layout probe of Render and the `next to the current file` probe of resolveLayoutPath — take `no error` for `choose this file`: a probe that loads reports a layout that exists but does not parse as absent, and the page is written bare (or wrapped by another layout) with a nil error instead of failing on the layout it names",
		Run: func(p *Prog, c *Ctx) {
			fn := p.MustFn("(*vuego.Loader).Stat")
			stat, bad := false, ""
			for _, site := range callsIn(fn) {
				nm := calleeName(site.Common())
				if nm == "io/fs.Stat" || nm == "fs.Stat" || strings.HasSuffix(nm, ".Stat") {
					stat = true
					continue
				}
				if callee := site.Common().StaticCallee(); callee != nil && inModule(callee) && len(callee.Blocks) > 0 {
					bad = nm + " at " + p.instrPos(site)
				}
				if strings.Contains(nm, "ReadFile") || strings.HasSuffix(nm, ".Open") || strings.Contains(nm, "ReadAll") {
					bad = nm + " at " + p.instrPos(site)
				}
			}
			if !stat && bad == "" {
				undecided("Loader.Stat no longer asks fs.Stat")
			}
			c.check(bad == "", "Loader.Stat: an existence probe reads nothing", p.pos(fn.Pos()), "fs.Stat only", "Loader.Stat calls "+bad+": the probe now fails for a file that exists but does not load, and its callers take that for `no such layout` — the layout the page names is skipped silently")
		},
	})

	register(&Rule{
		ID: "C04.R18", Props: []string{"C04", "C17", "C05"}, Min: 2,
		Doc: "the pool of scope maps belongs to the stack: mapPool is used by methods of *Stack only (Push takes an empty map out, Pop empties it and puts it back). Push(nil) relies on what comes out being empty; a map that another function borrows and returns with entries in it becomes the next loop iteration's scope with those entries as variables",
		Run: func(p *Prog, c *Ctx) {
			// the pool: the package-level sync.Pool that Stack.Push takes its maps from (whatever it is called)
			pools := map[*ssa.Global]bool{}
			eachInstr(p.MustFn("(*vuego.Stack).Push"), func(in ssa.Instruction) {
				for _, op := range in.Operands(nil) {
					if g, ok := (*op).(*ssa.Global); ok && isNamed(g.Type(), "sync", "Pool") {
						pools[g] = true
					}
				}
			})
			if len(pools) == 0 {
				undecided("Stack.Push takes its maps from no package-level pool")
			}
			n := 0
			for _, fn := range p.liveFuncs() {
				eachInstr(fn, func(in ssa.Instruction) {
					for _, op := range in.Operands(nil) {
						g, ok := (*op).(*ssa.Global)
						if !ok || !pools[g] {
							continue
						}
						n++
						root := rootFunc(fn)
						c.check(typeShort(recvType(root)) == "*vuego.Stack" || root.Name() == "init", fmt.Sprintf("%s: mapPool#%d is the stack's", shortName(fn), n), p.instrPos(in), "a method of *Stack", shortName(fn)+" uses the stack's pool of scope maps: what it puts back is taken for empty by the next Push(nil) — a loop iteration starts with the leftovers as variables")
					}
				})
			}
			if n == 0 {
				undecided("the pool of scope maps is used nowhere")
			}
		},
	})

	register(&Rule{
		ID: "C17.R25", Props: []string{"C17", "C08"}, Min: 1,
		Doc: "the root data answers whenever the scopes do not: in Stack.Lookup the fallback to the root data is decided by the scopes' misses and by whether there is root data — not by how much the scopes hold (no len() of a scope map in Lookup). EnvMap lists the root struct's fields unconditionally; a fallback that only runs while the root scope is empty makes `{{ Title }}` disappear as soon as anything is assigned, while EnvMap (v-if) still has it",
		Run: func(p *Prog, c *Ctx) {
			fn := p.MustFn("(*vuego.Stack).Lookup")
			fallback := false
			for _, site := range callsIn(fn) {
				if strings.HasSuffix(calleeName(site.Common()), "reflect.ResolveValue") {
					fallback = true
				}
			}
			if !fallback {
				undecided("Lookup no longer falls back to the root data through ResolveValue")
			}
			bad := ""
			for _, site := range callsIn(fn) {
				if b, ok := site.Common().Value.(*ssa.Builtin); ok && b.Name() == "len" && len(site.Common().Args) == 1 {
					if _, isMap := site.Common().Args[0].Type().Underlying().(*types.Map); isMap {
						bad = p.instrPos(site)
					}
				}
			}
			c.check(bad == "", "Lookup: the fallback does not depend on the size of a scope", p.pos(fn.Pos()), "no len(scope map)", "Lookup measures a scope map at "+bad+": whether a name is answered from the root data depends on what else has been bound — a struct field that resolved before an unrelated Set no longer does, while EnvMap still lists it")
		},
	})

	register(&Rule{
		ID: "C06.R19", Props: []string{"C06"}, Min: 1,
		Doc: "a slot is looked up under its name first: SlotScope.GetSlot reads the slot map with the name it was given, itself (the lower-cased spelling is the fallback for names the HTML parser folded). The parser folds ASCII letters only; strings.ToLower folds every letter: content stored under `#Überschrift` is not found under `überschrift`, and the slot renders its fallback although content was supplied",
		Run: func(p *Prog, c *Ctx) {
			fn := p.MustFn("(*vuego.SlotScope).GetSlot")
			var name *ssa.Parameter
			for _, prm := range fn.Params {
				if isString(prm.Type()) {
					name = prm
				}
			}
			lookups, exact := 0, 0
			eachInstr(fn, func(in ssa.Instruction) {
				if lk, ok := in.(*ssa.Lookup); ok {
					if _, isMap := lk.X.Type().Underlying().(*types.Map); isMap {
						lookups++
						if name != nil && lk.Index == ssa.Value(name) {
							exact++
						}
					}
				}
			})
			if lookups == 0 {
				undecided("GetSlot reads no map")
			}
			c.check(exact > 0, "GetSlot: the name as given is tried", p.pos(fn.Pos()), fmt.Sprintf("%d of %d lookups use the parameter itself", exact, lookups), "GetSlot looks the slot up under a derived spelling only (lower-cased): a name with a non-ASCII capital, which the HTML parser left as it was when the content was stored, is never found — the fallback is rendered although content was supplied")
		},
	})

	register(&Rule{
		ID: "C13.R32", Props: []string{"C13", "C17"}, Min: 1,
		Doc: "a path means member access in every position: Stack.Resolve hands the *whole* expression to Lookup only on the way on which it has no dot and no bracket. A data key that is spelled like a path (`user.name`) is not a variable: looked up first, it shadows user → name in {{ }}, bound attributes and pipe heads, while the expression evaluator (v-if, larger expressions) still does member access — one expression, two values",
		Run: func(p *Prog, c *Ctx) {
			fn := p.MustFn("(*vuego.Stack).Resolve")
			n := 0
			for _, site := range callsIn(fn) {
				if calleeName(site.Common()) != "(*vuego.Stack).Lookup" {
					continue
				}
				args := callArgs(site.Common())
				if len(args) == 0 {
					continue
				}
				whole := false
				for _, o := range p.origins(args[len(args)-1], OriginOpts{ThroughCall: func(cl *ssa.Call) []ssa.Value {
					if strings.HasPrefix(calleeName(&cl.Call), "strings.Trim") || calleeName(&cl.Call) == "helpers.TrimHTMLSpace" {
						return cl.Call.Args[:1]
					}
					return nil
				}}) {
					if prm, ok := o.(*ssa.Parameter); ok && prm.Parent() == fn && isString(prm.Type()) {
						whole = true
					}
				}
				if !whole {
					continue
				}
				n++
				plain := guardedBy(site.Block(), func(cnd ssa.Value, want bool) bool {
					cl := isCallNamed(cnd, "strings.ContainsAny", "strings.IndexAny", "strings.ContainsRune", "strings.IndexByte", "strings.Contains")
					if cl != nil {
						return !want
					}
					// strings.IndexAny(expr, ".[") < 0
					op, x, y, ok := relationOnEdge(cnd, want)
					if ok && isCallNamed(x, "strings.IndexAny", "strings.IndexByte", "strings.Index") != nil {
						if k, isK := constInt(y); isK && ((op == token.LSS && k == 0) || (op == token.EQL && k == -1) || (op == token.LEQ && k == -1)) {
							return true
						}
					}
					return false
				})
				c.check(plain, fmt.Sprintf("Resolve: the whole expression#%d is looked up only when it is a plain name", n), p.instrPos(site), "under `no dot, no bracket`", "Resolve looks the whole expression up as a variable name on a way on which it may contain a dot or a bracket: a key spelled like a path shadows real member access in the positions that resolve paths, and the evaluator disagrees")
			}
			if n == 0 {
				undecided("Resolve never hands its expression to Lookup")
			}
		},
	})

	register(&Rule{
		ID: "C14.R25", Props: []string{"C14"}, Min: 1,
		Doc: "a style value is cut into declarations by the scanner that knows quotes and parentheses, on every way: splitStyleDecls (and what it calls) uses no strings.Split / SplitN / FieldsFunc on `;`. A shortcut that splits plainly when the value has no parenthesis cuts `--sep:'; '` in two: the static declaration that should be kept as it stands comes out truncated whenever the style is re-parsed for a merge or v-show",
		Run: func(p *Prog, c *Ctx) {
			fn := p.MustFn("vuego.splitStyleDecls")
			bad := ""
			scans := 0
			walkFuncTree(fn, func(f *ssa.Function) {
				for _, site := range callsIn(f) {
					nm := calleeName(site.Common())
					if strings.HasPrefix(nm, "strings.Split") || nm == "strings.FieldsFunc" || nm == "strings.Cut" {
						for _, a := range site.Common().Args {
							if s, ok := constString(a); ok && strings.Contains(s, ";") {
								bad = nm + " at " + p.instrPos(site)
							}
						}
						if nm == "strings.FieldsFunc" {
							bad = nm + " at " + p.instrPos(site)
						}
					}
				}
			})
			if have := comparedChars(fn); have['\''] || have['"'] {
				scans++
			}
			if scans == 0 {
				undecided("splitStyleDecls no longer compares characters with a quote")
			}
			c.check(bad == "", "splitStyleDecls: no plain split on `;`", p.pos(fn.Pos()), "the quote-aware scan is the only way", "splitStyleDecls calls "+bad+": on that way a semicolon inside a quoted string ends the declaration — `--sep:'; '` is cut in two and the static style is changed by the merge")
		},
	})

	register(&Rule{
		ID: "C16.R16", Props: []string{"C16", "C11"}, Min: 1,
		Doc: "a component's v-once ids are made from the file that was loaded: in evalInclude the name handed to assignSeenAttrs (the prefix of every v-once id of the component) and to the include chain (WithTemplate) is the same value the loader was asked for. If the ids come from the attribute as written (`components/{{ k }}.vuego`) while the file comes from its evaluated form, every component reached through that tag shares one set of ids: distinct components suppress each other's v-once elements",
		Run: func(p *Prog, c *Ctx) {
			fn := p.MustFn("(*vuego.Vue).evalInclude")
			var loaded []ssa.Value
			for _, site := range callsIn(fn) {
				nm := calleeName(site.Common())
				if nm == "(*vuego.Loader).loadFragment" || nm == "(*vuego.Vue).loadCachedWithFrontMatter" || nm == "(*vuego.Loader).LoadFragment" {
					if a := callArgs(site.Common()); len(a) > 0 {
						loaded = append(loaded, a[len(a)-1])
					}
				}
			}
			if len(loaded) == 0 {
				undecided("evalInclude loads no file through the loader")
			}
			// the same value, or the same sources (a name kept in a variable that a closure captures is loaded anew at every use)
			same := func(v ssa.Value) bool {
				vo := map[ssa.Value]bool{}
				for _, o := range p.origins(v, OriginOpts{}) {
					vo[o] = true
				}
				for _, l := range loaded {
					if l == v {
						return true
					}
					lo := p.origins(l, OriginOpts{})
					if len(lo) != len(vo) || len(lo) == 0 {
						continue
					}
					all := true
					for _, o := range lo {
						if !vo[o] {
							all = false
						}
					}
					if all {
						return true
					}
				}
				return false
			}
			n := 0
			for _, site := range callsIn(fn) {
				nm := calleeName(site.Common())
				if nm != "vuego.assignSeenAttrs" && nm != "(vuego.VueContext).WithTemplate" {
					continue
				}
				a := callArgs(site.Common())
				var nameArg ssa.Value
				for _, x := range a {
					if isString(x.Type()) {
						nameArg = x
						break
					}
				}
				if nameArg == nil {
					continue
				}
				n++
				c.check(same(nameArg), fmt.Sprintf("evalInclude: %s#%d gets the name that was loaded", nm, n), p.instrPos(site), "the loader's argument itself", nm+" is given another name than the loader: the component's v-once ids (and its place in the include chain) are made from a spelling that several files share or that one file has twice — v-once elements of distinct components suppress each other, or one is emitted twice")
			}
			if n == 0 {
				undecided("evalInclude names the component nowhere")
			}
		},
	})

	register(&Rule{
		ID: "C19.R24", Props: []string{"C19"}, Min: 1,
		Doc: "the formatter writes the attributes the element has: renderOpenTag ranges over the node's Attr field itself — not over a list derived from it. A `tidied` list that drops repeats by Key alone loses `xlink:href` next to `href` on an SVG <use>: two attributes of different namespaces that the parser keeps apart",
		Run: func(p *Prog, c *Ctx) {
			fn := p.MustFn("(*formatter.Formatter).renderOpenTag")
			var node *ssa.Parameter
			for _, prm := range fn.Params {
				if isNamed(prm.Type(), "golang.org/x/net/html", "Node") {
					node = prm
				}
			}
			if node == nil {
				undecided("renderOpenTag has no node parameter")
			}
			// the loads of an element of a slice: whose slice?
			n, direct := 0, 0
			bad := ""
			eachInstr(fn, func(in ssa.Instruction) {
				ia, ok := in.(*ssa.IndexAddr)
				if !ok || !isNamed(ia.Type(), "golang.org/x/net/html", "Attribute") {
					return
				}
				n++
				ok2 := false
				for _, o := range p.origins(ia.X, OriginOpts{}) {
					if f := loadedField(o); f != nil && fieldIs(f, "Attr") {
						ok2 = true
					}
				}
				if ok2 {
					direct++
				} else {
					bad = p.instrPos(ia)
				}
			})
			if n == 0 {
				undecided("renderOpenTag indexes no attribute list")
			}
			c.check(bad == "", "renderOpenTag: the attributes written are the node's", p.pos(fn.Pos()), fmt.Sprintf("%d attribute reads, all from n.Attr", direct), "renderOpenTag reads attributes at "+bad+" from a list that is not the node's Attr field: what is written is a selection — an attribute the parser kept (another namespace, a repeat) is missing from the formatted output, which no longer parses to the same attributes")
		},
	})

	register(&Rule{
		ID: "C20.R20", Props: []string{"C20"}, Min: 1,
		Doc: "a destination is written the way the reference renderer writes it: wherever the Markdown package percent-encodes a destination (linkDestination) it calls util.URLEscape with reference resolution switched on (its second argument is the constant true). goldmark keeps a destination as source bytes: without the resolution `[a](/p\\_q)` gets `%5C_` and `&amp;` in a query becomes `&amp;amp;`",
		Run: func(p *Prog, c *Ctx) {
			n := 0
			for _, f := range p.liveFuncs() {
				if pk := funcPkg(f); pk == nil || pk.Path() != markdownPkg {
					continue
				}
				for _, site := range callsIn(f) {
					if !strings.HasSuffix(calleeName(site.Common()), "util.URLEscape") || len(site.Common().Args) != 2 {
						continue
					}
					n++
					k, ok := site.Common().Args[1].(*ssa.Const)
					c.check(ok && k.Value != nil && k.Value.String() == "true", fmt.Sprintf("%s: URLEscape#%d resolves references", shortName(f), n), p.instrPos(site), "resolveReference = true", "the destination is percent-encoded without resolving backslash escapes and character references first: `\\_` is written as %5C_, `&amp;` as &amp;amp; — another URL than the reference renderer's")
				}
			}
			if n == 0 {
				undecided("the Markdown package no longer percent-encodes destinations through util.URLEscape")
			}
		},
	})
}
