package main

import (
	"fmt"
	"go/token"
	"go/types"
	"strings"

	"golang.org/x/tools/go/ssa"
)

var _ = token.ADD
var _ types.Type

func init() {
	register(&Rule{
		ID: "C13.R11", Props: []string{"C13"}, Min: 1,
		Doc: "documented argument conversions come before Go's own: in the reflective caller, reflect.Value.Convert is only reached for an argument after the module's convertValue (number <-> string in decimal, string -> bool) declined it — Go's conversion turns the integer 65 into the string \"A\"",
		Run: func(p *Prog, c *Ctx) {
			fn := p.MustFn("(*vuego.Vue).callFunc")
			conv := p.MustFn("vuego.convertValue")
			var convCalls []ssa.Instruction
			for _, site := range callsIn(fn) {
				if site.Common().StaticCallee() == conv {
					convCalls = append(convCalls, site)
				}
			}
			n := 0
			for _, site := range callsIn(fn) {
				if calleeName(site.Common()) != "(reflect.Value).Convert" {
					continue
				}
				n++
				// every way to the conversion passes the `declined` edge of a convertValue call
				ok := len(convCalls) > 0 && everyPathCrosses(site.Block(), func(cnd ssa.Value, want bool) bool {
					ex, isEx := cnd.(*ssa.Extract)
					if !isEx || ex.Index != 1 || want {
						return false
					}
					cl, isCall := ex.Tuple.(*ssa.Call)
					return isCall && cl.Call.StaticCallee() == conv
				})
				c.check(ok, fmt.Sprintf("callFunc: reflect Convert#%d only after convertValue declined", n), p.instrPos(site), "convertValue(...) not ok on every path", "an argument can reach Go's own conversion without having been offered to the documented conversions first: an integer passed to a string parameter is taken for a code point (65 becomes \"A\") instead of being written in decimal")
			}
			if n == 0 {
				c.ok("callFunc: no reflect Convert", p.pos(fn.Pos()), "arguments are converted by convertValue only")
			}
		},
	})

	register(&Rule{
		ID: "C11.R10", Props: []string{"C11", "C13"}, Min: 1,
		Doc: "a registered function is called under a recover: every reflect.Value.Call / CallSlice in the module that can invoke a function from the registry sits in a function that defers a closure calling recover() — a panic in user code (an index into an empty list, a nil map write) is then an error of that function, named by the filter evaluator, instead of killing the caller",
		Run: func(p *Prog, c *Ctx) {
			n := 0
			for _, fn := range p.Funcs {
				if p.Dropped[fn] {
					continue
				}
				for _, site := range callsIn(fn) {
					name := calleeName(site.Common())
					if name != "(reflect.Value).Call" && name != "(reflect.Value).CallSlice" {
						continue
					}
					n++
					recovers := false
					walkFuncTree(rootFunc(fn), func(f *ssa.Function) {
						eachInstr(f, func(in ssa.Instruction) {
							d, ok := in.(*ssa.Defer)
							if !ok {
								return
							}
							var target *ssa.Function
							switch v := d.Call.Value.(type) {
							case *ssa.MakeClosure:
								target, _ = v.Fn.(*ssa.Function)
							case *ssa.Function:
								target = v
							}
							if target == nil {
								return
							}
							eachInstr(target, func(x ssa.Instruction) {
								if cl, ok := x.(*ssa.Call); ok {
									if b, ok := cl.Call.Value.(*ssa.Builtin); ok && b.Name() == "recover" {
										recovers = true
									}
								}
							})
						})
					})
					c.check(recovers, fmt.Sprintf("%s: %s#%d runs under a deferred recover", shortName(fn), name, n), p.instrPos(site), "defer func() { recover() … }()", "user code is called through reflect without a recover in this function: a panic inside a registered function escapes the render call (no render path recovers) and takes the process down")
				}
			}
			if n == 0 {
				undecided("no reflective call found")
			}
		},
	})

	register(&Rule{
		ID: "C17.R9", Props: []string{"C17"}, Min: 2,
		Doc: "a missing key is absent in every kind of map: in the step resolver a value read from a map by plain indexing (no comma-ok) is only returned when the map's element type is an interface — for map[string]any a missing key yields nil, which the caller reads as absent, but for map[string]string it yields \"\", which would be reported as found",
		Run: func(p *Prog, c *Ctx) {
			fn := p.MustFn("(*vuego.Stack).resolveStep")
			n := 0
			eachInstr(fn, func(in ssa.Instruction) {
				lk, ok := in.(*ssa.Lookup)
				if !ok {
					return
				}
				mt, ok := lk.X.Type().Underlying().(*types.Map)
				if !ok {
					return
				}
				n++
				_, elemIface := mt.Elem().Underlying().(*types.Interface)
				c.check(elemIface || lk.CommaOk, fmt.Sprintf("resolveStep: map index#%d tells absent from zero", n), p.instrPos(lk), "interface element (nil when missing) or comma-ok", "a "+typeShort(lk.X.Type())+" is indexed without comma-ok: a missing key yields the element type's zero value, which is not nil, so Resolve reports the path as found")
			})
			if n == 0 {
				undecided("resolveStep indexes no map")
			}
		},
	})

	register(&Rule{
		ID: "C20.R10", Props: []string{"C20"}, Min: 1,
		Doc: "an HTML block is written whole: the function that renders an *ast.HTMLBlock consults the block's ClosureLine (HasClosure) as well as its Lines — goldmark stores the line that ends a block of type 1-5 (</script>, -->, ?>, ]]>) separately, and a renderer that writes only Lines drops the end tag",
		Run: func(p *Prog, c *Ctx) {
			n := 0
			for _, fn := range p.Funcs {
				if p.Dropped[fn] {
					continue
				}
				if pk := funcPkg(fn); pk == nil || pk.Path() != markdownPkg {
					continue
				}
				var blk *ssa.Parameter
				for _, prm := range fn.Params {
					if strings.HasSuffix(typeShort(prm.Type()), "ast.HTMLBlock") {
						blk = prm
					}
				}
				if blk == nil {
					continue
				}
				lines, closure := false, false
				eachInstr(fn, func(in ssa.Instruction) {
					if site, ok := in.(ssa.CallInstruction); ok {
						nm := calleeName(site.Common())
						if strings.HasSuffix(nm, ".Lines") {
							lines = true
						}
						if strings.HasSuffix(nm, ".HasClosure") {
							closure = true
						}
					}
					if fa, ok := in.(*ssa.FieldAddr); ok && fieldName(fa.X.Type(), fa.Field) == "ClosureLine" {
						closure = true
					}
				})
				if !lines {
					continue
				}
				n++
				c.check(closure, shortName(fn)+": writes the closing line of the block", p.pos(fn.Pos()), "ClosureLine / HasClosure consulted", "the HTML block's lines are written but its ClosureLine is never looked at: `<script>\\nfoo\\n</script>` loses its end tag and swallows the rest of the page")
			}
			if n == 0 {
				undecided("no function renders the lines of an *ast.HTMLBlock")
			}
		},
	})

	register(&Rule{
		ID: "C15.R4", Props: []string{"C15", "C10"}, Min: 2,
		Doc: "a failed load leaves nothing behind: in the function that fills the template cache, every error return that follows a failed read or parse of the file is preceded by a delete of that file's cache entry — otherwise the entry of the previous revision survives the failure and is served again when the file comes back under its old modification time",
		Run: func(p *Prog, c *Ctx) {
			fn := p.MustFn("(*vuego.Vue).loadCachedWithFrontMatter")
			var deletes = map[ssa.Instruction]bool{}
			cone := p.Cone(fn)
			for _, site := range callsIn(fn) {
				// delete(v.templateCache, name) here or in a helper handed the name
				if b, ok := site.Common().Value.(*ssa.Builtin); ok && b.Name() == "delete" {
					if f := loadedField(site.Common().Args[0]); f != nil && fieldIs(f, "templateCache") {
						deletes[site] = true
					}
					continue
				}
				callee := site.Common().StaticCallee()
				if callee == nil || !inModule(callee) || !cone[callee] {
					continue
				}
				eachInstr(callee, func(in ssa.Instruction) {
					if cs, ok := in.(ssa.CallInstruction); ok {
						if b, ok := cs.Common().Value.(*ssa.Builtin); ok && b.Name() == "delete" {
							if f := loadedField(cs.Common().Args[0]); f != nil && fieldIs(f, "templateCache") {
								deletes[site] = true
							}
						}
					}
				})
			}
			n := 0
			for _, r := range returnsOf(fn) {
				if len(r.Results) == 0 || isNilConst(r.Results[len(r.Results)-1]) {
					continue
				}
				// an error that comes from the loader or the parser
				fromLoad := false
				for _, o := range p.origins(r.Results[len(r.Results)-1], OriginOpts{}) {
					if ex, ok := o.(*ssa.Extract); ok {
						if cl, ok := ex.Tuple.(*ssa.Call); ok {
							nm := calleeName(&cl.Call)
							if strings.Contains(nm, "loadFragment") || strings.Contains(nm, "ParseTemplateBytes") {
								fromLoad = true
							}
						}
					}
				}
				if !fromLoad {
					continue
				}
				n++
				c.check(len(deletes) > 0 && mustPassBefore(fn, r, deletes), fmt.Sprintf("loadCachedWithFrontMatter: failed load#%d evicts the entry", n), p.instrPos(r), "delete(templateCache, name) before the error is returned", "the error of a failed read / parse is returned with the file's previous cache entry still in place: when the file comes back with other content under the old modification time, the stale entry passes the mtime comparison and is served")
			}
			if n == 0 {
				undecided("no error return after a failed load in the cache loader")
			}
		},
	})
}

func init() {
	register(&Rule{
		ID: "C03.R9", Props: []string{"C03", "C14"}, Min: 4,
		Doc: "values of named types follow their kind: besides its type switch over the plain types, the truthiness table inspects the reflect kind of whatever reaches its default arm and applies the zero test of that kind — Int/Uint/Float compared with zero, Bool read, String compared with the empty string (or reflect.Value.IsZero for all) — so that `type Count int; Count(0)` is falsy like int(0)",
		Run: func(p *Prog, c *Ctx) {
			fn := p.MustFn("helpers.IsTruthy")
			have := map[string]bool{}
			for _, site := range callsIn(fn) {
				nm := calleeName(site.Common())
				if strings.HasPrefix(nm, "(reflect.Value).") {
					have[strings.TrimPrefix(nm, "(reflect.Value).")] = true
				}
			}
			if have["IsZero"] {
				c.ok("IsTruthy: named kinds", p.pos(fn.Pos()), "reflect.Value.IsZero decides for values outside the type switch")
				for _, k := range []string{"Int", "Uint", "Float"} {
					c.ok("IsTruthy: named "+k+" kinds", p.pos(fn.Pos()), "covered by IsZero")
				}
				return
			}
			c.check(have["Kind"], "IsTruthy: named kinds", p.pos(fn.Pos()), "the default arm dispatches on reflect.Kind", "a value whose type is not one of the plain types of the switch is truthy whatever it holds: the zero of a named numeric type (type Count int) renders `disabled=\"0\"` and passes v-if")
			for _, k := range []string{"Int", "Uint", "Float"} {
				c.check(have[k], "IsTruthy: named "+k+" kinds", p.pos(fn.Pos()), "reflect.Value."+k+"() compared with zero", "named "+strings.ToLower(k)+" types have no zero test: their zero value is truthy")
			}
		},
	})
}

func init() {
	register(&Rule{
		ID: "C02.R9", Props: []string{"C02", "C19", "C06"}, Min: 3,
		Doc: "only HTML whitespace is blank: the text of a node (html.Node.Data) that decides whether the node is dropped, trimmed or collapsed — in the serialiser, in the slot extraction and in the formatter — never goes through strings.TrimSpace, strings.Fields or unicode.IsSpace, which count U+00A0 (&nbsp;), U+2003 (&emsp;), U+3000 … as whitespace: `<b>a</b>&nbsp;<i>b</i>` would lose its separator and a cell holding only &nbsp; would come out empty. The module's own HTML-whitespace helpers (space, tab, LF, FF, CR) are used instead",
		Run: func(p *Prog, c *Ctx) {
			inScope := func(fn *ssa.Function) bool {
				pk := funcPkg(fn)
				if pk == nil {
					return false
				}
				if strings.HasSuffix(pk.Path(), "/formatter") {
					// the layout of raw text (script / style) works on whole lines of source code, not on document text
					return rootFunc(fn).Name() != "trimRawContent"
				}
				if pk.Path() != modPath {
					return false
				}
				switch rootFunc(fn).Name() {
				case "renderNodeWithContext", "renderNode", "render", "extractSlotContent", "extractSlotsFromDOM", "evaluateSlotNodes", "evaluate", "evaluateChildren":
					return true
				}
				return false
			}
			t := newTaint(p)
			t.Scope = inScope
			t.FollowField = func(*types.Var) bool { return false }
			unicodeAware := func(name string) bool {
				switch name {
				case "strings.TrimSpace", "strings.Fields", "unicode.IsSpace", "bytes.TrimSpace", "bytes.Fields":
					return true
				}
				return false
			}
			t.Sink = func(u ssa.Instruction, v ssa.Value) string {
				site, ok := u.(ssa.CallInstruction)
				if !ok {
					return ""
				}
				name := calleeName(site.Common())
				if unicodeAware(name) {
					return name + " is applied to the text of a node"
				}
				// strings.TrimFunc(s, unicode.IsSpace) and friends
				for _, a := range site.Common().Args {
					if f, ok := a.(*ssa.Function); ok && f.String() == "unicode.IsSpace" {
						return name + "(…, unicode.IsSpace) is applied to the text of a node"
					}
				}
				return ""
			}
			seeds := 0
			for _, fn := range p.Funcs {
				if p.Dropped[fn] || !inScope(fn) {
					continue
				}
				eachInstr(fn, func(in ssa.Instruction) {
					ld, ok := in.(*ssa.UnOp)
					if !ok || ld.Op != token.MUL {
						return
					}
					fa, ok := ld.X.(*ssa.FieldAddr)
					if !ok || fieldName(fa.X.Type(), fa.Field) != "Data" {
						return
					}
					if pt, ok := fa.X.Type().Underlying().(*types.Pointer); !ok || !isNamed(pt.Elem(), "golang.org/x/net/html", "Node") {
						return
					}
					seeds++
					t.Seed(ld, "text of a node read at "+p.instrPos(ld))
				})
			}
			t.Run()
			if seeds == 0 {
				undecided("no read of html.Node.Data in the serialiser / slot extraction / formatter")
			}
			c.ok("node text reads", "-", fmt.Sprintf("%d reads of html.Node.Data followed in the serialiser, the slot extraction and the formatter", seeds))
			for i, h := range t.Hits {
				c.fail(fmt.Sprintf("%s: Unicode-aware whitespace test#%d", shortName(h.At.Parent()), i+1), p.instrPos(h.At), h.What+": no-break and other Unicode spaces count as blank there, so text made of them is dropped or collapsed although it is content", h.Why)
			}
			c.check(len(t.Hits) == 0, "document text is only tested with HTML whitespace", "-", "no strings.TrimSpace / Fields / unicode.IsSpace on node text", fmt.Sprintf("%d Unicode-aware whitespace operation(s) on node text", len(t.Hits)))
			c.ok("scope", "-", "serialiser, slot extraction, formatter (raw-text line layout excepted)")
		},
	})
}

func init() {
	register(&Rule{
		ID: "C14.R10", Props: []string{"C14", "C02"}, Min: 1,
		Doc: "static attribute values pass through untrimmed: in the attribute evaluator a value cut by strings.TrimSpace out of an attribute's Val is only used as an expression (handed to evalBoundAttribute) — it is never stored as the Val of the attribute that is written out, except for the two internal carriers (constant keys). `value=\" x \"` and `title=\"  sp  \"` keep their spaces",
		Run: func(p *Prog, c *Ctx) {
			fn := p.MustFn("(*vuego.Vue).evalAttributes")
			isAttrVal := func(v ssa.Value) bool {
				switch x := v.(type) {
				case *ssa.UnOp:
					if fa, ok := x.X.(*ssa.FieldAddr); ok && x.Op == token.MUL {
						if pt, ok := fa.X.Type().Underlying().(*types.Pointer); ok && isNamed(pt.Elem(), "golang.org/x/net/html", "Attribute") {
							return fieldName(fa.X.Type(), fa.Field) == "Val"
						}
					}
				case *ssa.Field:
					return isNamed(x.X.Type(), "golang.org/x/net/html", "Attribute") && fieldNameStruct(x.X.Type(), x.Field) == "Val"
				}
				return false
			}
			n := 0
			for _, site := range callsIn(fn) {
				cl, ok := site.(*ssa.Call)
				if !ok || calleeName(&cl.Call) != "strings.TrimSpace" {
					continue
				}
				fromVal := false
				for _, o := range p.origins(cl.Call.Args[0], OriginOpts{}) {
					if isAttrVal(o) {
						fromVal = true
					}
				}
				if !fromVal {
					continue
				}
				n++
				t := newTaint(p)
				t.Scope = func(f *ssa.Function) bool { return f == fn }
				t.FollowField = func(*types.Var) bool { return false }
				t.StopCall = func(cs ssa.CallInstruction, arg ssa.Value) bool {
					callee := cs.Common().StaticCallee()
					return callee != nil && inModule(callee) // an evaluator consumes the expression text
				}
				t.Sink = func(u ssa.Instruction, v ssa.Value) string {
					st, ok := u.(*ssa.Store)
					if !ok || st.Val != v {
						return ""
					}
					fa, ok := st.Addr.(*ssa.FieldAddr)
					if !ok || fieldName(fa.X.Type(), fa.Field) != "Val" {
						return ""
					}
					if pt, ok := fa.X.Type().Underlying().(*types.Pointer); !ok || !isNamed(pt.Elem(), "golang.org/x/net/html", "Attribute") {
						return ""
					}
					// the internal carriers: constructions only reached for a constant key
					if enteredOnlyUnder(st.Block(), func(cond ssa.Value, want bool) bool {
						_, set, member, ok := inSetOnEdge(cond, want)
						return ok && member && len(set) > 0
					}) {
						return ""
					}
					return "the trimmed text is stored as the attribute's value"
				}
				t.Seed(cl, "strings.TrimSpace(attr.Val) at "+p.instrPos(cl))
				t.Run()
				key := fmt.Sprintf("evalAttributes: trimmed value#%d is only an expression", n)
				if len(t.Hits) == 0 {
					c.ok(key, p.instrPos(cl), "used as expression text (or as carrier content) only")
				}
				for _, h := range t.Hits {
					c.fail(key, p.instrPos(h.At), h.What+": a static attribute loses its leading and trailing whitespace on the way through the evaluator (`value=\" x \"` comes out as `value=\"x\"`)", h.Why)
				}
			}
			if n == 0 {
				c.ok("evalAttributes: no trimming of attribute values", p.pos(fn.Pos()), "strings.TrimSpace is not applied to attribute values")
			}
		},
	})

	register(&Rule{
		ID: "C05.R10", Props: []string{"C05", "C16"}, Min: 1,
		Doc: "every top-level node of a component file is evaluated: in the include evaluator, on each path that returns without an error, the parsed DOM of the component reaches the evaluator whole — either as the node list of one evaluate call, or as evalTemplate for its root <template> plus an evaluate call on the rest of the list. A component written as <template>…</template><style v-once>…</style> otherwise never emits its style",
		Run: func(p *Prog, c *Ctx) {
			fn := p.MustFn("(*vuego.Vue).evalInclude")
			// the parsed DOM
			var dom ssa.Value
			for _, site := range callsIn(fn) {
				if strings.Contains(calleeName(site.Common()), "ParseTemplateBytes") {
					if cl, ok := site.(*ssa.Call); ok && cl.Referrers() != nil {
						for _, r := range *cl.Referrers() {
							if ex, ok := r.(*ssa.Extract); ok && ex.Index == 0 {
								dom = ex
							}
						}
					}
				}
			}
			if dom == nil {
				undecided("evalInclude does not parse a component")
			}
			whole := map[ssa.Instruction]bool{} // evaluate(dom)
			rest := map[ssa.Instruction]bool{}  // evaluate(dom[1:])
			for _, site := range callsIn(fn) {
				if calleeName(site.Common()) != "(*vuego.Vue).evaluate" {
					continue
				}
				arg := site.Common().Args[2]
				if arg == dom || sameValue(arg, dom) {
					whole[site] = true
				}
				if sl, ok := arg.(*ssa.Slice); ok && (sl.X == dom || sameValue(sl.X, dom)) {
					if lo, ok := constInt(sl.Low); ok && lo == 1 && sl.High == nil {
						rest[site] = true
					}
				}
			}
			n := 0
			for _, r := range returnsOf(fn) {
				if len(r.Results) < 2 {
					continue
				}
				// a success: `return x, nil`, or the tail call `return v.evaluate(…)` handing on both results
				success := true
				for _, o := range p.origins(returnedValue(r, 1), OriginOpts{}) {
					if isNilConst(o) {
						continue
					}
					if ex, ok := o.(*ssa.Extract); ok {
						if cl, ok := ex.Tuple.(*ssa.Call); ok && calleeName(&cl.Call) == "(*vuego.Vue).evaluate" {
							continue
						}
					}
					success = false
				}
				if !success {
					continue
				}
				via := map[ssa.Instruction]bool{}
				for k := range whole {
					via[k] = true
				}
				for k := range rest {
					via[k] = true
				}
				if len(via) == 0 || !mustPassBefore(fn, r, via) {
					// is this an early error return (before the DOM exists)? then it is not a success
					if !canFollowValue(dom, r) {
						continue
					}
					n++
					c.fail(fmt.Sprintf("evalInclude: return#%d evaluates the whole component file", n), p.instrPos(r), "a path returns the component's result without having handed all top-level nodes of the file to the evaluator: what follows the root <template> (a <style>, a <script>) is never emitted")
					continue
				}
				n++
				c.ok(fmt.Sprintf("evalInclude: return#%d evaluates the whole component file", n), p.instrPos(r), "evaluate(dom) or evaluate(dom[1:]) on every path")
			}
			if n == 0 {
				undecided("evalInclude has no successful return after parsing")
			}
		},
	})
}

// canFollowValue: the instruction can run after the value was defined.
func canFollowValue(v ssa.Value, in ssa.Instruction) bool {
	def, ok := v.(ssa.Instruction)
	if !ok {
		return true
	}
	return canFollow(def, in)
}

// returnedValue looks through the spill of named / deferred results: when result i of the return is a
// load of a result cell, the value stored into that cell last in the same block is what is returned.
func returnedValue(r *ssa.Return, i int) ssa.Value {
	v := r.Results[i]
	ld, ok := v.(*ssa.UnOp)
	if !ok || ld.Op != token.MUL {
		return v
	}
	cell := cellOf(ld.X)
	if cell == nil {
		return v
	}
	var last ssa.Value
	for _, in := range r.Block().Instrs {
		if in == ssa.Instruction(ld) {
			break
		}
		if st, ok := in.(*ssa.Store); ok && cellOf(st.Addr) == cell {
			last = st.Val
		}
	}
	if last != nil {
		return last
	}
	return v
}

func init() {
	register(&Rule{
		ID: "C05.R11", Props: []string{"C05"}, Min: 1,
		Doc: "a bound prop is passed whatever its truthiness: in the attribute evaluator, once evalBoundAttribute has produced a value without error, that value is stored in the map of props the function returns on every path to the next attribute — the falsy edge included. `:count=\"zero\"` passes 0; skipping the store leaves the prop unset, and the component fails its :required check",
		Run: func(p *Prog, c *Ctx) {
			fn := p.MustFn("(*vuego.Vue).evalAttributes")
			// the returned map(s)
			props := map[ssa.Value]bool{}
			for _, r := range returnsOf(fn) {
				for _, o := range p.origins(returnedValue(r, 0), OriginOpts{}) {
					if mk, ok := o.(*ssa.MakeMap); ok {
						props[mk] = true
					}
				}
			}
			if len(props) == 0 {
				undecided("evalAttributes returns no locally made map")
			}
			n := 0
			for _, site := range callsIn(fn) {
				cl, ok := site.(*ssa.Call)
				if !ok || calleeName(&cl.Call) != "(*vuego.Vue).evalBoundAttribute" {
					continue
				}
				n++
				var val ssa.Value
				if cl.Referrers() != nil {
					for _, r := range *cl.Referrers() {
						if ex, ok := r.(*ssa.Extract); ok && ex.Index == 0 {
							val = ex
						}
					}
				}
				stores := map[ssa.Instruction]bool{}
				eachInstr(fn, func(in ssa.Instruction) {
					mu, ok := in.(*ssa.MapUpdate)
					if !ok {
						return
					}
					isProps := false
					for _, o := range p.origins(mu.Map, OriginOpts{}) {
						if props[o] {
							isProps = true
						}
					}
					if !isProps {
						return
					}
					for _, o := range p.origins(mu.Value, OriginOpts{}) {
						if o == val {
							stores[mu] = true
						}
					}
				})
				// from the success edge of the call to the end of this round of the attribute loop
				bad := ""
				h := loopHeaderOf(cl.Block())
				seen := map[*ssa.BasicBlock]bool{}
				var walk func(b *ssa.BasicBlock, from int)
				walk = func(b *ssa.BasicBlock, from int) {
					if bad != "" {
						return
					}
					for _, in := range b.Instrs[from:] {
						if stores[in] {
							return
						}
						if r, ok := in.(*ssa.Return); ok {
							// an error return of this very call is not a success path
							if len(r.Results) > 1 && !isNilConst(returnedValue(r, 1)) {
								return
							}
							bad = p.instrPos(r)
							return
						}
					}
					for _, s := range b.Succs {
						if s == h {
							bad = p.instrPos(b.Instrs[len(b.Instrs)-1])
							return
						}
						if s.Dominates(b) || seen[s] {
							continue
						}
						seen[s] = true
						walk(s, 0)
					}
				}
				walk(cl.Block(), instrIndex(cl)+1)
				c.check(bad == "" && len(stores) > 0, fmt.Sprintf("evalAttributes: bound value#%d becomes the prop on every path", n), p.instrPos(cl), "stored in the returned map before the next attribute", "there is a way from a successful evaluation of the bound attribute to the next attribute (at "+bad+") on which the value is not stored in the props: a falsy value (0, false, \"\") never reaches the included component, which sees the prop as unset")
			}
			if n == 0 {
				undecided("evalAttributes does not call evalBoundAttribute")
			}
		},
	})

	register(&Rule{
		ID: "C13.R12", Props: []string{"C13"}, Min: 1,
		Doc: "the argument scanner keeps what it does not separate: in parseArgs every character of the argument text is written to the current argument except the separating comma outside quotes — the quote characters in particular stay, because they are what tells resolveArgument that \"name\" is the string and not the variable of that name (a scanner that swallows them makes `default(\"10\")` the integer 10 and `default(\"\")` no argument at all)",
		Run: func(p *Prog, c *Ctx) {
			fn := p.MustFn("vuego.parseArgs")
			var loop *ssa.BasicBlock
			var writes []ssa.Instruction
			for _, site := range callsIn(fn) {
				nm := calleeName(site.Common())
				if strings.HasSuffix(nm, ".WriteRune") || strings.HasSuffix(nm, ".WriteByte") || strings.HasSuffix(nm, ".WriteString") {
					if h := loopHeaderOf(site.Block()); h != nil {
						loop = h
						writes = append(writes, site)
					}
				}
			}
			if loop == nil {
				undecided("parseArgs has no scanning loop that writes characters")
			}
			isWrite := map[ssa.Instruction]bool{}
			for _, w := range writes {
				isWrite[w] = true
			}
			// ways through one round of the loop that write nothing: each must be the separator round
			// (it appends to the result / resets the builder, under a comparison with ',')
			n, bad := 0, ""
			var walk func(b *ssa.BasicBlock, sep bool, seen map[*ssa.BasicBlock]bool)
			walk = func(b *ssa.BasicBlock, sep bool, seen map[*ssa.BasicBlock]bool) {
				for _, in := range b.Instrs {
					if isWrite[in] {
						return
					}
				}
				ifi, isIf := b.Instrs[len(b.Instrs)-1].(*ssa.If)
				for k, s := range b.Succs {
					sepHere := sep
					if isIf {
						if eq := eqOnEdge(ifi.Cond, k == 0); eq != nil {
							if v, ok := constInt(eq.Y); ok && v == ',' {
								sepHere = true
							}
						}
					}
					if s == loop {
						n++
						if !sepHere && bad == "" {
							bad = p.instrPos(b.Instrs[len(b.Instrs)-1])
						}
						continue
					}
					if s.Dominates(b) || seen[s] || !loopBlocks(loop)[s] {
						continue
					}
					seen[s] = true
					walk(s, sepHere, seen)
					delete(seen, s)
				}
			}
			body := loop
			walk(body, false, map[*ssa.BasicBlock]bool{})
			c.check(bad == "", "parseArgs: only the separator is dropped", p.pos(fn.Pos()), fmt.Sprintf("%d write-free way(s) through a round, all on the `,` branch", n), "a character other than the separating comma is consumed without being written to the argument (round ending at "+bad+"): the quotes of a quoted argument are lost before resolveArgument can see them, so \"name\" is looked up as a variable and \"10\" becomes a number")
		},
	})

	register(&Rule{
		ID: "C13.R13", Props: []string{"C13", "C04"}, Min: 1,
		Doc: "an identifier is a variable before it is a literal: in resolveArgument no lenient literal parser that accepts identifier-shaped text — strconv.ParseBool (t, f, T, F, True …) and strconv.ParseFloat (inf, infinity, nan) — is applied to an argument unless a test of its first byte (digit, sign, dot) or an exact comparison with the literal guards the call; otherwise a loop variable named t or a field named nan arrives as a boolean or a float",
		Run: func(p *Prog, c *Ctx) {
			fn := p.MustFn("(*vuego.Vue).resolveArgument")
			n := 0
			for _, site := range callsIn(fn) {
				nm := calleeName(site.Common())
				if nm != "strconv.ParseBool" && nm != "strconv.ParseFloat" {
					continue
				}
				n++
				arg := site.Common().Args[0]
				// guarded by a comparison of the argument's first byte with a constant
				guarded := false
				for _, g := range controllingIfs(site) {
					for _, leaf := range condLeaves(g.If.Cond) {
						var idx, base ssa.Value
						switch x := leaf.(type) {
						case *ssa.Lookup:
							idx, base = x.Index, x.X
						case *ssa.Index:
							idx, base = x.Index, x.X
						}
						if idx == nil {
							continue
						}
						if i, ok := constInt(idx); ok && i == 0 && (base == arg || sameValue(base, arg)) {
							guarded = true
						}
					}
				}
				c.check(guarded, fmt.Sprintf("resolveArgument: %s#%d only on number-shaped text", nm, n), p.instrPos(site), "guarded by a test of the first byte", nm+" is offered every argument before the variable lookup: it also reads identifier-shaped words ("+map[string]string{"strconv.ParseBool": "t, f, T, F, True, FALSE", "strconv.ParseFloat": "inf, infinity, nan"}[nm]+"), so a variable of such a name is replaced by a literal")
			}
			if n == 0 {
				c.ok("resolveArgument: no lenient literal parser", p.pos(fn.Pos()), "neither ParseBool nor ParseFloat is used")
			}
		},
	})
}

func init() {
	register(&Rule{
		ID: "C06.R8", Props: []string{"C06"}, Min: 1,
		Doc: "a destructuring pattern is not a variable name: in the slot evaluator the scoped props are bound as a whole (Set(name, props)) only on paths on which the declared name was tested for the `{ … }` form and is not one — `v-slot=\"{ item, index }\"` binds item and index, not a variable called \"{ item, index }\"",
		Run: func(p *Prog, c *Ctx) {
			fn := p.MustFn("(*vuego.Vue).evalSlot")
			n := 0
			for _, site := range callsIn(fn) {
				if !isStackCall(site.Common(), "Set") {
					continue
				}
				args := site.Common().Args
				// Set(<name from the v-slot attribute value>, <map>)
				if _, isMap := args[2].Type().Underlying().(*types.Map); !isMap {
					if mi, ok := args[2].(*ssa.MakeInterface); !ok {
						continue
					} else if _, isMap := mi.X.Type().Underlying().(*types.Map); !isMap {
						continue
					}
				}
				fromAttr := false
				for _, o := range p.origins(args[1], OriginOpts{}) {
					switch x := o.(type) {
					case *ssa.UnOp:
						if fa, ok := x.X.(*ssa.FieldAddr); ok && fieldName(fa.X.Type(), fa.Field) == "Val" {
							fromAttr = true
						}
					case *ssa.Field:
						if fieldNameStruct(x.X.Type(), x.Field) == "Val" {
							fromAttr = true
						}
					}
				}
				if !fromAttr {
					continue
				}
				n++
				name := args[1]
				// some controlling condition looks at the shape of the name: a module predicate over it, its
				// first byte, or a prefix test with "{"
				tested := false
				for _, g := range controllingIfs(site) {
					for _, leaf := range condLeaves(g.If.Cond) {
						var subj ssa.Value
						switch x := leaf.(type) {
						case *ssa.Call:
							for _, a := range x.Call.Args {
								if a == name || sameValue(a, name) {
									if callee := x.Call.StaticCallee(); callee != nil && (inModule(callee) || calleeName(&x.Call) == "strings.HasPrefix") {
										tested = true
									}
								}
							}
						case *ssa.Extract:
							if cl, ok := x.Tuple.(*ssa.Call); ok {
								for _, a := range cl.Call.Args {
									if (a == name || sameValue(a, name)) && cl.Call.StaticCallee() != nil && inModule(cl.Call.StaticCallee()) {
										tested = true
									}
								}
							}
						case *ssa.Lookup:
							subj = x.X
						case *ssa.Index:
							subj = x.X
						}
						if subj != nil && (subj == name || sameValue(subj, name)) {
							tested = true
						}
					}
				}
				c.check(tested, fmt.Sprintf("evalSlot: Set(scopedName, props)#%d only for a plain name", n), p.instrPos(site), "the declared name's form is tested first", "the value of v-slot is used as a variable name whatever it looks like: the destructuring form `{ item, index }` binds the props under that literal key and `{{ item }}` in the slot content stays empty")
			}
			if n == 0 {
				undecided("evalSlot never binds the scoped props under a declared name")
			}
		},
	})

	register(&Rule{
		ID: "C06.R9", Props: []string{"C06"}, Min: 1,
		Doc: "slot names meet in one letter case: slot content is registered under a name spelled in an attribute key (#name, v-slot:name), which the HTML parser lower-cases, while `<slot name=\"…\">` keeps the case it was written in — the lookup (SlotScope.GetSlot) therefore also tries the lower-cased name (ToLower / EqualFold); otherwise <slot name=\"headerTop\"> can never be filled and always shows its fallback",
		Run: func(p *Prog, c *Ctx) {
			fn := p.MustFn("(*vuego.SlotScope).GetSlot")
			folds := false
			for f := range p.Cone(fn) {
				for _, site := range callsIn(f) {
					switch calleeName(site.Common()) {
					case "strings.ToLower", "strings.EqualFold":
						folds = true
					}
				}
			}
			c.check(folds, "GetSlot: the looked-up name is case-folded", p.pos(fn.Pos()), "strings.ToLower / EqualFold on the lookup path", "a slot is looked up under the exact spelling of <slot name=\"…\"> only, but content is registered under attribute keys, which are always lower case: a slot whose name contains a capital letter is never filled")
		},
	})

	register(&Rule{
		ID: "C02.R10", Props: []string{"C02", "C16"}, Min: 3,
		Doc: "one parser for template source: html.Parse / html.ParseFragment are called only inside the template parser (internal/parser), the cached <body> helper, the formatter and the test-support diff package — every render entry point (file, fragment, string, bytes, reader) hands its source to parser.ParseTemplateBytes, which decides document vs. fragment in one place; an entry point that parses on its own as a fragment drops the doctype and the html / head / body elements of a full document",
		Run: func(p *Prog, c *Ctx) {
			allowed := func(fn *ssa.Function) bool {
				pk := funcPkg(fn)
				if pk == nil {
					return false
				}
				path := pk.Path()
				return strings.HasSuffix(path, "/internal/parser") || strings.HasSuffix(path, "/formatter") || strings.HasSuffix(path, "/diff") || (strings.HasSuffix(path, "/internal/helpers") && rootFunc(fn).Name() == "GetBodyNode")
			}
			n := 0
			for _, fn := range p.Funcs {
				if p.Dropped[fn] {
					continue
				}
				for _, site := range callsIn(fn) {
					nm := calleeName(site.Common())
					if nm != "golang.org/x/net/html.Parse" && nm != "golang.org/x/net/html.ParseFragment" && nm != "golang.org/x/net/html.ParseWithOptions" && nm != "golang.org/x/net/html.ParseFragmentWithOptions" {
						continue
					}
					n++
					c.check(allowed(fn), fmt.Sprintf("%s: %s#%d", shortName(fn), strings.TrimPrefix(nm, "golang.org/x/net/"), n), p.instrPos(site), "inside the template parser / formatter / helpers", "template source is parsed here directly instead of through parser.ParseTemplateBytes: this entry point has its own idea of what is a document and what a fragment (a full document given as a string loses its doctype, <html>, <head> and <body>)")
				}
			}
		},
	})

	register(&Rule{
		ID: "C07.R11", Props: []string{"C07"}, Min: 1,
		Doc: "a layout name means the same file with and without its extension: where resolveLayoutPath appends `.vuego` to the name for the layouts/ fallback, the name has been stripped of that extension first (TrimSuffix / CutSuffix) or is known not to carry it — `layout: main.vuego` must not be looked up as layouts/main.vuego.vuego",
		Run: func(p *Prog, c *Ctx) {
			fn := p.MustFn("(*vuego.template).resolveLayoutPath")
			name := fn.Params[1]
			n := 0
			for _, r := range returnsOf(fn) {
				v := r.Results[0]
				// "layouts/" + X + ".vuego"
				bo, ok := v.(*ssa.BinOp)
				if !ok || bo.Op != token.ADD {
					continue
				}
				if s, ok := constString(bo.Y); !ok || s != ".vuego" {
					continue
				}
				inner, ok := bo.X.(*ssa.BinOp)
				if !ok {
					continue
				}
				if s, ok := constString(inner.X); !ok || !strings.HasPrefix(s, "layouts") {
					continue
				}
				n++
				stripped := false
				for _, o := range p.origins(inner.Y, OriginOpts{}) {
					if cl, ok := o.(*ssa.Call); ok {
						switch calleeName(&cl.Call) {
						case "strings.TrimSuffix", "strings.CutSuffix":
							stripped = true
						}
					}
					if ex, ok := o.(*ssa.Extract); ok {
						if cl, ok := ex.Tuple.(*ssa.Call); ok && calleeName(&cl.Call) == "strings.CutSuffix" {
							stripped = true
						}
					}
					if o == ssa.Value(name) {
						// the raw name: fine only on paths where it is known not to end in the extension
						if enteredOnlyUnder(r.Block(), func(cond ssa.Value, want bool) bool {
							cl, ok := cond.(*ssa.Call)
							return ok && calleeName(&cl.Call) == "strings.HasSuffix" && !want && cl.Call.Args[0] == ssa.Value(name)
						}) {
							stripped = true
						}
					}
				}
				c.check(stripped, fmt.Sprintf("resolveLayoutPath: layouts/ fallback#%d adds the extension once", n), p.instrPos(r), "the name is stripped of .vuego before it is appended", "the layouts/ fallback appends .vuego to the name as written: a layout named with its extension is looked up as layouts/<name>.vuego.vuego and the render fails")
			}
			if n == 0 {
				undecided("resolveLayoutPath has no `layouts/` + name + `.vuego` return")
			}
		},
	})

	register(&Rule{
		ID: "C14.R11", Props: []string{"C14"}, Min: 1,
		Doc: "a style property without a value contributes nothing: in the style-object builder the value of a pair is formatted (fmt.Sprint) only on paths on which it was compared with nil and is not nil — `:style=\"{color: missing}\"` must not emit `color:<nil>;`",
		Run: func(p *Prog, c *Ctx) {
			fn := p.MustFn("(*vuego.Vue).buildStyleString")
			n := 0
			for _, site := range callsIn(fn) {
				nm := calleeName(site.Common())
				if nm != "fmt.Sprint" && nm != "fmt.Sprintf" {
					continue
				}
				n++
				ok := everyPathCrosses(site.Block(), func(cond ssa.Value, want bool) bool {
					b := eqOnEdge(cond, !want) // the edge on which x != y
					if b == nil {
						return false
					}
					return (isNilConst(b.X) || isNilConst(b.Y)) && !isErrorType(b.X.Type())
				})
				c.check(ok, fmt.Sprintf("buildStyleString: value#%d is formatted only when it is not nil", n), p.instrPos(site), "a nil test lies on every path", "a nil value is formatted like any other: the property is emitted as `prop:<nil>;`")
			}
			if n == 0 {
				undecided("buildStyleString formats no value")
			}
		},
	})

	register(&Rule{
		ID: "C19.R12", Props: []string{"C19"}, Min: 1,
		Doc: "what is tested is what is written: in the formatter's open-tag writer the decision to write `=\"value\"` is made on the normalised value (the result of FormatAttr) that is then written, not on the raw attribute value — otherwise class=\" \" becomes class=\"\" and, one pass later, a bare class",
		Run: func(p *Prog, c *Ctx) {
			fn := p.MustFn("(*formatter.Formatter).renderOpenTag")
			n := 0
			for _, site := range callsIn(fn) {
				cl, ok := site.(*ssa.Call)
				if !ok || !strings.HasSuffix(calleeName(&cl.Call), "helpers.FormatAttr") {
					continue
				}
				n++
				// the condition that controls the write of the value mentions the normalised value
				var write ssa.Instruction
				for _, w := range callsIn(fn) {
					if strings.HasSuffix(calleeName(w.Common()), ".WriteString") {
						for _, o := range p.origins(w.Common().Args[len(w.Common().Args)-1], OriginOpts{}) {
							if oc, ok := o.(*ssa.Call); ok {
								for _, a := range oc.Call.Args {
									if a == ssa.Value(cl) {
										write = w
									}
								}
							}
							if o == ssa.Value(cl) {
								write = w
							}
						}
					}
				}
				if write == nil {
					continue
				}
				onNormalised := false
				for _, g := range controllingIfs(write) {
					for _, leaf := range condLeaves(g.If.Cond) {
						if leaf == ssa.Value(cl) {
							onNormalised = true
						}
					}
				}
				c.check(onNormalised, fmt.Sprintf("renderOpenTag: value#%d is written when the normalised value is non-empty", n), p.instrPos(write), "the test and the write use the same string", "whether `=\"…\"` is written is decided on the raw attribute value while the normalised one is written: a value of only whitespace comes out as =\"\" now and as a bare attribute on the next pass — formatting is not idempotent")
			}
			if n == 0 {
				undecided("renderOpenTag does not normalise attribute values")
			}
		},
	})
}
