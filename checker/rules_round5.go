package main

import (
	"fmt"
	"go/constant"
	"go/token"
	"go/types"
	"strings"

	"golang.org/x/tools/go/ssa"
)

var _ = token.ADD
var _ types.Type

func init() {
	register(&Rule{
		ID: "C13.R11", Props: []string{"C13"}, Min: 1,
		Doc: "documented argument conversions come before Go's own: in the reflective caller, reflect.Value.Convert is only reached for an argument after the module's convertValue (number <-> string in decimal, string -> bool) declined it — Go's conversion turns the integer 65 into the string \"A\"",
		Run: func(p *Prog, c *Ctx) {
			fn := p.MustFn("(*vuego.Vue).callFunc")
			conv := p.MustFn("vuego.convertValue")
			var convCalls []ssa.Instruction
			for _, site := range callsIn(fn) {
				if site.Common().StaticCallee() == conv {
					convCalls = append(convCalls, site)
				}
			}
			n := 0
			for _, site := range callsIn(fn) {
				if calleeName(site.Common()) != "(reflect.Value).Convert" {
					continue
				}
				n++
				// every way to the conversion passes the `declined` edge of a convertValue call
				ok := len(convCalls) > 0 && everyPathCrosses(site.Block(), func(cnd ssa.Value, want bool) bool {
					ex, isEx := cnd.(*ssa.Extract)
					if !isEx || ex.Index != 1 || want {
						return false
					}
					cl, isCall := ex.Tuple.(*ssa.Call)
					return isCall && cl.Call.StaticCallee() == conv
				})
				c.check(ok, fmt.Sprintf("callFunc: reflect Convert#%d only after convertValue declined", n), p.instrPos(site), "convertValue(...) not ok on every path", "an argument can reach Go's own conversion without having been offered to the documented conversions first: an integer passed to a string parameter is taken for a code point (65 becomes \"A\") instead of being written in decimal")
			}
			if n == 0 {
				c.ok("callFunc: no reflect Convert", p.pos(fn.Pos()), "arguments are converted by convertValue only")
			}
		},
	})

	register(&Rule{
		ID: "C11.R10", Props: []string{"C11", "C13"}, Min: 1,
		Doc: "code that is not the engine's runs under a recover: every reflect.Value.Call / CallSlice in the module that can invoke a function from the registry, and every call of the LESS compiler's Parse / Render on the content of a <style> tag, sits in a function that defers a closure calling recover() — a panic in user code (an index into an empty list, a nil map write) is then an error of that function, named by the filter evaluator, instead of killing the caller",
		Run: func(p *Prog, c *Ctx) {
			n := 0
			for _, fn := range p.Funcs {
				if p.Dropped[fn] {
					continue
				}
				for _, site := range callsIn(fn) {
					name := calleeName(site.Common())
					// … and so does a third-party compiler that is handed template content as it stands (LESS)
					external := strings.Contains(name, "github.com/titpetric/lessgo/") && (strings.HasSuffix(name, ".Parse") || strings.HasSuffix(name, ".Render") || strings.HasSuffix(name, ".RenderWithBaseDir"))
					if name != "(reflect.Value).Call" && name != "(reflect.Value).CallSlice" && !external {
						continue
					}
					n++
					recovers := false
					// the recover has to run in the goroutine of the call: in the function itself or in a function
					// that encloses it — up to, and not beyond, a closure that is started with `go`
					var chain []*ssa.Function
					for cur := fn; cur != nil; cur = cur.Parent() {
						chain = append(chain, cur)
						if startedWithGo(cur) {
							break
						}
					}
					for _, f := range chain {
						eachInstr(f, func(in ssa.Instruction) {
							d, ok := in.(*ssa.Defer)
							if !ok {
								return
							}
							var target *ssa.Function
							switch v := d.Call.Value.(type) {
							case *ssa.MakeClosure:
								target, _ = v.Fn.(*ssa.Function)
							case *ssa.Function:
								target = v
							}
							if target == nil {
								return
							}
							eachInstr(target, func(x ssa.Instruction) {
								if cl, ok := x.(*ssa.Call); ok {
									if b, ok := cl.Call.Value.(*ssa.Builtin); ok && b.Name() == "recover" {
										recovers = true
									}
								}
							})
						})
					}
					c.check(recovers, fmt.Sprintf("%s: %s#%d runs under a deferred recover", shortName(fn), name, n), p.instrPos(site), "defer func() { recover() … }()", "user code is called through reflect without a recover in this function: a panic inside a registered function escapes the render call (no render path recovers) and takes the process down")
				}
			}
			if n == 0 {
				undecided("no reflective call found")
			}
		},
	})

	register(&Rule{
		ID: "C17.R9", Props: []string{"C17", "C01"}, Min: 2,
		Doc: "a missing key is absent in every kind of map: in the step resolver a value read from a map by plain indexing (no comma-ok) is only returned when the map's element type is an interface — for map[string]any a missing key yields nil, which the caller reads as absent, but for map[string]string it yields \"\", which would be reported as found",
		Run: func(p *Prog, c *Ctx) {
			fn := p.MustFn("(*vuego.Stack).resolveStep")
			n := 0
			eachInstr(fn, func(in ssa.Instruction) {
				lk, ok := in.(*ssa.Lookup)
				if !ok {
					return
				}
				mt, ok := lk.X.Type().Underlying().(*types.Map)
				if !ok {
					return
				}
				if readOnlyGlobalMap(lk.X) {
					return // a package-level lookup table (a set of kinds), not the data that is resolved
				}
				n++
				_, elemIface := mt.Elem().Underlying().(*types.Interface)
				c.check(elemIface || lk.CommaOk, fmt.Sprintf("resolveStep: map index#%d tells absent from zero", n), p.instrPos(lk), "interface element (nil when missing) or comma-ok", "a "+typeShort(lk.X.Type())+" is indexed without comma-ok: a missing key yields the element type's zero value, which is not nil, so Resolve reports the path as found")
			})
			if n == 0 {
				undecided("resolveStep indexes no map")
			}
		},
	})

	register(&Rule{
		ID: "C20.R10", Props: []string{"C20"}, Min: 1,
		Doc: "an HTML block is written whole: the function that renders an *ast.HTMLBlock consults the block's ClosureLine (HasClosure) as well as its Lines — goldmark stores the line that ends a block of type 1-5 (</script>, -->, ?>, ]]>) separately, and a renderer that writes only Lines drops the end tag",
		Run: func(p *Prog, c *Ctx) {
			n := 0
			for _, fn := range p.Funcs {
				if p.Dropped[fn] {
					continue
				}
				if pk := funcPkg(fn); pk == nil || pk.Path() != markdownPkg {
					continue
				}
				var blk *ssa.Parameter
				for _, prm := range fn.Params {
					if strings.HasSuffix(typeShort(prm.Type()), "ast.HTMLBlock") {
						blk = prm
					}
				}
				if blk == nil {
					continue
				}
				lines, closure := false, false
				// the function itself and the module functions it hands the block to (as the block or as an ast.Node)
				scan := []*ssa.Function{fn}
				seenFn := map[*ssa.Function]bool{fn: true}
				for i := 0; i < len(scan) && i < 8; i++ {
					eachInstr(scan[i], func(in ssa.Instruction) {
						if site, ok := in.(ssa.CallInstruction); ok {
							nm := calleeName(site.Common())
							if strings.HasSuffix(nm, ".Lines") {
								lines = true
							}
							if strings.HasSuffix(nm, ".HasClosure") {
								closure = true
							}
							if callee := site.Common().StaticCallee(); callee != nil && inModule(callee) && len(callee.Blocks) > 0 && !seenFn[callee] && scan[i] == fn {
								for _, a := range site.Common().Args {
									v := a
									if mi, ok := v.(*ssa.MakeInterface); ok {
										v = mi.X
									}
									if v == ssa.Value(blk) {
										seenFn[callee] = true
										scan = append(scan, callee)
									}
								}
							}
						}
						if fa, ok := in.(*ssa.FieldAddr); ok && fieldName(fa.X.Type(), fa.Field) == "ClosureLine" {
							closure = true
						}
					})
				}
				if !lines {
					continue
				}
				n++
				c.check(closure, shortName(fn)+": writes the closing line of the block", p.pos(fn.Pos()), "ClosureLine / HasClosure consulted", "the HTML block's lines are written but its ClosureLine is never looked at: `<script>\\nfoo\\n</script>` loses its end tag and swallows the rest of the page")
			}
			if n == 0 {
				undecided("no function renders the lines of an *ast.HTMLBlock")
			}
		},
	})

	register(&Rule{
		ID: "C15.R4", Props: []string{"C15", "C10"}, Min: 2,
		Doc: "a failed load leaves nothing behind: in the function that fills the template cache, every error return that follows a failed read or parse of the file is preceded by a delete of that file's cache entry — otherwise the entry of the previous revision survives the failure and is served again when the file comes back under its old modification time",
		Run: func(p *Prog, c *Ctx) {
			fn := p.MustFn("(*vuego.Vue).loadCachedWithFrontMatter")
			var deletes = map[ssa.Instruction]bool{}
			cone := p.Cone(fn)
			for _, site := range callsIn(fn) {
				// delete(v.templateCache, name) here or in a helper handed the name
				if b, ok := site.Common().Value.(*ssa.Builtin); ok && b.Name() == "delete" {
					if f := loadedField(site.Common().Args[0]); f != nil && fieldIs(f, "templateCache") {
						deletes[site] = true
					}
					continue
				}
				callee := site.Common().StaticCallee()
				if callee == nil || !inModule(callee) || !cone[callee] {
					continue
				}
				if evictsAlways(callee, 0) {
					deletes[site] = true
				}
			}
			n := 0
			for _, r := range returnsOf(fn) {
				if len(r.Results) == 0 || allNilConst(r.Results[len(r.Results)-1]) {
					continue
				}
				// an error that comes from the loader or the parser: one obligation per failing step
				var steps []string
				var errOrigins []ssa.Value
				for _, rv := range throughCallee(r.Results[len(r.Results)-1]) {
					errOrigins = append(errOrigins, p.origins(rv, OriginOpts{})...)
				}
				for _, o := range errOrigins {
					if ex, ok := o.(*ssa.Extract); ok {
						if cl, ok := ex.Tuple.(*ssa.Call); ok {
							nm := calleeName(&cl.Call)
							for _, step := range []string{"loadFragment", "ParseTemplateBytes"} {
								if strings.Contains(nm, step) {
									steps = append(steps, step)
								}
							}
						}
					}
				}
				for _, step := range steps {
					n++
					c.check(len(deletes) > 0 && mustPassBefore(fn, r, deletes), fmt.Sprintf("loadCachedWithFrontMatter: failed %s evicts the entry#%d", step, n), p.instrPos(r), "delete(templateCache, name) before the error is returned", "the error of a failed read / parse is returned with the file's previous cache entry still in place: when the file comes back with other content under the old modification time, the stale entry passes the mtime comparison and is served")
				}
			}
			if n == 0 {
				undecided("no error return after a failed load in the cache loader")
			}
		},
	})
}

func init() {
	register(&Rule{
		ID: "C03.R9", Props: []string{"C03", "C14"}, Min: 4,
		Doc: "values of named types follow their kind: besides its type switch over the plain types, the truthiness table inspects the reflect kind of whatever reaches its default arm and applies the zero test of that kind — Int/Uint/Float compared with zero, Bool read, String compared with the empty string (or reflect.Value.IsZero for all) — so that `type Count int; Count(0)` is falsy like int(0)",
		Run: func(p *Prog, c *Ctx) {
			fn := p.MustFn("helpers.IsTruthy")
			have := map[string]bool{}
			for _, site := range callsIn(fn) {
				nm := calleeName(site.Common())
				if strings.HasPrefix(nm, "(reflect.Value).") {
					have[strings.TrimPrefix(nm, "(reflect.Value).")] = true
				}
			}
			if have["IsZero"] {
				c.ok("IsTruthy: named kinds", p.pos(fn.Pos()), "reflect.Value.IsZero decides for values outside the type switch")
				for _, k := range []string{"Int", "Uint", "Float"} {
					c.ok("IsTruthy: named "+k+" kinds", p.pos(fn.Pos()), "covered by IsZero")
				}
				return
			}
			c.check(have["Kind"], "IsTruthy: named kinds", p.pos(fn.Pos()), "the default arm dispatches on reflect.Kind", "a value whose type is not one of the plain types of the switch is truthy whatever it holds: the zero of a named numeric type (type Count int) renders `disabled=\"0\"` and passes v-if")
			for _, k := range []string{"Int", "Uint", "Float"} {
				c.check(have[k], "IsTruthy: named "+k+" kinds", p.pos(fn.Pos()), "reflect.Value."+k+"() compared with zero", "named "+strings.ToLower(k)+" types have no zero test: their zero value is truthy")
			}
		},
	})
}

func init() {
	register(&Rule{
		ID: "C02.R9", Props: []string{"C02", "C19", "C06"}, Min: 3,
		Doc: "only HTML whitespace is blank: the text of a node (html.Node.Data) that decides whether the node is dropped, trimmed or collapsed — in the serialiser, in the slot extraction and in the formatter — never goes through strings.TrimSpace, strings.Fields or unicode.IsSpace, which count U+00A0 (&nbsp;), U+2003 (&emsp;), U+3000 … as whitespace: `<b>a</b>&nbsp;<i>b</i>` would lose its separator and a cell holding only &nbsp; would come out empty. The module's own HTML-whitespace helpers (space, tab, LF, FF, CR) are used instead",
		Run: func(p *Prog, c *Ctx) {
			inScope := func(fn *ssa.Function) bool {
				pk := funcPkg(fn)
				if pk == nil {
					return false
				}
				// (the name the function had in the pinned tree: a renamed function keeps its role)
				role := shortName(rootFunc(fn))
				role = role[strings.LastIndex(role, ".")+1:]
				if strings.HasSuffix(pk.Path(), "/formatter") {
					// the layout of raw text (script / style) works on whole lines of source code, not on document text
					return role != "trimRawContent"
				}
				if pk.Path() != modPath {
					return false
				}
				switch role {
				case "renderNodeWithContext", "renderNode", "render", "extractSlotContent", "extractSlotsFromDOM", "evaluateSlotNodes", "evaluate", "evaluateChildren":
					return true
				}
				return false
			}
			t := newTaint(p)
			t.Scope = inScope
			t.FollowField = func(*types.Var) bool { return false }
			unicodeAware := func(name string) bool {
				switch name {
				case "strings.TrimSpace", "strings.Fields", "unicode.IsSpace", "bytes.TrimSpace", "bytes.Fields":
					return true
				}
				return false
			}
			t.Sink = func(u ssa.Instruction, v ssa.Value) string {
				site, ok := u.(ssa.CallInstruction)
				if !ok {
					return ""
				}
				name := calleeName(site.Common())
				if unicodeAware(name) {
					return name + " is applied to the text of a node"
				}
				// strings.TrimFunc(s, unicode.IsSpace) and friends
				for _, a := range site.Common().Args {
					if f, ok := a.(*ssa.Function); ok && f.String() == "unicode.IsSpace" {
						return name + "(…, unicode.IsSpace) is applied to the text of a node"
					}
				}
				return ""
			}
			seeds := 0
			for _, fn := range p.Funcs {
				if p.Dropped[fn] || !inScope(fn) {
					continue
				}
				eachInstr(fn, func(in ssa.Instruction) {
					ld, ok := in.(*ssa.UnOp)
					if !ok || ld.Op != token.MUL {
						return
					}
					fa, ok := ld.X.(*ssa.FieldAddr)
					if !ok || fieldName(fa.X.Type(), fa.Field) != "Data" {
						return
					}
					if pt, ok := fa.X.Type().Underlying().(*types.Pointer); !ok || !isNamed(pt.Elem(), "golang.org/x/net/html", "Node") {
						return
					}
					seeds++
					t.Seed(ld, "text of a node read at "+p.instrPos(ld))
				})
			}
			t.Run()
			if seeds == 0 {
				undecided("no read of html.Node.Data in the serialiser / slot extraction / formatter")
			}
			c.ok("node text reads", "-", fmt.Sprintf("%d reads of html.Node.Data followed in the serialiser, the slot extraction and the formatter", seeds))
			for i, h := range t.Hits {
				c.fail(fmt.Sprintf("%s: Unicode-aware whitespace test#%d", shortName(h.At.Parent()), i+1), p.instrPos(h.At), h.What+": no-break and other Unicode spaces count as blank there, so text made of them is dropped or collapsed although it is content", h.Why)
			}
			c.check(len(t.Hits) == 0, "document text is only tested with HTML whitespace", "-", "no strings.TrimSpace / Fields / unicode.IsSpace on node text", fmt.Sprintf("%d Unicode-aware whitespace operation(s) on node text", len(t.Hits)))
			c.ok("scope", "-", "serialiser, slot extraction, formatter (raw-text line layout excepted)")
		},
	})
}

func init() {
	register(&Rule{
		ID: "C14.R10", Props: []string{"C14", "C02"}, Min: 1,
		Doc: "static attribute values pass through untrimmed: in the attribute evaluator a value cut by strings.TrimSpace out of an attribute's Val is only used as an expression (handed to evalBoundAttribute) — it is never stored as the Val of the attribute that is written out, except for the two internal carriers (constant keys). `value=\" x \"` and `title=\"  sp  \"` keep their spaces",
		Run: func(p *Prog, c *Ctx) {
			fn := p.MustFn("(*vuego.Vue).evalAttributes")
			isAttrVal := func(v ssa.Value) bool {
				switch x := v.(type) {
				case *ssa.UnOp:
					if fa, ok := x.X.(*ssa.FieldAddr); ok && x.Op == token.MUL {
						if pt, ok := fa.X.Type().Underlying().(*types.Pointer); ok && isNamed(pt.Elem(), "golang.org/x/net/html", "Attribute") {
							return fieldName(fa.X.Type(), fa.Field) == "Val"
						}
					}
				case *ssa.Field:
					return isNamed(x.X.Type(), "golang.org/x/net/html", "Attribute") && fieldNameStruct(x.X.Type(), x.Field) == "Val"
				}
				return false
			}
			n := 0
			for _, site := range callsIn(fn) {
				cl, ok := site.(*ssa.Call)
				if !ok || calleeName(&cl.Call) != "strings.TrimSpace" {
					continue
				}
				fromVal := false
				for _, o := range p.origins(cl.Call.Args[0], OriginOpts{}) {
					if isAttrVal(o) {
						fromVal = true
					}
				}
				if !fromVal {
					continue
				}
				n++
				t := newTaint(p)
				t.Scope = func(f *ssa.Function) bool { return f == fn }
				t.FollowField = func(*types.Var) bool { return false }
				t.StopCall = func(cs ssa.CallInstruction, arg ssa.Value) bool {
					callee := cs.Common().StaticCallee()
					return callee != nil && inModule(callee) // an evaluator consumes the expression text
				}
				t.Sink = func(u ssa.Instruction, v ssa.Value) string {
					st, ok := u.(*ssa.Store)
					if !ok || st.Val != v {
						return ""
					}
					fa, ok := st.Addr.(*ssa.FieldAddr)
					if !ok || fieldName(fa.X.Type(), fa.Field) != "Val" {
						return ""
					}
					if pt, ok := fa.X.Type().Underlying().(*types.Pointer); !ok || !isNamed(pt.Elem(), "golang.org/x/net/html", "Attribute") {
						return ""
					}
					// the internal carriers: constructions only reached for a constant key
					if enteredOnlyUnder(st.Block(), func(cond ssa.Value, want bool) bool {
						_, set, member, ok := inSetOnEdge(cond, want)
						return ok && member && len(set) > 0
					}) {
						return ""
					}
					return "the trimmed text is stored as the attribute's value"
				}
				t.Seed(cl, "strings.TrimSpace(attr.Val) at "+p.instrPos(cl))
				t.Run()
				key := fmt.Sprintf("evalAttributes: trimmed value#%d is only an expression", n)
				if len(t.Hits) == 0 {
					c.ok(key, p.instrPos(cl), "used as expression text (or as carrier content) only")
				}
				for _, h := range t.Hits {
					c.fail(key, p.instrPos(h.At), h.What+": a static attribute loses its leading and trailing whitespace on the way through the evaluator (`value=\" x \"` comes out as `value=\"x\"`)", h.Why)
				}
			}
			if n == 0 {
				c.ok("evalAttributes: no trimming of attribute values", p.pos(fn.Pos()), "strings.TrimSpace is not applied to attribute values")
			}
		},
	})

	register(&Rule{
		ID: "C05.R10", Props: []string{"C05", "C16"}, Min: 1,
		Doc: "every top-level node of a component file is evaluated: in the include evaluator, on each path that returns without an error, the parsed DOM of the component reaches the evaluator whole — either as the node list of one evaluate call, or as evalTemplate for its root <template> plus an evaluate call on the rest of the list. A component written as <template>…</template><style v-once>…</style> otherwise never emits its style",
		Run: func(p *Prog, c *Ctx) {
			fn := p.MustFn("(*vuego.Vue).evalInclude")
			// the parsed DOM
			var dom ssa.Value
			for _, site := range callsIn(fn) {
				if strings.Contains(calleeName(site.Common()), "ParseTemplateBytes") {
					if cl, ok := site.(*ssa.Call); ok && cl.Referrers() != nil {
						for _, r := range *cl.Referrers() {
							if ex, ok := r.(*ssa.Extract); ok && ex.Index == 0 {
								dom = ex
							}
						}
					}
				}
			}
			if dom == nil {
				undecided("evalInclude does not parse a component")
			}
			whole := map[ssa.Instruction]bool{} // evaluate(dom)
			rest := map[ssa.Instruction]bool{}  // evaluate(dom[1:])
			for _, site := range callsIn(fn) {
				if calleeName(site.Common()) != "(*vuego.Vue).evaluate" {
					continue
				}
				arg := site.Common().Args[2]
				if arg == dom || sameValue(arg, dom) {
					whole[site] = true
				}
				if sl, ok := arg.(*ssa.Slice); ok && (sl.X == dom || sameValue(sl.X, dom)) {
					if lo, ok := constInt(sl.Low); ok && lo == 1 && sl.High == nil {
						rest[site] = true
					}
				}
			}
			n := 0
			for _, r := range returnsOf(fn) {
				if len(r.Results) < 2 {
					continue
				}
				// a success: `return x, nil`, or the tail call `return v.evaluate(…)` handing on both results
				success := true
				for _, o := range p.origins(returnedValue(r, 1), OriginOpts{}) {
					if isNilConst(o) {
						continue
					}
					if ex, ok := o.(*ssa.Extract); ok {
						if cl, ok := ex.Tuple.(*ssa.Call); ok && calleeName(&cl.Call) == "(*vuego.Vue).evaluate" {
							continue
						}
					}
					success = false
				}
				if !success {
					continue
				}
				via := map[ssa.Instruction]bool{}
				for k := range whole {
					via[k] = true
				}
				for k := range rest {
					via[k] = true
				}
				if len(via) == 0 || !mustPassBefore(fn, r, via) {
					// is this an early error return (before the DOM exists)? then it is not a success
					if !canFollowValue(dom, r) {
						continue
					}
					n++
					c.fail(fmt.Sprintf("evalInclude: return#%d evaluates the whole component file", n), p.instrPos(r), "a path returns the component's result without having handed all top-level nodes of the file to the evaluator: what follows the root <template> (a <style>, a <script>) is never emitted")
					continue
				}
				n++
				c.ok(fmt.Sprintf("evalInclude: return#%d evaluates the whole component file", n), p.instrPos(r), "evaluate(dom) or evaluate(dom[1:]) on every path")
			}
			if n == 0 {
				// one merged return whose error is a φ of nil and of the errors made on the failing ways (the tail of the
				// function extracted into a helper and inlined here): decide per incoming edge of that φ
				via := map[ssa.Instruction]bool{}
				for k := range whole {
					via[k] = true
				}
				for k := range rest {
					via[k] = true
				}
				for _, r := range returnsOf(fn) {
					if len(r.Results) < 2 {
						continue
					}
					ph, ok := returnedValue(r, 1).(*ssa.Phi)
					if !ok {
						continue
					}
					for i, e := range ph.Edges {
						okEdge := isNilConst(e)
						if ex, isEx := e.(*ssa.Extract); isEx {
							if cl, isCl := ex.Tuple.(*ssa.Call); isCl && calleeName(&cl.Call) == "(*vuego.Vue).evaluate" {
								okEdge = true
							}
						}
						if !okEdge {
							continue
						}
						pred := ph.Block().Preds[i]
						last := pred.Instrs[len(pred.Instrs)-1]
						if !canFollowValue(dom, last) {
							continue
						}
						n++
						c.check(len(via) > 0 && mustPassBefore(fn, last, via), fmt.Sprintf("evalInclude: return#%d evaluates the whole component file", n), p.instrPos(last), "evaluate(dom) or evaluate(dom[1:]) on every path", "a path returns the component's result without having handed all top-level nodes of the file to the evaluator: what follows the root <template> (a <style>, a <script>) is never emitted")
					}
				}
			}
			if n == 0 {
				undecided("evalInclude has no successful return after parsing")
			}
		},
	})
}

// canFollowValue: the instruction can run after the value was defined.
func canFollowValue(v ssa.Value, in ssa.Instruction) bool {
	def, ok := v.(ssa.Instruction)
	if !ok {
		return true
	}
	return canFollow(def, in)
}

// returnedValue looks through the spill of named / deferred results: when result i of the return is a
// load of a result cell, the value stored into that cell last in the same block is what is returned.
func returnedValue(r *ssa.Return, i int) ssa.Value {
	v := r.Results[i]
	ld, ok := v.(*ssa.UnOp)
	if !ok || ld.Op != token.MUL {
		return v
	}
	cell := cellOf(ld.X)
	if cell == nil {
		return v
	}
	var last ssa.Value
	for _, in := range r.Block().Instrs {
		if in == ssa.Instruction(ld) {
			break
		}
		if st, ok := in.(*ssa.Store); ok && cellOf(st.Addr) == cell {
			last = st.Val
		}
	}
	if last != nil {
		return last
	}
	return v
}

func init() {
	register(&Rule{
		ID: "C05.R11", Props: []string{"C05"}, Min: 1,
		Doc: "a bound prop is passed whatever its truthiness: in the attribute evaluator, once evalBoundAttribute has produced a value without error, that value is stored in the map of props the function returns on every path to the next attribute — the falsy edge included. `:count=\"zero\"` passes 0; skipping the store leaves the prop unset, and the component fails its :required check",
		Run: func(p *Prog, c *Ctx) {
			fn := p.MustFn("(*vuego.Vue).evalAttributes")
			// the returned map(s)
			props := map[ssa.Value]bool{}
			for _, r := range returnsOf(fn) {
				for _, o := range p.origins(returnedValue(r, 0), OriginOpts{}) {
					if mk, ok := o.(*ssa.MakeMap); ok {
						props[mk] = true
					}
				}
			}
			if len(props) == 0 {
				undecided("evalAttributes returns no locally made map")
			}
			n := 0
			for _, site := range callsIn(fn) {
				cl, ok := site.(*ssa.Call)
				if !ok || calleeName(&cl.Call) != "(*vuego.Vue).evalBoundAttribute" {
					continue
				}
				n++
				var val ssa.Value
				if cl.Referrers() != nil {
					for _, r := range *cl.Referrers() {
						if ex, ok := r.(*ssa.Extract); ok && ex.Index == 0 {
							val = ex
						}
					}
				}
				stores := map[ssa.Instruction]bool{}
				eachInstr(fn, func(in ssa.Instruction) {
					mu, ok := in.(*ssa.MapUpdate)
					if !ok {
						return
					}
					isProps := false
					for _, o := range p.origins(mu.Map, OriginOpts{}) {
						if props[o] {
							isProps = true
						}
					}
					if !isProps {
						return
					}
					for _, o := range p.origins(mu.Value, OriginOpts{}) {
						if o == val {
							stores[mu] = true
						}
					}
				})
				// from the success edge of the call to the end of this round of the attribute loop
				bad := ""
				h := loopHeaderOf(cl.Block())
				seen := map[*ssa.BasicBlock]bool{}
				var walk func(b *ssa.BasicBlock, from int)
				walk = func(b *ssa.BasicBlock, from int) {
					if bad != "" {
						return
					}
					for _, in := range b.Instrs[from:] {
						if stores[in] {
							return
						}
						if r, ok := in.(*ssa.Return); ok {
							// an error return of this very call is not a success path
							if len(r.Results) > 1 && !isNilConst(returnedValue(r, 1)) {
								return
							}
							bad = p.instrPos(r)
							return
						}
					}
					for _, s := range b.Succs {
						if s == h {
							bad = p.instrPos(b.Instrs[len(b.Instrs)-1])
							return
						}
						if s.Dominates(b) || seen[s] {
							continue
						}
						seen[s] = true
						walk(s, 0)
					}
				}
				walk(cl.Block(), instrIndex(cl)+1)
				c.check(bad == "" && len(stores) > 0, fmt.Sprintf("evalAttributes: bound value#%d becomes the prop on every path", n), p.instrPos(cl), "stored in the returned map before the next attribute", "there is a way from a successful evaluation of the bound attribute to the next attribute (at "+bad+") on which the value is not stored in the props: a falsy value (0, false, \"\") never reaches the included component, which sees the prop as unset")
			}
			if n == 0 {
				undecided("evalAttributes does not call evalBoundAttribute")
			}
		},
	})

	register(&Rule{
		ID: "C13.R12", Props: []string{"C13"}, Min: 1,
		Doc: "the argument scanner keeps what it does not separate: in parseArgs every character of the argument text is written to the current argument except the separating comma outside quotes — the quote characters in particular stay, because they are what tells resolveArgument that \"name\" is the string and not the variable of that name (a scanner that swallows them makes `default(\"10\")` the integer 10 and `default(\"\")` no argument at all)",
		Run: func(p *Prog, c *Ctx) {
			fn := p.MustFn("vuego.parseArgs")
			var loop *ssa.BasicBlock
			var writes []ssa.Instruction
			for _, site := range callsIn(fn) {
				nm := calleeName(site.Common())
				if strings.HasSuffix(nm, ".WriteRune") || strings.HasSuffix(nm, ".WriteByte") || strings.HasSuffix(nm, ".WriteString") {
					if h := loopHeaderOf(site.Block()); h != nil {
						loop = h
						writes = append(writes, site)
					}
				}
			}
			// … or the argument is a string that grows by concatenation (current += text[i:i+1])
			eachInstr(fn, func(in ssa.Instruction) {
				if bo, ok := in.(*ssa.BinOp); ok && bo.Op == token.ADD && isString(bo.Type()) {
					if h := loopHeaderOf(bo.Block()); h != nil {
						loop = h
						writes = append(writes, bo)
					}
				}
			})
			if loop == nil {
				undecided("parseArgs has no scanning loop that writes characters")
			}
			isWrite := map[ssa.Instruction]bool{}
			for _, w := range writes {
				isWrite[w] = true
			}
			// ways through one round of the loop that write nothing: each must be the separator round
			// (it appends to the result / resets the builder, under a comparison with ',')
			n, bad := 0, ""
			var walk func(b *ssa.BasicBlock, sep bool, seen map[*ssa.BasicBlock]bool)
			walk = func(b *ssa.BasicBlock, sep bool, seen map[*ssa.BasicBlock]bool) {
				for _, in := range b.Instrs {
					if isWrite[in] {
						return
					}
				}
				ifi, isIf := b.Instrs[len(b.Instrs)-1].(*ssa.If)
				for k, s := range b.Succs {
					sepHere := sep
					if isIf {
						if eq := eqOnEdge(ifi.Cond, k == 0); eq != nil {
							if v, ok := constInt(eq.Y); ok && v == ',' {
								sepHere = true
							}
						}
					}
					if s == loop {
						n++
						if !sepHere && bad == "" {
							bad = p.instrPos(b.Instrs[len(b.Instrs)-1])
						}
						continue
					}
					if s.Dominates(b) || seen[s] || !loopBlocks(loop)[s] {
						continue
					}
					seen[s] = true
					walk(s, sepHere, seen)
					delete(seen, s)
				}
			}
			body := loop
			walk(body, false, map[*ssa.BasicBlock]bool{})
			c.check(bad == "", "parseArgs: only the separator is dropped", p.pos(fn.Pos()), fmt.Sprintf("%d write-free way(s) through a round, all on the `,` branch", n), "a character other than the separating comma is consumed without being written to the argument (round ending at "+bad+"): the quotes of a quoted argument are lost before resolveArgument can see them, so \"name\" is looked up as a variable and \"10\" becomes a number")
		},
	})

	register(&Rule{
		ID: "C13.R13", Props: []string{"C13", "C04"}, Min: 1,
		Doc: "an identifier is a variable before it is a literal: in resolveArgument no lenient literal parser that accepts identifier-shaped text — strconv.ParseBool (t, f, T, F, True …) and strconv.ParseFloat (inf, infinity, nan) — is applied to an argument unless a test of its first byte (digit, sign, dot) or an exact comparison with the literal guards the call; otherwise a loop variable named t or a field named nan arrives as a boolean or a float",
		Run: func(p *Prog, c *Ctx) {
			fn := p.MustFn("(*vuego.Vue).resolveArgument")
			n := 0
			for _, site := range callsIn(fn) {
				nm := calleeName(site.Common())
				if nm != "strconv.ParseBool" && nm != "strconv.ParseFloat" {
					continue
				}
				n++
				arg := site.Common().Args[0]
				// guarded by a test of the argument's first byte (compared with constants, looked up in a
				// constant set, handed to a classifier) or of a constant prefix
				guarded := false
				for _, g := range controllingIfs(site) {
					if looksAtFirstByte(g.If.Cond, arg, 0) && firstByteDigitTested(site, arg) {
						guarded = true
					}
				}
				c.check(guarded, fmt.Sprintf("resolveArgument: %s#%d only on number-shaped text", nm, n), p.instrPos(site), "guarded by a test of the first byte", nm+" is offered every argument before the variable lookup: it also reads identifier-shaped words ("+map[string]string{"strconv.ParseBool": "t, f, T, F, True, FALSE", "strconv.ParseFloat": "inf, infinity, nan"}[nm]+"), so a variable of such a name is replaced by a literal")
			}
			if n == 0 {
				c.ok("resolveArgument: no lenient literal parser", p.pos(fn.Pos()), "neither ParseBool nor ParseFloat is used")
			}
		},
	})
}

// looksAtFirstByte: somewhere in the expression tree of cond the first byte of s is read (s[0], s[:1],
// a range/decode of the first rune) or s is tested for a prefix — directly, as an operand of a comparison,
// or as an argument of a call (strings.IndexByte("0123456789+-.", s[0]) >= 0, unicode.IsDigit(rune(s[0]))).
func looksAtFirstByte(cond, s ssa.Value, depth int) bool {
	if cond == nil || depth > 6 {
		return false
	}
	is := func(v ssa.Value) bool { return v == s || sameValue(v, s) }
	switch x := cond.(type) {
	case *ssa.Lookup:
		if i, ok := constInt(x.Index); ok && i == 0 && is(x.X) {
			return true
		}
	case *ssa.Index:
		if i, ok := constInt(x.Index); ok && i == 0 && is(x.X) {
			return true
		}
	case *ssa.Slice:
		if is(x.X) && (x.Low == nil || func() bool { i, ok := constInt(x.Low); return ok && i == 0 }()) && x.High != nil {
			if i, ok := constInt(x.High); ok && i == 1 {
				return true
			}
		}
	case *ssa.BinOp:
		return looksAtFirstByte(x.X, s, depth+1) || looksAtFirstByte(x.Y, s, depth+1)
	case *ssa.UnOp:
		return looksAtFirstByte(x.X, s, depth+1)
	case *ssa.Convert:
		return looksAtFirstByte(x.X, s, depth+1)
	case *ssa.ChangeType:
		return looksAtFirstByte(x.X, s, depth+1)
	case *ssa.Phi:
		for _, e := range x.Edges {
			if looksAtFirstByte(e, s, depth+1) {
				return true
			}
		}
	case *ssa.Extract:
		return looksAtFirstByte(x.Tuple, s, depth+1)
	case *ssa.Call:
		nm := calleeName(&x.Call)
		if (nm == "strings.HasPrefix" || nm == "strings.CutPrefix") && len(x.Call.Args) == 2 && is(x.Call.Args[0]) {
			if _, ok := constString(x.Call.Args[1]); ok {
				return true
			}
		}
		if nm == "unicode/utf8.DecodeRuneInString" && len(x.Call.Args) == 1 && is(x.Call.Args[0]) {
			return true
		}
		for _, a := range x.Call.Args {
			if looksAtFirstByte(a, s, depth+1) {
				return true
			}
		}
	}
	return false
}

// firstByteDigitTested: on the way to the call some test of the first byte of s compares it with a digit (the
// tests of an `a || b || c` chain control the call only together; it is enough that one of them, from which
// the call can be reached, is about digits).
func firstByteDigitTested(site ssa.Instruction, s ssa.Value) bool {
	found := false
	eachInstr(site.Parent(), func(in ssa.Instruction) {
		ifi, ok := in.(*ssa.If)
		if !ok || found {
			return
		}
		if looksAtFirstByte(ifi.Cond, s, 0) && mentionsDigit(ifi.Cond, 0) && (ifi.Block() == site.Block() || blocksAfter(ifi.Block())[site.Block()]) {
			found = true
		}
	})
	return found
}

// mentionsDigit: the condition compares something with a digit character (a bound of the range '0'..'9'),
// looks something up in a constant set that contains digits, or asks unicode.IsDigit / IsNumber — what tells
// a `number-shaped` guard from a test for a quote or a bracket.
func mentionsDigit(cond ssa.Value, depth int) bool {
	if cond == nil || depth > 6 {
		return false
	}
	switch x := cond.(type) {
	case *ssa.Const:
		if k, ok := constInt(x); ok && k >= '0' && k <= '9' {
			return true
		}
		if s, ok := constString(x); ok && strings.ContainsAny(s, "0123456789") {
			return true
		}
	case *ssa.BinOp:
		return mentionsDigit(x.X, depth+1) || mentionsDigit(x.Y, depth+1)
	case *ssa.UnOp:
		return mentionsDigit(x.X, depth+1)
	case *ssa.Convert:
		return mentionsDigit(x.X, depth+1)
	case *ssa.Phi:
		for _, e := range x.Edges {
			if mentionsDigit(e, depth+1) {
				return true
			}
		}
	case *ssa.Extract:
		return mentionsDigit(x.Tuple, depth+1)
	case *ssa.Call:
		nm := calleeName(&x.Call)
		if nm == "unicode.IsDigit" || nm == "unicode.IsNumber" {
			return true
		}
		for _, a := range x.Call.Args {
			if mentionsDigit(a, depth+1) {
				return true
			}
		}
	}
	return false
}

func init() {
	register(&Rule{
		ID: "C06.R8", Props: []string{"C06"}, Min: 1,
		Doc: "a destructuring pattern is not a variable name: in the slot evaluator the scoped props are bound as a whole (Set(name, props)) only on paths on which the declared name was tested for the `{ … }` form and is not one — `v-slot=\"{ item, index }\"` binds item and index, not a variable called \"{ item, index }\"",
		Run: func(p *Prog, c *Ctx) {
			fn := p.MustFn("(*vuego.Vue).evalSlot")
			n := 0
			for _, site := range callsIn(fn) {
				if !isStackCall(site.Common(), "Set") {
					continue
				}
				args := site.Common().Args
				// Set(<name from the v-slot attribute value>, <map>)
				if _, isMap := args[2].Type().Underlying().(*types.Map); !isMap {
					if mi, ok := args[2].(*ssa.MakeInterface); !ok {
						continue
					} else if _, isMap := mi.X.Type().Underlying().(*types.Map); !isMap {
						continue
					}
				}
				fromAttr := false
				for _, o := range p.origins(args[1], OriginOpts{}) {
					switch x := o.(type) {
					case *ssa.UnOp:
						if fa, ok := x.X.(*ssa.FieldAddr); ok && fieldName(fa.X.Type(), fa.Field) == "Val" {
							fromAttr = true
						}
					case *ssa.Field:
						if fieldNameStruct(x.X.Type(), x.Field) == "Val" {
							fromAttr = true
						}
					}
				}
				if !fromAttr {
					continue
				}
				n++
				name := args[1]
				// some controlling condition looks at the shape of the name: a module predicate over it, its
				// first byte, or a prefix test with "{"
				tested := false
				for _, g := range controllingIfs(site) {
					for _, leaf := range condLeaves(g.If.Cond) {
						var subj ssa.Value
						switch x := leaf.(type) {
						case *ssa.Call:
							for _, a := range x.Call.Args {
								if a == name || sameValue(a, name) {
									if callee := x.Call.StaticCallee(); callee != nil && (inModule(callee) || calleeName(&x.Call) == "strings.HasPrefix") {
										tested = true
									}
								}
							}
						case *ssa.Extract:
							if cl, ok := x.Tuple.(*ssa.Call); ok {
								for _, a := range cl.Call.Args {
									if (a == name || sameValue(a, name)) && cl.Call.StaticCallee() != nil && inModule(cl.Call.StaticCallee()) {
										tested = true
									}
								}
							}
						case *ssa.Lookup:
							subj = x.X
						case *ssa.Index:
							subj = x.X
						}
						if subj != nil && (subj == name || sameValue(subj, name)) {
							tested = true
						}
					}
				}
				c.check(tested, fmt.Sprintf("evalSlot: Set(scopedName, props)#%d only for a plain name", n), p.instrPos(site), "the declared name's form is tested first", "the value of v-slot is used as a variable name whatever it looks like: the destructuring form `{ item, index }` binds the props under that literal key and `{{ item }}` in the slot content stays empty")
			}
			if n == 0 {
				undecided("evalSlot never binds the scoped props under a declared name")
			}
		},
	})

	register(&Rule{
		ID: "C06.R9", Props: []string{"C06"}, Min: 1,
		Doc: "slot names meet in one letter case: slot content is registered under a name spelled in an attribute key (#name, v-slot:name), which the HTML parser lower-cases, while `<slot name=\"…\">` keeps the case it was written in — the lookup (SlotScope.GetSlot) therefore also tries the lower-cased name (ToLower / EqualFold); otherwise <slot name=\"headerTop\"> can never be filled and always shows its fallback",
		Run: func(p *Prog, c *Ctx) {
			fn := p.MustFn("(*vuego.SlotScope).GetSlot")
			folds := false
			for f := range p.Cone(fn) {
				for _, site := range callsIn(f) {
					switch calleeName(site.Common()) {
					case "strings.ToLower", "strings.EqualFold":
						folds = true
					}
				}
			}
			c.check(folds, "GetSlot: the looked-up name is case-folded", p.pos(fn.Pos()), "strings.ToLower / EqualFold on the lookup path", "a slot is looked up under the exact spelling of <slot name=\"…\"> only, but content is registered under attribute keys, which are always lower case: a slot whose name contains a capital letter is never filled")
		},
	})

	register(&Rule{
		ID: "C02.R10", Props: []string{"C02", "C16"}, Min: 3,
		Doc: "one parser for template source: html.Parse / html.ParseFragment are called only inside the template parser (internal/parser), the cached <body> helper, the formatter and the test-support diff package — every render entry point (file, fragment, string, bytes, reader) hands its source to parser.ParseTemplateBytes, which decides document vs. fragment in one place; an entry point that parses on its own as a fragment drops the doctype and the html / head / body elements of a full document",
		Run: func(p *Prog, c *Ctx) {
			allowed := func(fn *ssa.Function) bool {
				pk := funcPkg(fn)
				if pk == nil {
					return false
				}
				path := pk.Path()
				return strings.HasSuffix(path, "/internal/parser") || strings.HasSuffix(path, "/formatter") || strings.HasSuffix(path, "/diff") || (strings.HasSuffix(path, "/internal/helpers") && (rootFunc(fn).Name() == "GetBodyNode" || parsesConstant(p, fn)))
			}
			n := 0
			for _, fn := range p.Funcs {
				if p.Dropped[fn] {
					continue
				}
				for _, site := range callsIn(fn) {
					nm := calleeName(site.Common())
					if nm != "golang.org/x/net/html.Parse" && nm != "golang.org/x/net/html.ParseFragment" && nm != "golang.org/x/net/html.ParseWithOptions" && nm != "golang.org/x/net/html.ParseFragmentWithOptions" {
						continue
					}
					n++
					c.check(allowed(fn), fmt.Sprintf("%s: %s#%d", shortName(fn), strings.TrimPrefix(nm, "golang.org/x/net/"), n), p.instrPos(site), "inside the template parser / formatter / helpers", "template source is parsed here directly instead of through parser.ParseTemplateBytes: this entry point has its own idea of what is a document and what a fragment (a full document given as a string loses its doctype, <html>, <head> and <body>)")
				}
			}
		},
	})

	register(&Rule{
		ID: "C07.R11", Props: []string{"C07"}, Min: 1,
		Doc: "a layout name means the same file with and without its extension: where resolveLayoutPath appends `.vuego` to the name for the layouts/ fallback, the name has been stripped of that extension first (TrimSuffix / CutSuffix) or is known not to carry it — `layout: main.vuego` must not be looked up as layouts/main.vuego.vuego",
		Run: func(p *Prog, c *Ctx) {
			fn := p.MustFn("(*vuego.template).resolveLayoutPath")
			name := paramOf(fn, "layout", 1, 3)
			n := 0
			for _, r := range returnsOf(fn) {
				v := r.Results[0]
				// "layouts/" + X + ".vuego" (a chain of +, or the same pieces written into a strings.Builder)
				parts := concatParts(v)
				if len(parts) != 3 {
					continue
				}
				if s, ok := constString(parts[2]); !ok || s != ".vuego" {
					continue
				}
				if s, ok := constString(parts[0]); !ok || !strings.HasPrefix(s, "layouts") {
					continue
				}
				middle := parts[1]
				n++
				stripped := false
				for _, o := range p.origins(middle, OriginOpts{}) {
					if cl, ok := o.(*ssa.Call); ok {
						switch calleeName(&cl.Call) {
						case "strings.TrimSuffix", "strings.CutSuffix":
							stripped = true
						}
					}
					if ex, ok := o.(*ssa.Extract); ok {
						if cl, ok := ex.Tuple.(*ssa.Call); ok && calleeName(&cl.Call) == "strings.CutSuffix" {
							stripped = true
						}
					}
					if o == ssa.Value(name) {
						// the raw name: fine only on paths where it is known not to end in the extension
						if enteredOnlyUnder(r.Block(), func(cond ssa.Value, want bool) bool {
							cl, ok := cond.(*ssa.Call)
							return ok && calleeName(&cl.Call) == "strings.HasSuffix" && !want && cl.Call.Args[0] == ssa.Value(name)
						}) {
							stripped = true
						}
					}
				}
				c.check(stripped, fmt.Sprintf("resolveLayoutPath: layouts/ fallback#%d adds the extension once", n), p.instrPos(r), "the name is stripped of .vuego before it is appended", "the layouts/ fallback appends .vuego to the name as written: a layout named with its extension is looked up as layouts/<name>.vuego.vuego and the render fails")
			}
			if n == 0 {
				undecided("resolveLayoutPath has no `layouts/` + name + `.vuego` return")
			}
		},
	})

	register(&Rule{
		ID: "C14.R11", Props: []string{"C14"}, Min: 1,
		Doc: "a style property without a value contributes nothing: in the style-object builder the value of a pair is formatted (fmt.Sprint) only on paths on which it was compared with nil and is not nil — `:style=\"{color: missing}\"` must not emit `color:<nil>;`",
		Run: func(p *Prog, c *Ctx) {
			fn := p.MustFn("(*vuego.Vue).buildStyleString")
			n := 0
			for _, site := range callsIn(fn) {
				nm := calleeName(site.Common())
				if nm != "fmt.Sprint" && nm != "fmt.Sprintf" {
					continue
				}
				n++
				ok := everyPathCrosses(site.Block(), func(cond ssa.Value, want bool) bool {
					b := eqOnEdge(cond, !want) // the edge on which x != y
					if b == nil {
						return false
					}
					return (isNilConst(b.X) || isNilConst(b.Y)) && !isErrorType(b.X.Type())
				})
				c.check(ok, fmt.Sprintf("buildStyleString: value#%d is formatted only when it is not nil", n), p.instrPos(site), "a nil test lies on every path", "a nil value is formatted like any other: the property is emitted as `prop:<nil>;`")
			}
			if n == 0 {
				undecided("buildStyleString formats no value")
			}
		},
	})

	register(&Rule{
		ID: "C19.R12", Props: []string{"C19"}, Min: 1,
		Doc: "what is tested is what is written: in the formatter's open-tag writer the decision to write `=\"value\"` is made on the normalised value (the result of FormatAttr) that is then written, not on the raw attribute value — otherwise class=\" \" becomes class=\"\" and, one pass later, a bare class",
		Run: func(p *Prog, c *Ctx) {
			fn := p.MustFn("(*formatter.Formatter).renderOpenTag")
			n := 0
			for _, site := range callsIn(fn) {
				cl, ok := site.(*ssa.Call)
				if !ok || !strings.HasSuffix(calleeName(&cl.Call), "helpers.FormatAttr") {
					continue
				}
				n++
				// the condition that controls the use of the normalised value for output mentions that value
				var write ssa.Instruction
				if cl.Referrers() != nil {
					for _, r := range *cl.Referrers() {
						u, ok := r.(ssa.CallInstruction)
						if !ok {
							continue
						}
						if bi, ok := u.Common().Value.(*ssa.Builtin); ok && bi.Name() == "len" {
							continue
						}
						// a predicate over the value is part of the decision, not of the output
						if res := u.Common().Signature().Results(); res.Len() == 1 {
							if bt, ok := res.At(0).Type().Underlying().(*types.Basic); ok && bt.Kind() == types.Bool {
								continue
							}
						}
						if write == nil || instrIndex(u) < instrIndex(write) && u.Block() == write.Block() || u.Block().Dominates(write.Block()) && u.Block() != write.Block() {
							write = u
						}
					}
				}
				if write == nil {
					continue
				}
				onNormalised := false
				foreign := ""
				for _, g := range controllingIfs(write) {
					mentions := false
					var others []string
					for _, leaf := range condLeaves(g.If.Cond) {
						if leaf == ssa.Value(cl) {
							mentions = true
							continue
						}
						if lc, ok := leaf.(*ssa.Call); ok {
							if bi, ok := lc.Call.Value.(*ssa.Builtin); ok && bi.Name() == "len" && lc.Call.Args[0] == ssa.Value(cl) {
								mentions = true
								continue
							}
							// a call that is given the normalised value together with something else of the attribute
							uses := false
							for _, a := range lc.Call.Args {
								if a == ssa.Value(cl) {
									uses = true
								}
							}
							if uses && len(lc.Call.Args) > 1 {
								mentions = true
								others = append(others, calleeName(&lc.Call))
								continue
							}
						}
						if _, isK := leaf.(*ssa.Const); !isK {
							others = append(others, describeValue(leaf))
						}
					}
					if mentions {
						onNormalised = true
						if len(others) > 0 {
							foreign = strings.Join(others, ", ")
						}
					}
				}
				if onNormalised && foreign != "" {
					c.fail(fmt.Sprintf("renderOpenTag: value#%d is written whenever the normalised value is non-empty", n), p.instrPos(write), "whether `=\"…\"` is written depends on more than the value being non-empty ("+foreign+"): a non-empty value that meets the extra condition (name=\"name\", value=\"Value\") is written as a bare attribute and read back as the empty string")
					continue
				}
				c.check(onNormalised, fmt.Sprintf("renderOpenTag: value#%d is written when the normalised value is non-empty", n), p.instrPos(write), "the test and the write use the same string", "whether `=\"…\"` is written is decided on the raw attribute value while the normalised one is written: a value of only whitespace comes out as =\"\" now and as a bare attribute on the next pass — formatting is not idempotent")
			}
			if n == 0 {
				undecided("renderOpenTag does not normalise attribute values")
			}
		},
	})
}

func init() {
	register(&Rule{
		ID: "C13.R14", Props: []string{"C13"}, Min: 3,
		Doc: "what is taken for a variable path has the shape of one: the predicate that lets a value position skip the evaluators (IsVariablePath) demands a name character at the first position (so 5, -n, 'text' and (a) go to the evaluator), accepts a quote only inside brackets (so 'hello' is a literal, data[\"k\"] a path), and checks what a bracket holds (so items[0] is a path and items[idx] an expression). Each of the three is a test in the predicate's scan; without it the corresponding expressions silently render as nothing while v-if evaluates them",
		Run: func(p *Prog, c *Ctx) {
			fn := p.MustFn("helpers.IsVariablePath")
			firstStrict, quoteDepth, indexChecked := false, false, false
			for _, site := range callsIn(fn) {
				nm := calleeName(site.Common())
				if nm == "helpers.IsIdentifierChar" && len(site.Common().Args) == 2 {
					if k, ok := site.Common().Args[1].(*ssa.Const); ok && k.Value != nil && k.Value.String() == "true" {
						firstStrict = true
					}
				}
				if callee := site.Common().StaticCallee(); callee != nil && inModule(callee) && nm != "helpers.IsIdentifierChar" {
					// a module predicate over a slice of the expression: the bracket's content
					for _, a := range site.Common().Args {
						if _, ok := a.(*ssa.Slice); ok {
							indexChecked = true
						}
					}
				}
			}
			// the quote test and a test of an integer counter (the bracket depth) decide together: one of them is
			// only evaluated on the other's true edge (a && b), in either order
			isQuoteTest := func(cond ssa.Value, want bool) bool {
				bo, ok := cond.(*ssa.BinOp)
				if !ok || bo.Op != token.EQL || !want {
					return false
				}
				k, isK := constInt(bo.Y)
				return isK && (k == '"' || k == '\'')
			}
			isDepthTest := func(cond ssa.Value, want bool) bool {
				bo, ok := cond.(*ssa.BinOp)
				if !ok {
					return false
				}
				switch bo.Op {
				case token.GTR, token.GEQ, token.NEQ, token.LSS, token.LEQ, token.EQL:
				default:
					return false
				}
				_, isPhi := bo.X.(*ssa.Phi)
				_, isInt := bo.X.Type().Underlying().(*types.Basic)
				m, isK := constInt(bo.Y)
				return isPhi && isInt && isK && m >= 0 && m <= 1 && bo.X.Type().Underlying().(*types.Basic).Kind() == types.Int
			}
			for _, blk := range fn.Blocks {
				ifi, ok := blk.Instrs[len(blk.Instrs)-1].(*ssa.If)
				if !ok {
					continue
				}
				cnd, _ := stripNot(ifi.Cond)
				if isDepthTest(cnd, true) && enteredOnlyUnder(blk, isQuoteTest) {
					quoteDepth = true
				}
				if isQuoteTest(cnd, true) && enteredOnlyUnder(blk, isDepthTest) {
					quoteDepth = true
				}
			}
			// the same decision computed into a local first (`quotedKey := (ch == '"' || ch == '\'') && depth > 0`): the
			// depth is compared in a block that is entered from the quote test only, and the comparison is used
			eachInstr(fn, func(in ssa.Instruction) {
				if bo, ok := in.(*ssa.BinOp); ok && isDepthTest(bo, true) && bo.Referrers() != nil && len(*bo.Referrers()) > 0 && enteredOnlyUnder(bo.Block(), isQuoteTest) {
					quoteDepth = true
				}
			})
			c.check(firstStrict, "IsVariablePath: a path starts with a name", p.pos(fn.Pos()), "IsIdentifierChar(first, true)", "the first character is not required to start a name: `5`, `-n`, `(a)` count as variable paths, are looked up as variables and render as nothing")
			c.check(quoteDepth, "IsVariablePath: quotes only inside brackets", p.pos(fn.Pos()), "the quote branch depends on the bracket depth", "a quote is accepted anywhere in a path: the string literal 'hello' counts as a variable path and renders as nothing in {{ }} while v-if sees a truthy string")
			c.check(indexChecked, "IsVariablePath: bracket content is a number or a quoted key", p.pos(fn.Pos()), "the text between brackets is checked", "whatever stands between brackets counts as part of a path: `items[idx]` is looked up with the literal key idx and renders as nothing while v-if evaluates the index")
		},
	})

	register(&Rule{
		ID: "C13.R15", Props: []string{"C13"}, Min: 2,
		Doc: "a function name is an identifier: wherever the pipe parser turns a match of the call pattern into a function segment (parsePipeExpr for a whole expression, classifySegment for a pipe segment), the matched name has passed helpers.IsIdentifier — the pattern's \\w+ also matches numbers, and `{{ 5 }}` must not fail with \"function '5' not found\"",
		Run: func(p *Prog, c *Ctx) {
			n := 0
			for _, name := range []string{"vuego.parsePipeExpr", "vuego.classifySegment"} {
				fn := p.MustFn(name)
				// stores of the constant segmentFilter into a segment's kind field
				eachInstr(fn, func(in ssa.Instruction) {
					st, ok := in.(*ssa.Store)
					if !ok {
						return
					}
					if s, ok := constString(st.Val); !ok || s != "filter" {
						return
					}
					fv := fieldVar(st.Addr)
					if fv == nil || !(fieldIs(fv, "typ") || fieldIs(fv, "kind")) {
						return
					}
					n++
					ok2 := everyPathCrosses(st.Block(), func(cond ssa.Value, want bool) bool {
						cl, ok := cond.(*ssa.Call)
						return ok && want && calleeName(&cl.Call) == "helpers.IsIdentifier"
					})
					c.check(ok2, fmt.Sprintf("%s: function segment#%d only for an identifier", strings.TrimPrefix(name, "vuego."), n), p.instrPos(st), "IsIdentifier(name) on every path", "a function segment is built for whatever the call pattern matched: a bare number or a word starting with a digit becomes a call of a function of that name and fails the render")
				})
			}
			if n == 0 {
				undecided("no function segment is built in parsePipeExpr / classifySegment")
			}
		},
	})

	register(&Rule{
		ID: "C13.R17", Props: []string{"C13", "C14", "C03"}, Min: 1,
		Doc: "strict operators are understood in every position: the text handed to the expression compiler (expr.Compile) has passed the module's operator normaliser (NormalizeComparisonOperators, which rewrites === and !==) inside the evaluator itself — positions that call the evaluator without normalising on their own (v-show, :class / :style objects, slot props, <template :x>) then accept `a !== b` like v-if does",
		Run: func(p *Prog, c *Ctx) {
			ev := p.MustFn("(*vuego.ExprEvaluator).Eval")
			norm := false
			for f := range p.Cone(ev) {
				if !inModule(f) {
					continue
				}
				for _, site := range callsIn(f) {
					if strings.HasSuffix(calleeName(site.Common()), "NormalizeComparisonOperators") {
						norm = true
					}
				}
			}
			c.check(norm, "ExprEvaluator.Eval: === and !== are normalised", p.pos(ev.Pos()), "NormalizeComparisonOperators on the way to expr.Compile", "the evaluator compiles the expression as written (or rewrites === only): `a !== b` does not compile, and positions that fall back silently (v-show, :class objects) treat the condition as false")
		},
	})
}

// ---------- rules written after the fifth seeding round ----------

func init() {
	register(&Rule{
		ID: "C17.R10", Props: []string{"C17", "C03", "C11", "C08", "C09", "C10", "C05", "C13", "C06"}, Min: 1, // C09/C10: Copy() is built on EnvMap — a shared map is shared between requests
		Doc: "the merged environment holds every binding, whatever its value: in Stack.EnvMap the copy of a scope's entries into the result is decided by the iteration alone — no condition on the value (nil, zero, type) stands before the store. A binding that is left out no longer shadows an outer one: v-if / v-show / :class (which read the environment) then see the outer value while {{ }} and bound attributes (which use Lookup) see the inner one, and the nil that hides inherited slot content from itself stops hiding it",
		Run: func(p *Prog, c *Ctx) {
			fn := p.MustFn("(*vuego.Stack).EnvMap")
			n := 0
			scan := []*ssa.Function{fn}
			for _, rf := range rangeFuncs(fn) {
				scan = append(scan, rf.Body)
			}
			for _, f := range scan {
				eachInstr(f, func(in ssa.Instruction) {
					mu, ok := in.(*ssa.MapUpdate)
					if !ok {
						return
					}
					n++
					bad := ""
					for _, g := range controllingIfs(mu) {
						for _, leaf := range condLeaves(g.If.Cond) {
							switch x := leaf.(type) {
							case *ssa.Const, *ssa.Phi:
								continue
							case *ssa.Call:
								if calleeName(&x.Call) == "builtin.len" {
									continue
								}
							case *ssa.Extract:
								if _, ok := x.Tuple.(*ssa.Next); ok && x.Index == 0 {
									continue // the `more entries` flag of the range
								}
							}
							bad = describeValue(leaf) + " at " + p.instrPosOf(leaf)
						}
					}
					c.check(bad == "", fmt.Sprintf("EnvMap: entry copy#%d is unconditional", n), p.instrPos(mu), "decided by the iteration only", "whether a binding is copied into the merged environment also depends on "+bad+": a binding with that value (nil, typically) disappears from the environment and the outer binding of the same name shows through in v-if, v-show and :class while Lookup still honours the inner one")
				})
			}
			// maps.Copy and the struct overlay are whole-map operations: nothing to decide
			if n == 0 {
				for _, site := range callsIn(fn) {
					if strings.HasPrefix(calleeName(site.Common()), "maps.Copy") {
						n++
						c.ok(fmt.Sprintf("EnvMap: entry copy#%d is unconditional", n), p.instrPos(site), "maps.Copy copies every entry")
					}
				}
			}
			if n == 0 {
				undecided("EnvMap copies no entries")
			}
		},
	})

	register(&Rule{
		ID: "C05.R12", Props: []string{"C05", "C01"}, Min: 2,
		Doc: "one test for `the component's root is a <template>`: the include evaluator's decision that evalTemplate has already evaluated the component (isTemplateRoot) and evalTemplate's own entry test look at the same thing — the first node's Type and its Data compared with \"template\". A shorthand tag rewritten to <template include> has the Data but not the atom: if one test reads DataAtom and the other Data, the inner component is evaluated twice (the second time from attributes the first pass already replaced by their values)",
		Run: func(p *Prog, c *Ctx) {
			dataEq := func(fn *ssa.Function) (byData, byAtom bool) {
				eachInstr(fn, func(in ssa.Instruction) {
					b, ok := in.(*ssa.BinOp)
					if !ok || (b.Op != token.EQL && b.Op != token.NEQ) {
						return
					}
					for _, side := range []ssa.Value{b.X, b.Y} {
						f := loadedField(side)
						if f == nil || f.Pkg() == nil || f.Pkg().Path() != "golang.org/x/net/html" {
							continue
						}
						other := b.Y
						if side == b.Y {
							other = b.X
						}
						switch f.Name() {
						case "Data":
							if s, ok := constString(other); ok && s == "template" {
								byData = true
							}
						case "DataAtom":
							byAtom = true
						}
					}
				})
				return
			}
			for _, name := range []string{"vuego.isTemplateRoot", "(*vuego.Vue).evalTemplate"} {
				fns, _ := p.hostsOf(name)
				if len(fns) == 0 {
					undecided("%s not found", name)
				}
				byData, byAtom := false, false
				for _, fn := range fns {
					d, a := dataEq(fn)
					byData, byAtom = byData || d, byAtom || a
					// the same predicate, called: trivially the same test
					if name != "vuego.isTemplateRoot" {
						roots, _ := p.hostsOf("vuego.isTemplateRoot")
						for _, site := range callsIn(fn) {
							for _, r := range roots {
								if site.Common().StaticCallee() == r {
									byData = true
								}
							}
						}
					}
				}
				c.check(byData && !byAtom, strings.TrimPrefix(strings.TrimPrefix(name, "(*vuego.Vue)."), "vuego.")+": <template> is recognised by its tag name", p.pos(fns[0].Pos()), "Data == \"template\"", "the test for a <template> root does not compare the node's Data with \"template\" (it reads the atom): a component whose first node is a rewritten shorthand tag is a template root for one of the two tests and not for the other, and is evaluated twice")
			}
		},
	})

	register(&Rule{
		ID: "C05.R13", Props: []string{"C05", "C08"}, Min: 1,
		Doc: "the :required check sees the component's own front-matter: the environment handed to evalTemplate as the component's data (a Stack.EnvMap() result) is taken after the loop that writes the front-matter keys into the instance's scope — a snapshot taken earlier (to save a second EnvMap call) misses them, and a component that defines a required key itself fails with `required attribute … not provided`",
		Run: func(p *Prog, c *Ctx) {
			fn := p.MustFn("(*vuego.Vue).evalInclude")
			var sets []ssa.Instruction
			for _, site := range callsIn(fn) {
				if isStackCall(site.Common(), "Set") && loopHeaderOf(site.Block()) != nil {
					sets = append(sets, site)
				}
			}
			if len(sets) == 0 {
				undecided("evalInclude has no front-matter Set loop")
			}
			n := 0
			for _, site := range callsIn(fn) {
				if calleeName(site.Common()) != "(*vuego.Vue).evalTemplate" {
					continue
				}
				n++
				data := site.Common().Args[3]
				bad := ""
				for _, o := range p.origins(data, OriginOpts{}) {
					cl, ok := o.(*ssa.Call)
					if !ok || !isStackCall(&cl.Call, "EnvMap") {
						continue
					}
					for _, st := range sets {
						if canFollow(cl, st) && !canFollow(st, cl) {
							bad = p.instrPos(cl)
						}
					}
				}
				c.check(bad == "", fmt.Sprintf("evalInclude: evalTemplate#%d gets the environment with the front-matter in it", n), p.instrPos(site), "EnvMap() is called after the front-matter was written", "the component data for the :required check is an environment snapshot taken (at "+bad+") before the front-matter keys were written: a key the component's own front-matter defines counts as `not provided`")
			}
			if n == 0 {
				undecided("evalInclude does not call evalTemplate")
			}
		},
	})

	register(&Rule{
		ID: "C06.R10", Props: []string{"C06"}, Min: 1,
		Doc: "fallback content belongs to the component: in the slot evaluator the <slot>'s own children are evaluated with the context's slot scope as it was on entry — no assignment to ctx.SlotScope can run before the fallback evaluation. Switching to the outer scope there (as is right for *supplied* content, which the user of the component wrote) makes a <slot> nested in the fallback look in the wrong instance: supplied #title is lost, or a foreign instance's content appears",
		Run: func(p *Prog, c *Ctx) {
			fn := p.MustFn("(*vuego.Vue).evalSlot")
			node := paramOf(fn, "node", 2, 4)
			var fallback []ssa.Instruction
			for _, site := range callsIn(fn) {
				cc := site.Common()
				if calleeName(cc) == "(*vuego.Vue).evaluateChildren" && len(cc.Args) > 2 && cc.Args[2] == ssa.Value(node) {
					fallback = append(fallback, site)
				}
			}
			if len(fallback) == 0 {
				undecided("evalSlot has no fallback evaluation")
			}
			var stores []*ssa.Store
			eachInstr(fn, func(in ssa.Instruction) {
				if st, ok := in.(*ssa.Store); ok {
					if fv := fieldVar(st.Addr); fv != nil && fieldIs(fv, "SlotScope") {
						stores = append(stores, st)
					}
				}
			})
			for i, fb := range fallback {
				bad := ""
				for _, st := range stores {
					if canFollow(st, fb) {
						bad = p.instrPos(st)
					}
				}
				c.check(bad == "", fmt.Sprintf("evalSlot: fallback#%d runs in the component's own slot scope", i+1), p.instrPos(fb), fmt.Sprintf("none of the %d assignment(s) to ctx.SlotScope can precede it", len(stores)), "the slot scope assigned at "+bad+" is current when the <slot>'s fallback children are evaluated: a <slot> inside the fallback is looked up in another instance's scope")
			}
		},
	})

	register(&Rule{
		ID: "C07.R12", Props: []string{"C07"}, Min: 1,
		Doc: "a key that is bound to nothing names no layout: Template.Get turns a value into a string with fmt.Sprint only on paths on which the value was compared with nil and is not nil — a front-matter `layout:` with no value must read as \"\" (no layout named), not as \"<nil>\"",
		Run: func(p *Prog, c *Ctx) {
			fn := p.MustFn("(*vuego.template).Get")
			n := 0
			for _, site := range callsIn(fn) {
				nm := calleeName(site.Common())
				if nm != "fmt.Sprint" && nm != "fmt.Sprintf" {
					continue
				}
				n++
				ok := everyPathCrosses(site.Block(), func(cond ssa.Value, want bool) bool {
					// `val == nil` false edge, or a successful type assertion to a concrete type
					if b := eqOnEdge(cond, !want); b != nil && (isNilConst(b.X) || isNilConst(b.Y)) && !isErrorType(b.X.Type()) {
						return true
					}
					if ex, isEx := cond.(*ssa.Extract); isEx && want && ex.Index == 1 {
						if _, isTA := ex.Tuple.(*ssa.TypeAssert); isTA {
							return true
						}
					}
					return false
				})
				c.check(ok, fmt.Sprintf("Get: fmt.Sprint#%d only of a non-nil value", n), p.instrPos(site), "a nil test lies on every path", "a nil value is formatted like any other and comes out as the text \"<nil>\": an empty `layout:` key then names a layout called <nil>, the default layout is not applied and the chain does not end where it should")
			}
			if n == 0 {
				c.ok("Get: no generic formatting", p.pos(fn.Pos()), "values are not formatted with fmt.Sprint")
			}
		},
	})
}

func init() {
	register(&Rule{
		ID: "C06.R11", Props: []string{"C06"}, Min: 1,
		Doc: "only elements and non-blank text are slot content: where the children of a component tag are collected as content for the unnamed slot, every append happens on a path on which the child's Type was established to be an element or a text node — a comment (or any other kind of node) is not content, and a body that holds nothing else leaves the slot empty so that its fallback is rendered",
		Run: func(p *Prog, c *Ctx) {
			fn := p.MustFn("vuego.extractSlotContent")
			// the list that becomes the content of the unnamed slot: what is stored as Nodes of the SlotContent
			// registered outside the child loop (the slot templates' own contents are registered inside it)
			defaultList := map[ssa.Value]bool{}
			eachInstr(fn, func(in ssa.Instruction) {
				st, ok := in.(*ssa.Store)
				if !ok || loopHeaderOf(st.Block()) != nil {
					return
				}
				if fv := fieldVar(st.Addr); fv == nil || !fieldIs(fv, "Nodes") {
					return
				}
				for _, o := range p.origins(st.Val, OriginOpts{}) {
					defaultList[o] = true
				}
			})
			n := 0
			eachInstr(fn, func(in ssa.Instruction) {
				cl, ok := in.(*ssa.Call)
				if !ok || calleeName(&cl.Call) != "builtin.append" || loopHeaderOf(cl.Block()) == nil {
					return
				}
				if !isNodeSlice(cl.Type()) || !defaultList[cl] {
					return
				}
				n++
				typed := false
				if facts, ok := pathFacts(cl.Block()); ok {
					for _, f := range facts {
						b := eqOnEdge(f.Cond, f.Want)
						if b == nil {
							continue
						}
						for _, pair := range [][2]ssa.Value{{b.X, b.Y}, {b.Y, b.X}} {
							if fv := loadedField(pair[0]); fv != nil && fv.Name() == "Type" {
								if k, ok := constInt(pair[1]); ok && (k == 1 || k == 3) { // html.TextNode, html.ElementNode
									typed = true
								}
							}
						}
					}
				}
				c.check(typed, fmt.Sprintf("extractSlotContent: default-slot child#%d is an element or text", n), p.instrPos(cl), "Type == ElementNode or Type == TextNode on every path", "a child is collected as default-slot content without its node type being established as element or text: an HTML comment in the body of a component tag counts as supplied content, so the unnamed slot renders nothing instead of its fallback")
			})
			if n == 0 {
				undecided("extractSlotContent appends no nodes in a loop")
			}
		},
	})

	register(&Rule{
		ID: "C08.R12", Props: []string{"C08", "C07"}, Min: 2,
		Doc: "the chain hands on the rendered content and nothing else: inside the layout loop the accumulated data map that the next link is filled from is only written under constant keys (`content`, the inherited slot scope) and the `layout` key is deleted — no loop copies a link's front-matter (or any other map) into it. A copied key would outrank the Fill / Assign, data/*.yml and theme.yml values of every later layout that does not define it itself",
		Run: func(p *Prog, c *Ctx) {
			fn := p.MustFn("(*vuego.template).layout")
			var render ssa.CallInstruction
			for _, site := range p.callsToRole(fn, "(*vuego.template).renderWithoutLayout") {
				render = site
			}
			if render == nil {
				for _, site := range callsIn(fn) {
					if calleeName(site.Common()) == "(*vuego.template).Load" {
						render = site
					}
				}
			}
			if render == nil {
				undecided("layout: no Load / render call")
			}
			h := loopHeaderOf(render.Block())
			if h == nil {
				undecided("layout: render call not in a loop")
			}
			loop := loopBlocks(h)
			// the accumulated map: the one handed to Fill
			var data ssa.Value
			for _, site := range callsIn(fn) {
				cc := site.Common()
				if cc.IsInvoke() && cc.Method.Name() == "Fill" && len(cc.Args) == 1 {
					for _, o := range p.origins(cc.Args[0], OriginOpts{}) {
						if _, isMap := o.Type().Underlying().(*types.Map); isMap {
							data = o
						}
					}
				}
			}
			if data == nil {
				undecided("layout: the map handed to Fill was not found")
			}
			same := func(v ssa.Value) bool {
				for _, o := range p.origins(v, OriginOpts{}) {
					if o == data {
						return true
					}
				}
				return false
			}
			n := 0
			eachInstr(fn, func(in ssa.Instruction) {
				if !loop[in.Block()] {
					return
				}
				switch x := in.(type) {
				case *ssa.MapUpdate:
					if !same(x.Map) {
						return
					}
					n++
					k, isConst := constString(unwrapIface(x.Key))
					c.check(isConst, fmt.Sprintf("layout: write#%d into the accumulated data has a constant key", n), p.instrPos(x), "key "+fmt.Sprintf("%q", k), "the accumulated data of the chain is written under a computed key (a loop that copies a map into it): a link's front-matter is carried over to the layouts after it and outranks their Fill / Assign and configuration values")
				case ssa.CallInstruction:
					if strings.HasPrefix(calleeName(x.Common()), "maps.Copy") && len(x.Common().Args) == 2 && same(x.Common().Args[0]) {
						n++
						c.fail(fmt.Sprintf("layout: write#%d into the accumulated data has a constant key", n), p.instrPos(x), "a whole map is copied into the accumulated data of the chain: a link's front-matter is carried over to the layouts after it and outranks their Fill / Assign and configuration values")
					}
				}
			})
			if n == 0 {
				undecided("layout: the loop writes nothing into the accumulated data")
			}
		},
	})

	register(&Rule{
		ID: "C09.R8", Props: []string{"C09", "C10"}, Min: 1,
		Doc: "node processors are per render: the context constructor fills the context's processor list with what each registered processor's New() returns, in a list it allocates itself — it does not adopt the engine's own list — and nothing stores into an element of a processor list outside that constructor. A processor instance that lives as long as the engine carries its state (collected headings, counters) from one render into the next, and two renders at the same time overwrite each other's instance",
		Run: func(p *Prog, c *Ctx) {
			ctor := p.MustFn("vuego.NewVueContext")
			// the value stored into the Processors field
			n := 0
			eachInstr(ctor, func(in ssa.Instruction) {
				st, ok := in.(*ssa.Store)
				if !ok {
					return
				}
				fv := fieldVar(st.Addr)
				if fv == nil || !fieldIs(fv, "Processors") {
					return
				}
				if pk := fv.Pkg(); pk == nil || pk.Path() != modPath {
					return
				}
				// only the context's field (the options struct has one of the same name)
				if fa, ok := st.Addr.(*ssa.FieldAddr); ok {
					if pt, ok := fa.X.Type().Underlying().(*types.Pointer); !ok || !isNamed(pt.Elem(), modPath, "VueContext") {
						return
					}
				}
				n++
				fresh, fromNew, adopted := false, false, ""
				for _, o := range p.origins(st.Val, OriginOpts{}) {
					switch x := o.(type) {
					case *ssa.MakeSlice, *ssa.Alloc:
						fresh = true
					case *ssa.Const:
						fresh = true
					case *ssa.Call:
						if calleeName(&x.Call) == "builtin.append" {
							fresh = true
						}
					default:
						if f := loadedField(o); f != nil {
							adopted = "the field " + f.Name()
						}
					}
				}
				// the elements: results of invoke New()
				eachInstr(ctor, func(x ssa.Instruction) {
					if cl, ok := x.(*ssa.Call); ok && cl.Call.IsInvoke() && cl.Call.Method.Name() == "New" {
						fromNew = true
					}
				})
				c.check(adopted == "" && fresh && fromNew, fmt.Sprintf("NewVueContext: processor list#%d is made of New() instances", n), p.instrPos(st), "a list allocated here, filled with processor.New()", "the context adopts "+adopted+" as its processor list instead of creating a fresh instance of each processor: PreProcess / PostProcess of every render run on the one registered instance, whose state then outlives the render and is shared by concurrent ones")
			})
			if n == 0 {
				undecided("NewVueContext does not set the context's processor list")
			}
			// nobody else stores into an element of a processor list
			m := 0
			for _, fn := range p.Funcs {
				if p.Dropped[fn] || fn == ctor {
					continue
				}
				eachInstr(fn, func(in ssa.Instruction) {
					st, ok := in.(*ssa.Store)
					if !ok {
						return
					}
					ia, ok := st.Addr.(*ssa.IndexAddr)
					if !ok {
						return
					}
					if f := loadedField(ia.X); f != nil && (fieldIs(f, "Processors") || fieldIs(f, "nodeProcessors")) {
						m++
						c.fail(fmt.Sprintf("%s: store into a processor list#%d", shortName(fn), m), p.instrPos(st), "an element of a processor list is overwritten outside the context constructor: the list's backing array is the engine's (the context is passed by value), so a render replaces the instance another render is still using")
					}
				})
			}
		},
	})
}

func init() {
	register(&Rule{
		ID: "C18.R8", Props: []string{"C18", "C07", "C15"}, Min: 1,
		Doc: "every single-path answer comes from the first layer that has the path: a method of the overlay that takes one path and walks the layers (Open, and any Stat / ReadFile / Sub-like method added later) returns from inside the walk at the first layer that answers without error — it does not let a later layer overwrite the answer — and asks every non-nil layer: a layer that lacks an optional interface (fs.StatFS, fs.ReadFileFS) is asked through the io/fs helper instead of being skipped. The loader's existence checks (layouts/base.vuego, relative layouts) and the template cache's mtime comparison go through these methods",
		Run: func(p *Prog, c *Ctx) {
			n := 0
			for _, fn := range p.Funcs {
				if p.Dropped[fn] || fn.Parent() != nil || typeShort(recvType(fn)) != "*vuego.OverlayFS" {
					continue
				}
				sig := fn.Signature
				if sig.Params().Len() != 1 || !isString(sig.Params().At(0).Type()) || sig.Results().Len() != 2 {
					continue
				}
				// ReadDir, Glob: unions over all layers (C18.R2/R3/R7) — no early return there, but a layer
				// is not skipped for lacking an optional interface either
				_, union := sig.Results().At(0).Type().Underlying().(*types.Slice)
				// the loop over the layers
				var h *ssa.BasicBlock
				eachInstr(fn, func(in ssa.Instruction) {
					if ld, ok := in.(*ssa.UnOp); ok {
						if f := loadedField(ld); f != nil && fieldIs(f, "chainFS") && ld.Referrers() != nil {
							for _, u := range *ld.Referrers() {
								if hh := loopHeaderOf(u.Block()); hh != nil {
									h = hh
								}
							}
						}
					}
				})
				if h == nil {
					continue // delegates (to Open, fs.Stat(o, …)) instead of walking itself
				}
				n++
				loop := loopBlocks(h)
				// (b) a return from inside the walk with a nil error
				stops := false
				for _, r := range returnsOf(fn) {
					if !loop[r.Block()] {
						// a return block duplicated out of the loop by normalisation still counts when it is only
						// reachable from inside the loop
						inner := false
						for _, pr := range r.Block().Preds {
							if loop[pr] {
								inner = true
							}
						}
						if !inner {
							continue
						}
					}
					if len(r.Results) == 2 && isNilConst(returnedValue(r, 1)) {
						stops = true
					}
				}
				if !union {
					c.check(stops, shortName(fn)+": returns at the first layer that answers", p.pos(fn.Pos()), "a `return x, nil` inside the walk over the layers", "the walk over the layers has no successful return inside it: every layer that has the path overwrites the answer of the one before, so the answer comes from the lowest layer — content is served from the upper file but its metadata (mtime, size) from a shadowed one, and the template cache validates against the wrong file")
				}
				// (a) no layer is skipped for lacking an optional interface
				eachInstr(fn, func(in ssa.Instruction) {
					ta, ok := in.(*ssa.TypeAssert)
					if !ok || !ta.CommaOk || !loop[ta.Block()] || !isNamed(ta.X.Type(), "io/fs", "FS") {
						return
					}
					if _, isIface := ta.AssertedType.Underlying().(*types.Interface); !isIface {
						return
					}
					n++
					// on the `does not implement` edge the layer must still be asked
					asked := false
					if ta.Referrers() != nil {
						for _, r := range *ta.Referrers() {
							ex, ok := r.(*ssa.Extract)
							if !ok || ex.Index != 1 || ex.Referrers() == nil {
								continue
							}
							for _, u := range *ex.Referrers() {
								ifi, ok := u.(*ssa.If)
								if !ok {
									continue
								}
								cnd, flip := stripNot(ifi.Cond)
								if cnd != ssa.Value(ex) {
									continue
								}
								notImpl := ifi.Block().Succs[1]
								if flip {
									notImpl = ifi.Block().Succs[0]
								}
								region := blocksAfterSameRound(notImpl)
								region[notImpl] = true
								for b := range region {
									if !loop[b] {
										continue
									}
									for _, x := range b.Instrs {
										if cs, ok := x.(ssa.CallInstruction); ok {
											for _, a := range cs.Common().Args {
												if a == ta.X || sameValue(a, ta.X) {
													asked = true
												}
											}
										}
									}
								}
							}
						}
					}
					c.check(asked, fmt.Sprintf("%s: a layer without %s is still asked", shortName(fn), typeShort(ta.AssertedType)), p.instrPos(ta), "the io/fs helper is used on the layer itself when the assertion fails", "a layer that does not implement "+typeShort(ta.AssertedType)+" is skipped: the method then disagrees with Open about which files exist (an embedded theme's layouts/base.vuego is not found, so the default layout is not applied)")
				})
			}
			if n == 0 {
				undecided("no single-path method of the overlay walks the layers")
			}
		},
	})

	register(&Rule{
		ID: "C16.R8", Props: []string{"C16"}, Min: 1,
		Doc: "the identity of a v-once element is its file and its position in that file: the name under which the include evaluator numbers a component's v-once elements is the component's file name (the value of the include attribute) — not something that differs between the ways the component was reached (the include chain, the including file, a depth). An id that depends on the route makes the same element count as a different one for every route, so it is emitted once per route instead of once per render",
		Run: func(p *Prog, c *Ctx) {
			fn := p.MustFn("(*vuego.Vue).evalInclude")
			n := 0
			for _, site := range callsIn(fn) {
				if calleeName(site.Common()) != "vuego.assignSeenAttrs" {
					continue
				}
				n++
				name := site.Common().Args[0]
				ok, why := false, describeValue(name)
				for _, o := range p.originsThroughCallers(name, OriginOpts{}, 3) {
					if cl := isCallNamed(o, "helpers.GetAttr"); cl != nil {
						if k, isK := constString(cl.Call.Args[1]); isK && k == "include" {
							ok = true
							continue
						}
					}
					ok = false
					why = describeValue(o)
					break
				}
				c.check(ok, fmt.Sprintf("evalInclude: v-once ids of the component#%d are derived from its file name", n), p.instrPos(site), "assignSeenAttrs(GetAttr(node, \"include\"), …)", "the component's v-once ids are derived from "+why+", not from the component's file name alone: the same element gets a different id for every way the component is reached and is emitted once per way")
			}
			if n == 0 {
				undecided("evalInclude does not number v-once elements")
			}
		},
	})

	register(&Rule{
		ID: "C04.R10", Props: []string{"C04", "C16"}, Min: 1,
		Doc: "every item gets its instance: in the v-for callback the evaluation of the per-item copy is decided only by the number of loop variables (the one- or two-variable form) — not by the index, the item, or what the looped element carries (a v-once fast path that skips every item after the first forgets that the instance has its own v-if, and that v-once is tested per instance anyway)",
		Run: func(p *Prog, c *Ctx) {
			evalFor := p.MustFn("(*vuego.Vue).evalFor")
			var cb *ssa.Function
			for _, a := range evalFor.AnonFuncs {
				if len(a.Params) == 2 {
					cb = a
				}
			}
			if cb == nil {
				undecided("evalFor has no two-parameter callback")
			}
			n := 0
			for _, site := range callsIn(cb) {
				if calleeName(site.Common()) != "(*vuego.Vue).evaluate" {
					continue
				}
				n++
				bad := ""
				for _, g := range controllingIfs(site) {
					for _, leaf := range condLeaves(g.If.Cond) {
						switch x := leaf.(type) {
						case *ssa.Const:
							continue
						case *ssa.Call:
							if calleeName(&x.Call) == "builtin.len" {
								continue
							}
						}
						if isErrorType(leaf.Type()) {
							continue
						}
						bad = describeValue(leaf) + " at " + p.instrPosOf(leaf)
					}
				}
				c.check(bad == "", fmt.Sprintf("evalFor callback: evaluate#%d runs for every item", n), p.instrPos(site), "decided by the number of loop variables only", "whether an item's copy is evaluated also depends on "+bad+": some items of the collection get no instance")
			}
			if n == 0 {
				undecided("the v-for callback does not call evaluate")
			}
		},
	})
}

func init() {
	register(&Rule{
		ID: "C17.R11", Props: []string{"C17", "C08", "C11", "C02", "C03"}, Min: 1, // C02: an acyclic value met twice must print as fmt prints it
		Doc: "the cycle guard of a data walk records the current path, not everything ever seen: wherever a recursive conversion of caller data marks a pointer in a `visiting` set that is threaded through the recursion (a map parameter), the same key is removed again when that level is left (a deferred or explicit delete after the insert). Without the removal, data that merely mentions one struct twice — root.Author == root.Editor — is taken for a cycle, and the second occurrence converts to an empty map: its fields render as nothing",
		Run: func(p *Prog, c *Ctx) {
			n := 0
			for _, cyc := range recursiveFuncs(p) {
				fn := cyc
				var sets []*ssa.Parameter
				for _, prm := range fn.Params {
					if mt, ok := prm.Type().Underlying().(*types.Map); ok {
						if b, ok := mt.Elem().Underlying().(*types.Basic); ok && b.Kind() == types.Bool {
							sets = append(sets, prm)
						}
						if st, ok := mt.Elem().Underlying().(*types.Struct); ok && st.NumFields() == 0 {
							sets = append(sets, prm)
						}
					}
				}
				for _, set := range sets {
					eachInstr(fn, func(in ssa.Instruction) {
						mu, ok := in.(*ssa.MapUpdate)
						if !ok || mu.Map != ssa.Value(set) {
							return
						}
						n++
						removed := false
						eachInstr(fn, func(x ssa.Instruction) {
							var cc *ssa.CallCommon
							switch y := x.(type) {
							case *ssa.Defer:
								cc = &y.Call
							case *ssa.Call:
								cc = &y.Call
							}
							if cc == nil {
								return
							}
							b, isB := cc.Value.(*ssa.Builtin)
							if !isB || b.Name() != "delete" || cc.Args[0] != ssa.Value(set) {
								return
							}
							if (cc.Args[1] == mu.Key || sameValue(cc.Args[1], mu.Key)) && (canFollow(mu, x) || x.Block() == mu.Block()) {
								removed = true
							}
						})
						c.check(removed, fmt.Sprintf("%s: visiting[%s] is taken back when the level is left#%d", shortName(fn), describeValue(mu.Key), n), p.instrPos(mu), "delete of the same key after the insert (deferred or explicit)", "the pointer is added to the set that guards against cyclic data and never removed: the set then means `ever seen` instead of `on the current path`, and a struct that is merely referenced twice (no cycle) is converted to an empty map the second time")
					})
				}
			}
			if n == 0 {
				undecided("no recursive function of the module marks entries in a visiting set it receives as a parameter")
			}
		},
	})
}

// recursiveFuncs returns the module functions that call themselves directly.
func recursiveFuncs(p *Prog) []*ssa.Function {
	var out []*ssa.Function
	for _, fn := range p.Funcs {
		if p.Dropped[fn] || !inModule(fn) {
			continue
		}
		for _, site := range callsIn(fn) {
			if site.Common().StaticCallee() == fn {
				out = append(out, fn)
				break
			}
		}
	}
	return out
}

func init() {
	register(&Rule{
		ID: "C03.R10", Props: []string{"C03", "C14"}, Min: 2,
		Doc: "the condition positions agree on what they can read: v-if / v-else-if (evalConditionExpr) and v-show (evalVShow) both evaluate the whole condition with the expression evaluator and, when that fails, fall back to the scope's path resolver, which walks Go structs by JSON tag, hyphenated keys and dotted indexes (`flags.is-open`, `checks.0`) that the expression evaluator cannot. A position without the fallback treats such a condition as false while the others see the value",
		Run: func(p *Prog, c *Ctx) {
			for _, name := range []string{"(*vuego.Vue).evalConditionExpr", "(*vuego.Vue).evalVShow"} {
				fn := p.MustFn(name)
				var evals, resolves []ssa.Instruction
				for _, site := range callsIn(fn) {
					switch calleeName(site.Common()) {
					case "(*vuego.ExprEvaluator).Eval":
						evals = append(evals, site)
					case "(*vuego.Stack).Resolve", "(*vuego.Stack).Lookup":
						resolves = append(resolves, site)
					}
				}
				if len(evals) == 0 {
					// one implementation for both: the position hands its condition to evalConditionExpr
					delegates := false
					for _, site := range callsIn(fn) {
						if calleeName(site.Common()) == "(*vuego.Vue).evalConditionExpr" {
							delegates = true
						}
					}
					if delegates && name != "(*vuego.Vue).evalConditionExpr" {
						c.ok(strings.TrimPrefix(name, "(*vuego.Vue).")+": falls back to the path resolver", p.pos(fn.Pos()), "evaluates through evalConditionExpr")
						continue
					}
					undecided("%s does not call the expression evaluator", name)
				}
				ok := false
				for _, e := range evals {
					for _, r := range resolves {
						if canFollow(e, r) {
							ok = true
						}
					}
				}
				c.check(ok, strings.TrimPrefix(name, "(*vuego.Vue).")+": falls back to the path resolver", p.pos(fn.Pos()), "Stack.Resolve is reachable after the evaluator", "this condition position has no fallback to the scope's path resolver after the expression evaluator failed: a truthy value addressed by a path only the resolver can walk (a struct field by JSON tag, a hyphenated key, `list.0`) counts as false here — display:none is added, or the branch is skipped — while the other positions see it")
			}
		},
	})
}

func init() {
	register(&Rule{
		ID: "C19.R13", Props: []string{"C19"}, Min: 2,
		Doc: "the doctype is carried over, not re-created: in the formatter's full-document path the doctype written to the result is a piece cut out of the source text (a slice of the input), and nowhere does the formatter serialise a node with html.Render — the HTML serialiser spells every doctype its own canonical way (`<!doctype html>` becomes `<!DOCTYPE html>`, identifiers are re-quoted), which is not `byte for byte`",
		Run: func(p *Prog, c *Ctx) {
			fn := p.MustFn("(*formatter.Formatter).formatFullDocument")
			// the parameter that holds the document: the one whose text is handed to the HTML parser
			var body *ssa.Parameter
			derivesFrom := func(v ssa.Value, prm *ssa.Parameter) bool {
				seen := map[ssa.Value]bool{}
				var walk func(v ssa.Value, d int) bool
				walk = func(v ssa.Value, d int) bool {
					if v == nil || seen[v] || d > 6 {
						return false
					}
					seen[v] = true
					for _, o := range p.origins(v, OriginOpts{}) {
						if o == ssa.Value(prm) {
							return true
						}
						if ex, ok := o.(*ssa.Extract); ok {
							o = ex.Tuple
						}
						if cl, ok := o.(*ssa.Call); ok && strings.HasPrefix(calleeName(&cl.Call), "strings.") {
							for _, a := range cl.Call.Args {
								if walk(a, d+1) {
									return true
								}
							}
						}
						if b, ok := o.(*ssa.BinOp); ok && b.Op == token.ADD && isString(b.Type()) {
							if walk(b.X, d+1) || walk(b.Y, d+1) {
								return true
							}
						}
					}
					return false
				}
				return walk(v, 0)
			}
			for _, site := range callsIn(fn) {
				if calleeName(site.Common()) == "strings.NewReader" {
					for _, prm := range fn.Params {
						if isString(prm.Type()) && derivesFrom(site.Common().Args[0], prm) {
							body = prm
						}
					}
				}
			}
			if body == nil {
				undecided("formatFullDocument: the parameter that is parsed was not found")
			}
			fromSource := false
			for _, site := range callsIn(fn) {
				if !strings.HasSuffix(calleeName(site.Common()), ".WriteString") {
					continue
				}
				if derivesFrom(site.Common().Args[len(site.Common().Args)-1], body) {
					fromSource = true
				}
			}
			c.check(fromSource, "formatFullDocument: the doctype is a slice of the source", p.pos(fn.Pos()), "a piece of the input is written back verbatim", "the full-document path writes no piece of the source text back: the doctype is not carried over byte for byte (it is dropped, or re-created from the parsed node)")
			renders := ""
			for _, f := range p.Funcs {
				if p.Dropped[f] {
					continue
				}
				if pk := funcPkg(f); pk == nil || !strings.HasSuffix(pk.Path(), "/formatter") {
					continue
				}
				for _, site := range callsIn(f) {
					if calleeName(site.Common()) == "golang.org/x/net/html.Render" {
						renders = shortName(f) + " at " + p.instrPos(site)
					}
				}
			}
			c.check(renders == "", "formatter: no node is serialised by html.Render", "-", "the formatter writes every node itself", "the formatter hands a node to html.Render ("+renders+"): the serialiser's canonical spelling replaces what the template author wrote (doctype keyword case, quoting of identifiers, attribute quoting)")
		},
	})
}

func init() {
	register(&Rule{
		ID: "C20.R11", Props: []string{"C20"}, Min: 1,
		Doc: "the Markdown parser is the reference parser with GFM and nothing else: the goldmark instance the renderer is built on is configured with goldmark.WithExtensions(extension.GFM) only — no parser option (WithAttribute, WithAutoHeadingID, …) and no further extension changes what counts as Markdown. `## Install {#setup}` keeps its braces as text, as in the CommonMark / GFM reference output the property compares with",
		Run: func(p *Prog, c *Ctx) {
			n := 0
			for _, fn := range p.Funcs {
				if p.Dropped[fn] {
					continue
				}
				if pk := funcPkg(fn); pk == nil || pk.Path() != markdownPkg {
					continue
				}
				for _, site := range callsIn(fn) {
					nm := calleeName(site.Common())
					if !strings.Contains(nm, "yuin/goldmark") {
						continue
					}
					base := nm[strings.LastIndex(nm, ".")+1:]
					if !strings.HasPrefix(base, "With") && base != "New" && base != "NewParser" {
						continue
					}
					n++
					allowed := nm == "github.com/yuin/goldmark.New" || nm == "github.com/yuin/goldmark.WithExtensions"
					c.check(allowed, fmt.Sprintf("%s: goldmark is configured with %s#%d", shortName(fn), base, n), p.instrPos(site), "goldmark.New(goldmark.WithExtensions(extension.GFM))", "the parser is built with "+nm+": an option beyond GFM changes which source text is Markdown syntax (with WithAttribute a trailing `{…}` of a heading is swallowed as attributes), so the output no longer matches the reference rendering of the same document")
				}
				// the extensions handed to WithExtensions
				eachInstr(fn, func(in ssa.Instruction) {
					ld, ok := in.(*ssa.UnOp)
					if !ok || ld.Op != token.MUL {
						return
					}
					g, ok := ld.X.(*ssa.Global)
					if !ok || g.Pkg == nil || !strings.Contains(g.Pkg.Pkg.Path(), "goldmark/extension") {
						return
					}
					n++
					c.check(g.Name() == "GFM", fmt.Sprintf("%s: extension %s#%d", shortName(fn), g.Name(), n), p.instrPos(ld), "extension.GFM", "the renderer enables the goldmark extension "+g.Name()+" besides GFM: it parses syntax the reference renderer does not know")
				})
			}
			if n == 0 {
				undecided("the markdown package does not configure goldmark")
			}
		},
	})

	register(&Rule{
		ID: "C20.R12", Props: []string{"C20"}, Min: 1,
		Doc: "what is not front-matter is the document: where the Markdown loader splits a leading `--- … ---` block off a file, the edge on which that block does not parse as YAML returns the file's whole content as the body (and no front-matter) — a document that merely starts with a thematic break and has a second `---` further down (another break, a setext underline, a table row) must not lose everything up to that second line",
		Run: func(p *Prog, c *Ctx) {
			fn := p.MustFn("markdown.splitFrontMatter")
			raw := fn.Params[0]
			n := 0
			for _, site := range callsIn(fn) {
				cl, ok := site.(*ssa.Call)
				if !ok || !strings.Contains(calleeName(&cl.Call), "yaml") || !strings.HasSuffix(calleeName(&cl.Call), ".Unmarshal") {
					continue
				}
				n++
				// the error edge
				var errBlk *ssa.BasicBlock
				if cl.Referrers() != nil {
					for _, r := range *cl.Referrers() {
						b, ok := r.(*ssa.BinOp)
						if !ok || !(isNilConst(b.X) || isNilConst(b.Y)) || b.Referrers() == nil {
							continue
						}
						for _, u := range *b.Referrers() {
							if ifi, ok := u.(*ssa.If); ok {
								if b.Op == token.NEQ {
									errBlk = ifi.Block().Succs[0]
								} else {
									errBlk = ifi.Block().Succs[1]
								}
							}
						}
					}
				}
				if errBlk == nil {
					c.fail(fmt.Sprintf("splitFrontMatter: a block that is not YAML is part of the document#%d", n), p.instrPos(cl), "the YAML error is not tested at all: whatever stands between the first two `---` lines is dropped")
					continue
				}
				// every return reachable from the error edge (without leaving it) hands back the whole input
				ok2, found := true, false
				region := blocksAfterSameRound(errBlk)
				region[errBlk] = true
				for _, r := range returnsOf(fn) {
					if !region[r.Block()] {
						continue
					}
					found = true
					whole := false
					for _, o := range p.origins(r.Results[1], OriginOpts{}) {
						if o == ssa.Value(raw) {
							whole = true
						}
					}
					// a return that is also reachable without the error (the common tail) means the error edge fell through
					if !whole || !errBlk.Dominates(r.Block()) {
						ok2 = false
					}
				}
				c.check(found && ok2, fmt.Sprintf("splitFrontMatter: a block that is not YAML is part of the document#%d", n), p.instrPos(cl), "the error edge returns the whole input as the body", "when the text between the first two `---` lines is not a YAML mapping the function goes on as if it were front-matter: the lines up to the second `---` are cut off the document without any error")
			}
			if n == 0 {
				undecided("splitFrontMatter does not parse YAML")
			}
		},
	})
}

// quoteScanner describes a hand-written character loop that keeps a "between quotes" flag.
type quoteScanner struct {
	fn     *ssa.Function
	header *ssa.BasicBlock
	flags  []*ssa.Phi // boolean loop variables
	quotes map[int64]bool
}

// quoteScanners finds the loops of a function that compare their character with a quote constant and carry
// a boolean loop variable which is switched on and off inside the loop.
func quoteScanners(fn *ssa.Function) []quoteScanner {
	var out []quoteScanner
	for _, h := range fn.Blocks {
		isHeader := false
		for _, pr := range h.Preds {
			if h.Dominates(pr) {
				isHeader = true
			}
		}
		if !isHeader {
			continue
		}
		lb := loopBlocks(h)
		qs := quoteScanner{fn: fn, header: h, quotes: map[int64]bool{}}
		for b := range lb {
			for _, in := range b.Instrs {
				bo, ok := in.(*ssa.BinOp)
				if !ok || (bo.Op != token.EQL && bo.Op != token.NEQ) {
					continue
				}
				for _, o := range []ssa.Value{bo.X, bo.Y} {
					if k, ok := constInt(o); ok && (k == '"' || k == '\'' || k == '`') {
						qs.quotes[k] = true
					}
				}
			}
		}
		if len(qs.quotes) == 0 {
			continue
		}
		for _, in := range h.Instrs {
			ph, ok := in.(*ssa.Phi)
			if !ok {
				break
			}
			if bt, ok := ph.Type().Underlying().(*types.Basic); !ok || bt.Kind() != types.Bool {
				continue
			}
			on, off := false, false
			for _, lf := range phiLeaves(ph, lb) {
				if k, ok := lf.val.(*ssa.Const); ok && lf.inLoop {
					if constant.BoolVal(k.Value) {
						on = true
					} else {
						off = true
					}
				}
				if u, ok := lf.val.(*ssa.UnOp); ok && u.Op == token.NOT && lf.inLoop {
					on, off = true, true
				}
			}
			if on && off {
				qs.flags = append(qs.flags, ph)
			}
		}
		if len(qs.flags) > 0 {
			out = append(out, qs)
		}
	}
	return out
}

type phiLeaf struct {
	val    ssa.Value
	from   *ssa.BasicBlock // the block the value arrives from
	inLoop bool
}

// phiLeaves flattens the φ-tree below a loop-header φ: the values assigned to the variable and the block
// each one comes from; inLoop tells the assignments made by the loop body from the initial value.
func phiLeaves(ph *ssa.Phi, lb map[*ssa.BasicBlock]bool) []phiLeaf {
	var out []phiLeaf
	seen := map[*ssa.Phi]bool{}
	var walk func(p *ssa.Phi)
	walk = func(p *ssa.Phi) {
		if seen[p] {
			return
		}
		seen[p] = true
		for i, e := range p.Edges {
			from := p.Block().Preds[i]
			if q, ok := e.(*ssa.Phi); ok {
				if q != ph {
					walk(q)
				}
				continue
			}
			out = append(out, phiLeaf{e, from, lb[from]})
		}
	}
	walk(ph)
	return out
}

func init() {
	register(&Rule{
		ID: "C13.R18", Props: []string{"C13", "C14", "C03"}, Min: 2, // scanners written as a loop with local state; a scanner turned into a struct with a feed method is outside the rule
		Doc: "quote state of the hand-written splitters (filter arguments, :class/:style object items): (a) a quotation is closed only by the character that opened it — where one flag serves several quote characters, the edge that switches the flag off is taken under a comparison of the current character with the remembered opening character, not with constants (`'it\"s'` stays one string); (b) everything else the scanner does besides copying the character — counting bracket depth, cutting an item off — happens only while the flag is off, so a `)`, `{` or `,` inside a string literal is text",
		Run: func(p *Prog, c *Ctx) {
			n := 0
			for _, fn := range p.Funcs {
				if p.Dropped[fn] || !inModule(fn) {
					continue
				}
				if pk := funcPkg(fn); pk == nil || (pk.Path() != modPath && !strings.HasSuffix(pk.Path(), "internal/helpers")) {
					continue
				}
				for _, qs := range quoteScanners(fn) {
					lb := loopBlocks(qs.header)
					isFlag := func(v ssa.Value) bool {
						for _, f := range qs.flags {
							if v == ssa.Value(f) {
								return true
							}
						}
						return false
					}
					flagOff := func(cond ssa.Value, want bool) bool { return isFlag(cond) && !want }
					under := func(b *ssa.BasicBlock, accept func(ssa.Value, bool) bool) bool {
						return enteredOnlyUnder(b, accept) || everyPathCrosses(b, accept)
					}
					// (a) closing
					for _, f := range qs.flags {
						for _, lf := range phiLeaves(f, lb) {
							if !lf.inLoop {
								continue
							}
							closes := false
							if k, ok := lf.val.(*ssa.Const); ok && !constant.BoolVal(k.Value) {
								closes = true
							}
							if u, ok := lf.val.(*ssa.UnOp); ok && u.Op == token.NOT {
								closes = true
							}
							if !closes {
								continue
							}
							n++
							what := fmt.Sprintf("%s: the quote flag %s is switched off only by the opening character#%d", shortName(fn), f.Comment, n)
							if len(qs.flags) >= len(qs.quotes) {
								c.ok(what, p.pos(qs.header.Instrs[0].Pos()), "one flag per quote character")
								continue
							}
							byOpener := under(lf.from, func(cond ssa.Value, want bool) bool {
								b := eqOnEdge(cond, want)
								if b == nil {
									return false
								}
								_, xc := b.X.(*ssa.Const)
								_, yc := b.Y.(*ssa.Const)
								return !xc && !yc
							})
							c.check(byOpener, what, p.instrPos(lf.from.Instrs[len(lf.from.Instrs)-1]), "closed under `ch == opener`", "the scanner serves "+fmt.Sprint(len(qs.quotes))+" quote characters with one flag and leaves the quoted state on any of them: in `'it\"s, ok'` the double quote ends the single-quoted string, and the comma after it cuts the literal in two")
						}
					}
					// (b) structure only outside quotes
					for _, b := range fn.Blocks {
						if !lb[b] {
							continue
						}
						for _, in := range b.Instrs {
							desc := ""
							switch x := in.(type) {
							case *ssa.BinOp:
								if x.Op != token.ADD && x.Op != token.SUB {
									continue
								}
								if bt, ok := x.Type().Underlying().(*types.Basic); !ok || bt.Info()&types.IsInteger == 0 {
									continue
								}
								if _, ok := constInt(x.Y); !ok {
									continue
								}
								ph, ok := x.X.(*ssa.Phi)
								if !ok || !lb[ph.Block()] {
									continue
								}
								// the loop's own index is not a depth counter
								if x.Referrers() != nil {
									idx := false
									for _, r := range *x.Referrers() {
										if rp, ok := r.(*ssa.Phi); ok && rp == ph && x.Block().Dominates(qs.header.Preds[len(qs.header.Preds)-1]) && len(*x.Referrers()) == 1 && b == qs.header.Preds[len(qs.header.Preds)-1] {
											idx = true
										}
									}
									if idx {
										continue
									}
								}
								desc = "the depth counter " + ph.Comment + " changes"
							case *ssa.Call:
								if bi, ok := x.Call.Value.(*ssa.Builtin); !ok || bi.Name() != "append" {
									continue
								}
								desc = "an item is cut off (append)"
							default:
								continue
							}
							n++
							c.check(under(b, flagOff), fmt.Sprintf("%s: %s only outside quotes#%d", shortName(fn), desc, n), p.instrPos(in), "under !"+qs.flags[0].Comment, "inside a quoted string the scanner still treats the character as structure: "+desc+" although the quote flag may be on, so a bracket or comma that is part of a string literal changes how the argument list / object literal is split")
						}
					}
				}
			}
			if n == 0 {
				undecided("no quote-aware scanner found")
			}
		},
	})
}

func init() {
	register(&Rule{
		ID: "C13.R19", Props: []string{"C13", "C14"}, Min: 1,
		Doc: "the empty text is not an expression: the predicate that sends a value position's text either to the scope lookup or to the evaluators (IsVariablePath) answers `path` for the empty string, so `{{ }}`, `:title=\"\"` and `:class=\"\"` have no value (nothing rendered, attribute omitted) instead of failing the render in the compiler with `unexpected token EOF`",
		Run: func(p *Prog, c *Ctx) {
			fn := p.MustFn("helpers.IsVariablePath")
			if len(fn.Params) == 0 {
				undecided("IsVariablePath has no parameter")
			}
			prm := fn.Params[0]
			isEmptyTest := func(cond ssa.Value, want bool) bool {
				op, x, y, ok := relationOnEdge(cond, want)
				if !ok {
					return false
				}
				fromPrm := func(v ssa.Value) bool {
					if v == ssa.Value(prm) {
						return true
					}
					if cl, ok := v.(*ssa.Call); ok {
						if bi, ok := cl.Call.Value.(*ssa.Builtin); ok && bi.Name() == "len" && cl.Call.Args[0] == ssa.Value(prm) {
							return true
						}
					}
					return false
				}
				isZero := func(v ssa.Value) bool {
					if s, ok := constString(v); ok && s == "" {
						return true
					}
					k, ok := constInt(v)
					return ok && k == 0
				}
				switch op {
				case token.EQL:
					return fromPrm(x) && isZero(y) || fromPrm(y) && isZero(x)
				case token.LEQ:
					return fromPrm(x) && isZero(y)
				case token.LSS:
					k, ok := constInt(y)
					return fromPrm(x) && ok && k == 1
				}
				return false
			}
			n := 0
			for _, r := range returnsOf(fn) {
				if !enteredOnlyUnder(r.Block(), isEmptyTest) {
					continue
				}
				n++
				k, ok := r.Results[0].(*ssa.Const)
				c.check(ok && constant.BoolVal(k.Value), fmt.Sprintf("IsVariablePath: the empty text has no value#%d", n), p.instrPos(r), "returns true for \"\"", "the empty string is classified as an expression: every value position hands it to the evaluator, whose compiler rejects it — `{{ }}` and `:title=\"\"` fail the whole render instead of rendering nothing")
			}
			if n == 0 {
				// no test of its own: the scan loop does not run and the tail return decides
				for _, r := range returnsOf(fn) {
					if loopHeaderOf(r.Block()) != nil {
						continue
					}
					if k, ok := r.Results[0].(*ssa.Const); ok {
						n++
						c.check(constant.BoolVal(k.Value), fmt.Sprintf("IsVariablePath: the empty text has no value#%d", n), p.instrPos(r), "the scan of an empty string falls through to `return true`", "the empty string is classified as an expression and fails in the compiler")
					}
				}
			}
			if n == 0 {
				undecided("IsVariablePath: no return for the empty text found")
			}
		},
	})
}

// fmtPrintsValue: a call into fmt's printer family whose operand list contains v is a recursive walk over v.
func fmtPrinter(name string) bool {
	switch name {
	case "fmt.Sprint", "fmt.Sprintf", "fmt.Sprintln", "fmt.Fprint", "fmt.Fprintf", "fmt.Fprintln", "fmt.Errorf", "fmt.Appendf", "fmt.Append", "fmt.Print", "fmt.Printf", "fmt.Println":
		return true
	}
	return false
}

// printedOperands returns the values a fmt call formats (the elements stored into its variadic slice), each
// with the verb that formats it when the call has a constant format string ("v" for the Sprint family).
type printedOperand struct {
	val  ssa.Value
	verb byte
}

func printedOperands(site ssa.CallInstruction) []printedOperand {
	args := site.Common().Args
	if len(args) == 0 {
		return nil
	}
	last := args[len(args)-1]
	sl, ok := last.(*ssa.Slice)
	if !ok {
		return nil
	}
	al, ok := sl.X.(*ssa.Alloc)
	if !ok || al.Referrers() == nil {
		return nil
	}
	// the verbs of a constant format, in operand order (explicit argument indexes are not used in this module)
	var verbs []byte
	known := false
	for _, a := range args[:len(args)-1] {
		if f, ok := constString(a); ok && strings.Contains(calleeName(site.Common()), "f") {
			known = true
			for i := 0; i < len(f); i++ {
				if f[i] != '%' {
					continue
				}
				i++
				for i < len(f) && strings.IndexByte("+-# 0123456789.*[]", f[i]) >= 0 {
					i++
				}
				if i < len(f) && f[i] != '%' {
					verbs = append(verbs, f[i])
				}
			}
		}
	}
	var out []printedOperand
	for _, r := range *al.Referrers() {
		ia, ok := r.(*ssa.IndexAddr)
		if !ok || ia.Referrers() == nil {
			continue
		}
		idx, isK := constInt(ia.Index)
		for _, u := range *ia.Referrers() {
			if st, ok := u.(*ssa.Store); ok && st.Addr == ssa.Value(ia) {
				verb := byte('v')
				if known && isK && int(idx) < len(verbs) {
					verb = verbs[idx]
				}
				out = append(out, printedOperand{st.Val, verb})
			}
		}
	}
	return out
}

func init() {
	register(&Rule{
		ID: "C11.R11", Props: []string{"C11"}, Min: 8,
		Doc: "data is never handed to fmt's recursive printer unguarded: fmt walks maps, slices and interfaces without a visited set, so a value that contains itself (m[\"self\"] = m, s[1] = s) recurses until the stack is exhausted — a fatal error no recover catches. Every fmt print of a value whose static type is an interface other than error (a data value: its dynamic type is the caller's) happens either under the module's cycle guard (the operand went through the guard predicate on every path, as in helpers.Sprint) or on an edge where a type switch / assertion has established a basic dynamic type",
		Run: func(p *Prog, c *Ctx) {
			guards, _ := p.hostsOf("helpers.IsCyclic")
			isGuard := func(fn *ssa.Function) bool {
				for _, g := range guards {
					if fn == g {
						return true
					}
				}
				return false
			}
			n := 0
			for _, fn := range p.Funcs {
				if p.Dropped[fn] || !inModule(fn) {
					continue
				}
				pk := funcPkg(fn)
				if pk == nil || strings.HasSuffix(pk.Path(), "/cmd/vuego") || strings.Contains(pk.Path(), "/cmd/") || strings.Contains(pk.Path(), "/internal/ulid") {
					continue
				}
				for _, site := range callsIn(fn) {
					if !fmtPrinter(calleeName(site.Common())) {
						continue
					}
					for _, po := range printedOperands(site) {
						op := po.val
						if po.verb == 'T' || po.verb == 'p' {
							continue // the type / the address: the value is not walked
						}
						if ci, ok := op.(*ssa.ChangeInterface); ok {
							op = ci.X
						}
						mi, ok := op.(*ssa.MakeInterface)
						var dyn ssa.Value = op
						if ok {
							// a concrete value boxed for the call: only composite types that can hold themselves matter
							// (a reflect.Value is printed as the value it holds: whatever the caller's data is)
							if !canHoldItself(mi.X.Type(), 0) && !isNamed(mi.X.Type(), "reflect", "Value") {
								continue
							}
							dyn = mi.X
						} else if !types.IsInterface(op.Type()) || isErrorType(op.Type()) || describesItself(op.Type()) {
							continue
						}
						if _, isConst := dyn.(*ssa.Const); isConst {
							continue
						}
						// what recover() returned is the argument of a panic — a runtime error or a message of the
						// code that panicked, not a value of the caller's data
						recovered := false
						for _, o := range p.origins(dyn, OriginOpts{}) {
							if cl, ok := o.(*ssa.Call); ok {
								if bi, ok := cl.Call.Value.(*ssa.Builtin); ok && bi.Name() == "recover" {
									recovered = true
								}
							}
						}
						if recovered {
							continue
						}
						n++
						what := fmt.Sprintf("%s: %s of a data value#%d", shortName(fn), strings.TrimPrefix(calleeName(site.Common()), "fmt."), n)
						// (a) a basic dynamic type is established on every path
						basic := func(cond ssa.Value, want bool) bool {
							ex, ok := cond.(*ssa.Extract)
							if !ok || ex.Index != 1 || !want {
								return false
							}
							ta, ok := ex.Tuple.(*ssa.TypeAssert)
							if !ok || !sameBoxed(ta.X, dyn) {
								return false
							}
							return !canHoldItself(ta.AssertedType, 0)
						}
						if ta, ok := dyn.(*ssa.Extract); ok {
							if t, ok := ta.Tuple.(*ssa.TypeAssert); ok && !canHoldItself(t.AssertedType, 0) {
								c.ok(what, p.instrPos(site), "operand has a basic dynamic type (type assertion)")
								continue
							}
						}
						if enteredOnlyUnder(site.Block(), basic) || everyPathCrosses(site.Block(), basic) {
							c.ok(what, p.instrPos(site), "operand has a basic dynamic type (type switch)")
							continue
						}
						// (b) the cycle guard answered "no" for this operand on every path
						guarded := func(cond ssa.Value, want bool) bool {
							cl, ok := cond.(*ssa.Call)
							if !ok || want {
								return false
							}
							callee := cl.Call.StaticCallee()
							if callee == nil || !isGuard(callee) {
								return false
							}
							for _, a := range cl.Call.Args {
								if sameBoxed(a, dyn) {
									return true
								}
							}
							return false
						}
						if len(guards) > 0 && (enteredOnlyUnder(site.Block(), guarded) || everyPathCrosses(site.Block(), guarded)) {
							c.ok(what, p.instrPos(site), "under the cycle guard")
							continue
						}
						c.fail(what, p.instrPos(site), "the value is formatted by fmt without the cycle guard and without a basic dynamic type: a map or slice that (directly or through nested values) contains itself makes fmt recurse until the goroutine's stack limit is hit, which terminates the process — the render call never returns and no recover applies")
					}
				}
			}
		},
	})
}

// describesItself: every value of this interface type has a String or Error method, which fmt calls instead of walking
// the value (reflect.Type, fmt.Stringer, …).
func describesItself(t types.Type) bool {
	it, ok := t.Underlying().(*types.Interface)
	if !ok {
		return false
	}
	for i := 0; i < it.NumMethods(); i++ {
		m := it.Method(i)
		sig := m.Type().(*types.Signature)
		if (m.Name() == "String" || m.Name() == "Error") && sig.Params().Len() == 0 && sig.Results().Len() == 1 && isString(sig.Results().At(0).Type()) {
			return true
		}
	}
	return false
}

// canHoldItself: values of this type can contain (a reference to) themselves through maps, slices or interfaces.
func canHoldItself(t types.Type, depth int) bool {
	if depth > 6 {
		return true
	}
	switch u := t.Underlying().(type) {
	case *types.Basic:
		return false
	case *types.Interface:
		return !isErrorType(t)
	case *types.Map:
		return canHoldItself(u.Elem(), depth+1) || canHoldItself(u.Key(), depth+1)
	case *types.Slice:
		return canHoldItself(u.Elem(), depth+1)
	case *types.Array:
		return canHoldItself(u.Elem(), depth+1)
	case *types.Pointer:
		// fmt prints nested pointers as addresses; at top level it follows one level
		return canHoldItself(u.Elem(), depth+1)
	case *types.Struct:
		for i := 0; i < u.NumFields(); i++ {
			if canHoldItself(u.Field(i).Type(), depth+1) {
				return true
			}
		}
		return false
	}
	return false
}

// sameBoxed: a and b are the same SSA value, looking through interface boxing and type changes.
func sameBoxed(a, b ssa.Value) bool {
	strip := func(v ssa.Value) ssa.Value {
		for {
			switch x := v.(type) {
			case *ssa.MakeInterface:
				v = x.X
			case *ssa.ChangeInterface:
				v = x.X
			case *ssa.ChangeType:
				v = x.X
			default:
				return v
			}
		}
	}
	return sameValue(strip(a), strip(b))
}

// typeOfBasic: v is reflect.TypeOf(<constant of a basic type>), directly or through a package variable that is
// only ever assigned such a value.
func (p *Prog) typeOfBasic(v ssa.Value) (string, bool) {
	isCall := func(x ssa.Value) (string, bool) {
		cl, ok := x.(*ssa.Call)
		if !ok || calleeName(&cl.Call) != "reflect.TypeOf" || len(cl.Call.Args) != 1 {
			return "", false
		}
		arg := cl.Call.Args[0]
		if mi, ok := arg.(*ssa.MakeInterface); ok {
			arg = mi.X
		}
		if _, ok := arg.(*ssa.Const); !ok {
			return "", false
		}
		if b, ok := arg.Type().Underlying().(*types.Basic); ok && arg.Type() == types.Type(b) {
			return b.Name(), true
		}
		return "", false
	}
	if n, ok := isCall(v); ok {
		return n, true
	}
	ld, ok := v.(*ssa.UnOp)
	if !ok || ld.Op != token.MUL {
		return "", false
	}
	g, ok := ld.X.(*ssa.Global)
	if !ok {
		return "", false
	}
	name, found := "", false
	for _, fn := range p.Funcs {
		bad := false
		eachInstr(fn, func(in ssa.Instruction) {
			st, ok := in.(*ssa.Store)
			if !ok || st.Addr != ssa.Value(g) {
				return
			}
			if n, ok := isCall(st.Val); ok {
				name, found = n, true
			} else {
				bad = true
			}
		})
		if bad {
			return "", false
		}
	}
	if !found && g.Pkg != nil {
		if init := g.Pkg.Func("init"); init != nil {
			walkFuncTree(init, func(f *ssa.Function) {
				eachInstr(f, func(in ssa.Instruction) {
					if st, ok := in.(*ssa.Store); ok && st.Addr == ssa.Value(g) {
						if n, ok := isCall(st.Val); ok {
							name, found = n, true
						}
					}
				})
			})
			for _, site := range callsIn(init) {
				if callee := site.Common().StaticCallee(); callee != nil && strings.HasPrefix(callee.Name(), "init#") {
					eachInstr(callee, func(in ssa.Instruction) {
						if st, ok := in.(*ssa.Store); ok && st.Addr == ssa.Value(g) {
							if n, ok := isCall(st.Val); ok {
								name, found = n, true
							}
						}
					})
				}
			}
		}
	}
	return name, found
}

func init() {
	register(&Rule{
		ID: "C17.R12", Props: []string{"C17", "C08", "C03"}, Min: 1,
		Doc: "the shape of data is decided by Kind, not by type identity: nowhere in the module is a reflect.Type compared (==, !=) with the type of a basic value (reflect.TypeOf(\"\"), reflect.TypeOf(0), …) — a named type (type Lang string; map[Lang]T, type Count int) has the same kind and a different identity, so such a comparison silently treats it as `something else`: a path into a map keyed by a named string type finds nothing, a named number is not a number. (Comparing with the type of a module struct or pointer, as the function caller does for *VueContext, is identity on purpose)",
		Run: func(p *Prog, c *Ctx) {
			n := 0
			scanned := 0
			for _, fn := range p.Funcs {
				if p.Dropped[fn] || !inModule(fn) {
					continue
				}
				eachInstr(fn, func(in ssa.Instruction) {
					b, ok := in.(*ssa.BinOp)
					if !ok || (b.Op != token.EQL && b.Op != token.NEQ) {
						return
					}
					if pk, nm := namedType(b.X.Type()); pk != "reflect" || nm != "Type" {
						return
					}
					scanned++
					for _, side := range []ssa.Value{b.X, b.Y} {
						if basic, ok := p.typeOfBasic(side); ok {
							n++
							c.fail(fmt.Sprintf("%s: type identity with %s#%d", shortName(fn), basic, n), p.instrPos(b), "a reflect.Type is compared with the type of a plain "+basic+": values of a named type of the same kind (type Lang string) fail the comparison although they are "+basic+"s for every purpose of the property — test Kind() instead")
							return
						}
					}
					n++
					c.ok(fmt.Sprintf("%s: type comparison#%d", shortName(fn), n), p.instrPos(b), "identity with a non-basic type")
				})
			}
			// the rule's expected violation count is zero: record what was scanned
			c.ok("scan", "-", fmt.Sprintf("%d reflect.Type comparisons in %d functions", scanned, len(p.Funcs)))
		},
	})

	register(&Rule{
		ID: "C14.R12", Props: []string{"C14"}, Min: 1,
		Doc: "classes are tokens: where the evaluator merges or builds a class attribute (the branch taken for the attribute name \"class\", and the class-string builders), no substring search (strings.Contains / Index / LastIndex / Count / HasPrefix / HasSuffix / EqualFold on a part) decides whether a class is present — `btn` is a substring of `btn-primary` and not one of its classes; bound classes are appended (or compared token by token)",
		Run: func(p *Prog, c *Ctx) {
			substr := map[string]bool{"strings.Contains": true, "strings.Index": true, "strings.LastIndex": true, "strings.Count": true, "strings.HasPrefix": true, "strings.HasSuffix": true, "strings.ContainsAny": true}
			isClassEdge := func(cond ssa.Value, want bool) bool {
				b := eqOnEdge(cond, want)
				if b == nil {
					return false
				}
				for _, o := range []ssa.Value{b.X, b.Y} {
					if s, ok := constString(o); ok && s == "class" {
						return true
					}
				}
				return false
			}
			n := 0
			for _, name := range []string{"(*vuego.Vue).evalAttributes", "(*vuego.Vue).evalObjectBinding", "(*vuego.Vue).buildClassString"} {
				fns, _ := p.hostsOf(name)
				for _, fn := range fns {
					whole := strings.Contains(name, "buildClassString")
					for _, site := range callsIn(fn) {
						if !substr[calleeName(site.Common())] {
							continue
						}
						if !whole && !(enteredOnlyUnder(site.Block(), isClassEdge) || everyPathCrosses(site.Block(), isClassEdge)) {
							continue
						}
						// a test of the attribute's *name* (":class", "v-bind:") is not a test of its classes
						nameTest := false
						for _, a := range site.Common().Args[1:] {
							if s, ok := constString(a); ok && (strings.HasPrefix(s, ":") || strings.HasPrefix(s, "v-") || s == "{" || s == "}" || s == "[" || s == "]") {
								nameTest = true
							}
						}
						if nameTest {
							continue
						}
						n++
						c.fail(fmt.Sprintf("%s: class membership by substring#%d", shortName(fn), n), p.instrPos(site), "whether a class is already present is decided with "+calleeName(site.Common())+" on the attribute text: a bound class that is a substring of another class (btn / btn-primary, active / inactive) is taken for present and left out")
					}
				}
			}
			c.ok("scan", "-", "class branches of evalAttributes / evalObjectBinding / buildClassString scanned for substring tests")
		},
	})

	register(&Rule{
		ID: "C04.R11", Props: []string{"C04", "C03"}, Min: 1,
		Doc: "an instance is the looped element minus its v-for: the only attribute evalFor removes from the per-item copy it hands to evaluate is v-for. Everything else the element carries — v-if, a chain directive, v-once, bindings — is evaluated per item by the one element path; a copy stripped of v-else-if / v-else is rendered without its chain ever being consulted, one stripped of v-if ignores the condition",
		Run: func(p *Prog, c *Ctx) {
			fns, _ := p.hostsOf("(*vuego.Vue).evalFor")
			n := 0
			for _, root := range fns {
				walkFuncTree(root, func(fn *ssa.Function) {
					for _, site := range callsIn(fn) {
						if calleeName(site.Common()) != "helpers.RemoveAttr" || len(site.Common().Args) < 2 {
							continue
						}
						n++
						k, ok := constString(site.Common().Args[1])
						c.check(ok && k == "v-for", fmt.Sprintf("evalFor: the per-item copy loses only v-for#%d", n), p.instrPos(site), "RemoveAttr(copy, \"v-for\")", "the per-item copy is stripped of "+fmt.Sprintf("%q", k)+" as well: the directive is then never evaluated for the instances (a looping v-else-if / v-else member is rendered whatever its chain selected; a v-if on the looped element is ignored)")
					}
				})
			}
			// the copy may be stripped by other means (a filtered attribute list): nothing to judge then
			c.ok("scan", "-", fmt.Sprintf("%d RemoveAttr calls in evalFor and its closures", n))
		},
	})
}

func init() {
	register(&Rule{
		ID: "C02.R11", Props: []string{"C02", "C19"}, Min: 3,
		Doc: "a template is parsed as source, not as a page in a scripting browser: every call that parses template or formatter input with golang.org/x/net/html passes html.ParseOptionEnableScripting(false). With scripting on (the parser's default) the content of <noscript> is one text node, which the serialiser and the formatter escape: `<noscript><img src=…></noscript>` comes out as `&lt;img …&gt;` and is escaped once more by every formatter pass; with scripting off it is the markup it looks like, evaluated and written like any other element. (Parses of constants — the cached body context — and the diff helpers are not template input)",
		Run: func(p *Prog, c *Ctx) {
			n := 0
			for _, fn := range p.Funcs {
				if p.Dropped[fn] || !inModule(fn) {
					continue
				}
				pk := funcPkg(fn)
				if pk == nil || !(strings.HasSuffix(pk.Path(), "internal/parser") || pk.Path() == formatterPkg) {
					continue
				}
				for _, site := range callsIn(fn) {
					nm := calleeName(site.Common())
					if !strings.HasPrefix(nm, "golang.org/x/net/html.Parse") || strings.Contains(nm, "ParseOption") {
						continue
					}
					n++
					off := false
					if strings.HasSuffix(nm, "WithOptions") {
						args := site.Common().Args
						// the options: elements of the variadic slice, or the slice handed through
						var opts []ssa.Value
						if sl, ok := args[len(args)-1].(*ssa.Slice); ok {
							if al, ok := sl.X.(*ssa.Alloc); ok && al.Referrers() != nil {
								for _, r := range *al.Referrers() {
									if ia, ok := r.(*ssa.IndexAddr); ok && ia.Referrers() != nil {
										for _, u := range *ia.Referrers() {
											if st, ok := u.(*ssa.Store); ok {
												opts = append(opts, st.Val)
											}
										}
									}
								}
							}
						}
						for _, o := range opts {
							for _, org := range p.origins(o, OriginOpts{}) {
								if cl, ok := org.(*ssa.Call); ok && calleeName(&cl.Call) == "golang.org/x/net/html.ParseOptionEnableScripting" {
									if k, ok := cl.Call.Args[0].(*ssa.Const); ok && !constant.BoolVal(k.Value) {
										off = true
									}
								}
							}
						}
					}
					c.check(off, fmt.Sprintf("%s: %s without scripting#%d", shortName(fn), nm[strings.LastIndex(nm, ".")+1:], n), p.instrPos(site), "ParseOptionEnableScripting(false)", "the input is parsed with scripting enabled (the default): everything inside <noscript> becomes one text node and is written escaped — markup a browser without scripting should see arrives as text, and the formatter escapes it again on every pass")
				}
			}
		},
	})

	register(&Rule{
		ID: "C19.R14", Props: []string{"C19"}, Min: 6,
		Doc: "what the parser reads as raw text the formatter writes as raw text: for each element whose content the HTML parser hands over undecoded (script, style, xmp, iframe, noembed, noframes) the formatter's element switch reaches the verbatim writer (formatRawTextElement) and not the escaping text path — escaping undecoded text changes it, and changes it again on every pass",
		Run: func(p *Prog, c *Ctx) {
			fn := p.MustFn("(*formatter.Formatter).formatNode")
			var raw []ssa.CallInstruction
			for _, site := range callsIn(fn) {
				if strings.HasSuffix(calleeName(site.Common()), ").formatRawTextElement") {
					raw = append(raw, site)
				}
			}
			if len(raw) == 0 {
				undecided("formatNode does not call formatRawTextElement")
			}
			for _, tag := range []string{"script", "style", "xmp", "iframe", "noembed", "noframes"} {
				reach := false
				for _, site := range raw {
					if reachableAssuming(site.Block(), func(cond ssa.Value) (bool, bool) {
						// comparisons of a node's tag name with a constant, or membership in a constant set
						if b, ok := cond.(*ssa.BinOp); ok && (b.Op == token.EQL || b.Op == token.NEQ) {
							for _, pair := range [][2]ssa.Value{{b.X, b.Y}, {b.Y, b.X}} {
								if s, ok := constString(pair[1]); ok {
									if f := loadedField(pair[0]); f != nil && fieldIs(f, "Data") {
										return (s == tag) == (b.Op == token.EQL), true
									}
								}
							}
						}
						if x, set, member, ok := inSetOnEdge(cond, true); ok {
							if f := loadedField(x); f != nil && fieldIs(f, "Data") {
								in := false
								for _, s := range set {
									if s == tag {
										in = true
									}
								}
								return in == member, true
							}
						}
						return false, false
					}) {
						reach = true
					}
				}
				c.check(reach, "formatNode: <"+tag+"> is written verbatim", p.pos(fn.Pos()), "reaches formatRawTextElement", "the content of <"+tag+"> (raw text for the parser: entities are not decoded, tags are not recognised) goes through the escaping text path: `<"+tag+"><b>x</b></"+tag+">` becomes &lt;b&gt;… and &amp;lt;b&amp;gt;… on the next pass")
			}
		},
	})

	register(&Rule{
		ID: "C18.R9", Props: []string{"C18"}, Min: 1,
		Doc: "a path present in no layer reports not-exist, for listings too: OverlayFS.ReadDir returns a listing (nil error) only when some layer answered — or for the root of an overlay that has no layer at all, which is an empty filesystem. Any other path with no layer to ask is an error, not an empty directory",
		Run: func(p *Prog, c *Ctx) {
			fn := p.MustFn("(*vuego.OverlayFS).ReadDir")
			n := 0
			for _, r := range returnsOf(fn) {
				if len(r.Results) != 2 || !isNilConst(r.Results[1]) {
					continue
				}
				n++
				// on every path to the success return: a layer answered (the `found` flag, set where a
				// layer's listing came back without error) or the name was compared with "."
				answered := func(cond ssa.Value, want bool) bool {
					if ph, ok := cond.(*ssa.Phi); ok && want {
						if bt, ok := ph.Type().Underlying().(*types.Basic); ok && bt.Kind() == types.Bool {
							return true
						}
					}
					if b := eqOnEdge(cond, want); b != nil {
						for _, o := range []ssa.Value{b.X, b.Y} {
							if s, ok := constString(o); ok && s == "." {
								return true
							}
						}
					}
					return false
				}
				ok := enteredOnlyUnder(r.Block(), answered) || everyPathCrosses(r.Block(), answered)
				c.check(ok, fmt.Sprintf("ReadDir: a listing only when a layer answered#%d", n), p.instrPos(r), "found, or the root of an empty overlay", "ReadDir returns a listing without an error although no layer was asked: NewOverlayFS(nil).ReadDir(\"no/such/dir\") is an empty directory while Open of the same path reports not-exist")
			}
			if n == 0 {
				undecided("ReadDir has no success return")
			}
		},
	})
}

// parsesConstant: every html.Parse / ParseFragment call in fn reads from a reader over a constant string (the
// wrapper document of the cached <body> element, wherever its initialiser lives: a sync.Once callback, a
// sync.OnceValue closure of the package initialiser): not template source.
func parsesConstant(p *Prog, fn *ssa.Function) bool {
	n, ok := 0, true
	for _, site := range callsIn(fn) {
		nm := calleeName(site.Common())
		if !strings.Contains(nm, "net/html.Parse") {
			continue
		}
		n++
		isConst := false
		for _, o := range append(p.origins(site.Common().Args[0], OriginOpts{}), site.Common().Args[0]) {
			if mi, isMI := o.(*ssa.MakeInterface); isMI {
				o = mi.X
			}
			if cl, isCall := o.(*ssa.Call); isCall && (calleeName(&cl.Call) == "strings.NewReader" || calleeName(&cl.Call) == "bytes.NewReader" || calleeName(&cl.Call) == "bytes.NewBufferString") {
				v := cl.Call.Args[0]
				if cv, isConv := v.(*ssa.Convert); isConv {
					v = cv.X
				}
				if _, isK := constString(v); isK {
					isConst = true
				}
			}
		}
		if !isConst {
			ok = false
		}
	}
	return n > 0 && ok
}

// startedWithGo: the closure is the operand of a `go` statement of its parent (it runs in a goroutine of its own:
// a deferred recover of the parent does not cover it).
func startedWithGo(f *ssa.Function) bool {
	par := f.Parent()
	if par == nil {
		return false
	}
	found := false
	eachInstr(par, func(in ssa.Instruction) {
		g, ok := in.(*ssa.Go)
		if !ok {
			return
		}
		switch v := g.Call.Value.(type) {
		case *ssa.MakeClosure:
			if v.Fn == ssa.Value(f) {
				found = true
			}
		case *ssa.Function:
			if v == f {
				found = true
			}
		}
	})
	return found
}

// evictsAlways: every way through the function deletes from the template cache — directly, or by calling (on every
// way) a module function that does (a local `failed(err)` closure that calls forgetTemplate). A compare-and-delete
// leaves the previous revision's entry in place and does not count.
func evictsAlways(fn *ssa.Function, depth int) bool {
	if depth > 3 || len(fn.Blocks) == 0 {
		return false
	}
	via := map[ssa.Instruction]bool{}
	eachInstr(fn, func(in ssa.Instruction) {
		cs, ok := in.(ssa.CallInstruction)
		if !ok {
			return
		}
		if b, ok := cs.Common().Value.(*ssa.Builtin); ok && b.Name() == "delete" {
			if f := loadedField(cs.Common().Args[0]); f != nil && fieldIs(f, "templateCache") {
				via[in] = true
			}
			return
		}
		if callee := cs.Common().StaticCallee(); callee != nil && inModule(callee) && callee != fn && evictsAlways(callee, depth+1) {
			via[in] = true
		}
	})
	if len(via) == 0 {
		return false
	}
	for _, r := range returnsOf(fn) {
		if !mustPassBefore(fn, r, via) {
			return false
		}
	}
	return true
}
