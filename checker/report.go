package main

import (
	"encoding/json"
	"fmt"
	"os"
	"path/filepath"
	"sort"
	"strings"
)

// Obligation is one construct a rule examined, with its verdict.
type Obligation struct {
	Rule   string   `json:"rule"`
	Key    string   `json:"key"` // rule-local construct key (function + role), never a line number
	Pos    string   `json:"pos"`
	OK     bool     `json:"ok"`
	Msg    string   `json:"msg"`
	Path   []string `json:"path,omitempty"`
	Status string   `json:"status,omitempty"` // discharged | violation | known-finding
}

// Rule is one static rule; Run appends obligations through the Ctx.
type Rule struct {
	ID    string
	Props []string // properties it is reported under
	Min   int      // hand-confirmed minimum number of instances on a tree that has the construct at all
	Doc   string
	Tier  string // "" = quick+thorough, "thorough" = thorough only
	Local bool   // the rule decides from one loop or statement of whatever function holds it (closures and iterators included): its reports are not withdrawn for functions of an opaque shape
	Run   func(p *Prog, c *Ctx)
}

// Ctx collects a rule's obligations.
type Ctx struct {
	rule  *Rule
	obs   []Obligation
	notes []string
	tier  string
}

func (c *Ctx) ok(key, pos, msg string) {
	c.obs = append(c.obs, Obligation{Rule: c.rule.ID, Key: key, Pos: pos, OK: true, Msg: msg})
}

func (c *Ctx) fail(key, pos, msg string, path ...string) {
	c.obs = append(c.obs, Obligation{Rule: c.rule.ID, Key: key, Pos: pos, OK: false, Msg: msg, Path: path})
}

func (c *Ctx) check(cond bool, key, pos, okMsg, failMsg string, path ...string) {
	if cond {
		c.ok(key, pos, okMsg)
	} else {
		c.fail(key, pos, failMsg, path...)
	}
}

func (c *Ctx) note(format string, a ...any) { c.notes = append(c.notes, fmt.Sprintf(format, a...)) }

// KnownFinding is an entry of /verif/known_findings.json.
type KnownFinding struct {
	Property string `json:"property"`
	Rule     string `json:"rule"`
	Key      string `json:"key"`
	Status   string `json:"status"` // "open" suppresses exactly this rule+key; "fixed" suppresses nothing
	What     string `json:"what"`
	Commit   string `json:"commit,omitempty"`
	Line     string `json:"line,omitempty"` // the "fixed: property=<id> <commit> <what failed>" record
}

type knownFile struct {
	Findings []KnownFinding `json:"findings"`
}

func loadKnown(path string) []KnownFinding {
	b, err := os.ReadFile(path)
	if err != nil {
		return nil
	}
	var kf knownFile
	if err := json.Unmarshal(b, &kf); err != nil {
		undecided("known_findings.json does not parse: %v", err)
	}
	return kf.Findings
}

// RuleResult is what one rule produced in this run.
type RuleResult struct {
	Rule      string       `json:"rule"`
	Doc       string       `json:"doc"`
	Instances int          `json:"instances"`
	Min       int          `json:"min_instances"`
	Failed    int          `json:"failed"`
	Notes     []string     `json:"notes,omitempty"`
	Undecided string       `json:"undecided,omitempty"`
	Obs       []Obligation `json:"-"`
}

type evidence struct {
	PropertyID  string         `json:"property_id"`
	Tier        string         `json:"tier"`
	Seed        int            `json:"seed"`
	Level       string         `json:"level"`
	Coverage    map[string]any `json:"coverage"`
	Assumptions []string       `json:"assumptions"`
	WallS       float64        `json:"wall_s"`
	Violations  int            `json:"violations"`
}

func writeJSON(path string, v any) {
	b, err := json.MarshalIndent(v, "", " ")
	if err != nil {
		undecided("marshal %s: %v", path, err)
	}
	if err := os.MkdirAll(filepath.Dir(path), 0o755); err != nil {
		undecided("mkdir: %v", err)
	}
	if err := os.WriteFile(path, append(b, '\n'), 0o644); err != nil {
		undecided("write %s: %v", path, err)
	}
}

func sortObs(obs []Obligation) {
	sort.SliceStable(obs, func(i, j int) bool {
		if obs[i].Rule != obs[j].Rule {
			return obs[i].Rule < obs[j].Rule
		}
		return obs[i].Key < obs[j].Key
	})
}

func safeName(s string) string {
	r := strings.NewReplacer("/", "_", " ", "_", "(", "", ")", "", "*", "", "$", "_", ":", "_", "#", "_", "\"", "", "'", "", "<", "", ">", "", "|", "_", "[", "", "]", "", ",", "_", "=", "_")
	s = r.Replace(s)
	if len(s) > 100 {
		s = s[:100]
	}
	return s
}
