package main

import (
	"fmt"
	"go/token"
	"go/types"
	"strings"

	"golang.org/x/tools/go/ssa"
)

// Rules that came with the eleventh seeding round.

func init() {
	register(&Rule{
		ID: "C01.R13", Props: []string{"C01", "C02"}, Min: 1,
		Doc: "the serialiser's idea of `inside <script> / <style>` ends with the element: renderNodeWithContext either works on its own copy of the context (it takes VueContext by value: a tag pushed for the children is gone when the call returns), or — if it shares one context through a pointer — every PushTag is followed by a PopTag on every way out, the early return of the v-html / v-text branch included. A tag left on a shared stack makes CurrentTag() answer `script` for the text that follows the element: that text is then written without escaping, and a value in it arrives as live markup",
		Run: func(p *Prog, c *Ctx) {
			fn := p.MustFn("vuego.renderNodeWithContext")
			byPointer := false
			for _, prm := range fn.Params {
				if pt, ok := prm.Type().(*types.Pointer); ok && isNamed(pt.Elem(), modPath, "VueContext") {
					byPointer = true
				}
			}
			if !byPointer {
				c.ok("renderNodeWithContext: the tag stack is per call", p.pos(fn.Pos()), "the context is taken by value")
				return
			}
			pops := map[ssa.Instruction]bool{}
			var pushes []ssa.Instruction
			for _, site := range callsIn(fn) {
				nm := calleeName(site.Common())
				if strings.HasSuffix(nm, ").PopTag") {
					pops[site] = true
				}
				if strings.HasSuffix(nm, ").PushTag") {
					pushes = append(pushes, site)
				}
			}
			bad := ""
			for _, ps := range pushes {
				if r := pathAvoiding(ps, func(x ssa.Instruction) bool { _, isRet := x.(*ssa.Return); return isRet }, func(x ssa.Instruction) bool { return pops[x] }); r != nil {
					bad = p.instrPos(r)
				}
			}
			c.check(bad == "", "renderNodeWithContext: every pushed tag is popped", p.pos(fn.Pos()), "no return is reachable from a PushTag without a PopTag", "the serialiser shares one context through a pointer and the return at "+bad+" is reachable from a PushTag without a PopTag: the element's tag stays on the stack, and the text after a <script> / <style> element is written as if it were inside it — unescaped")
		},
	})

	register(&Rule{
		ID: "C01.R14", Props: []string{"C01", "C04", "C17"}, Min: 2,
		Doc: "a value is looked up once: nothing that Stack.Resolve / Lookup returned is handed to Stack.Resolve / Lookup / ForEach again as a *path* — in the stack's own methods (ForEach, the typed getters) as little as in the evaluators. A data value that happens to spell the path of another variable (`keys`, `team.members`) is a string, not a reference: resolved a second time, a loop over it emits the other variable's items",
		Run: func(p *Prog, c *Ctx) {
			n := 0
			isLookup := func(nm string) bool {
				return nm == "(*vuego.Stack).Resolve" || nm == "(*vuego.Stack).Lookup"
			}
			for _, fn := range p.liveFuncs() {
				pk := funcPkg(fn)
				if pk == nil || pk.Path() != modPath {
					continue
				}
				for _, site := range callsIn(fn) {
					nm := calleeName(site.Common())
					if !isLookup(nm) && nm != "(*vuego.Stack).ForEach" && !strings.HasPrefix(nm, "(*vuego.Stack).Get") {
						continue
					}
					args := site.Common().Args
					if len(args) < 2 {
						continue
					}
					n++
					bad := ""
					for _, o := range p.origins(args[1], OriginOpts{}) {
						// the path is (a type assertion of) something a lookup returned
						v := o
						if ex, ok := v.(*ssa.Extract); ok {
							if ta, ok := ex.Tuple.(*ssa.TypeAssert); ok {
								v = ta.X
							}
						}
						if ta, ok := v.(*ssa.TypeAssert); ok {
							v = ta.X
						}
						for _, oo := range append(p.origins(v, OriginOpts{}), v) {
							if ex, ok := oo.(*ssa.Extract); ok {
								if cl, ok := ex.Tuple.(*ssa.Call); ok && isLookup(calleeName(&cl.Call)) && ex.Index == 0 {
									bad = p.instrPos(cl)
								}
							}
						}
					}
					c.check(bad == "", fmt.Sprintf("%s: path of %s#%d is template text", shortName(fn), strings.TrimPrefix(nm, "(*vuego.Stack)."), n), p.instrPos(site), "not a value that was looked up", "the path handed to "+nm+" is a value that the lookup at "+bad+" returned: a data value is resolved as if it were template text — a string that spells another variable's path is replaced by that variable")
				}
			}
		},
	})

	register(&Rule{
		ID: "C14.R23", Props: []string{"C14", "C03"}, Min: 1,
		Doc: "setting a style property sets it: where setStyleDecl finds the property in the list it stores the new value — no look at the value that is there (its text, a suffix such as `!important`) keeps the old one. The :style merge and v-show's display:none go through this one function; a declaration that `wins` against the setter leaves an element visible that v-show hides while v-if drops its sibling",
		Run: func(p *Prog, c *Ctx) {
			fn := p.MustFn("vuego.setStyleDecl")
			var valPrm *ssa.Parameter
			for _, prm := range fn.Params {
				if isString(prm.Type()) {
					valPrm = prm // the last string parameter: the value
				}
			}
			n := 0
			eachInstr(fn, func(in ssa.Instruction) {
				st, ok := in.(*ssa.Store)
				if !ok || valPrm == nil || st.Val != ssa.Value(valPrm) {
					return
				}
				n++
				bad := ""
				for _, g := range controllingIfs(st) {
					for _, leaf := range condLeaves(g.If.Cond) {
						walkCond(leaf, func(v ssa.Value) {
							cl, ok := v.(*ssa.Call)
							if !ok {
								return
							}
							for _, a := range callArgs(&cl.Call) {
								for _, o := range append(p.origins(a, OriginOpts{Depth: 1}), a) {
									if fl := loadedField(o); fl != nil && fieldIs(fl, "val") {
										bad = p.instrPos(g.If)
									}
								}
							}
						})
						if fl := loadedField(leaf); fl != nil && fieldIs(fl, "val") {
							bad = p.instrPos(g.If)
						}
					}
				}
				c.check(bad == "", fmt.Sprintf("setStyleDecl: the value is stored#%d whatever was there", n), p.instrPos(st), "no condition looks at the existing value", "the condition at "+bad+" looks at the declaration's existing value before the new one is stored: some existing values survive the setter — `display:none` from v-show does not reach an element whose style says `display:flex !important`")
			})
			if n == 0 {
				undecided("setStyleDecl stores its value parameter nowhere")
			}
		},
	})

	register(&Rule{
		ID: "C04.R16", Props: []string{"C04", "C03"}, Min: 1,
		Doc: "a plain <template> hands back what its children evaluated to: on the ways on which evalTemplate returns the result of evaluateChildren / evaluate it returns that list itself — not a list filtered or rebuilt afterwards. What an instance printed is counted by the loop (`no nodes` is `the collection was empty`: the v-else is rendered); blank text dropped after evaluation makes a loop over items that print nothing look empty",
		Run: func(p *Prog, c *Ctx) {
			fn := p.MustFn("(*vuego.Vue).evalTemplate")
			n := 0
			for _, r := range returnsOf(fn) {
				if len(r.Results) == 0 || isNilConst(r.Results[0]) {
					continue
				}
				var fromEval *ssa.Call
				filtered := ""
				var walk func(v ssa.Value, d int)
				seen := map[ssa.Value]bool{}
				walk = func(v ssa.Value, d int) {
					if v == nil || seen[v] || d > 6 {
						return
					}
					seen[v] = true
					for _, o := range append(p.origins(v, OriginOpts{}), v) {
						switch x := o.(type) {
						case *ssa.Extract:
							if cl, ok := x.Tuple.(*ssa.Call); ok {
								nm := calleeName(&cl.Call)
								if nm == "(*vuego.Vue).evaluateChildren" || nm == "(*vuego.Vue).evaluate" {
									fromEval = cl
								}
							}
						case *ssa.Call:
							if nm := calleeName(&x.Call); nm == "builtin.append" {
								filtered = p.instrPos(x)
								for _, a := range callArgs(&x.Call) {
									walk(a, d+1)
								}
							}
						case *ssa.Slice:
							filtered = p.instrPos(x)
							walk(x.X, d+1)
						}
					}
				}
				walk(r.Results[0], 0)
				if fromEval == nil {
					continue
				}
				n++
				// (appending the rest of a component file to the evaluated root is C05.R10's business: only a list
				// derived from the evaluated children alone counts here)
				direct := false
				for _, o := range p.origins(r.Results[0], OriginOpts{}) {
					if ex, ok := o.(*ssa.Extract); ok && ex.Tuple == ssa.Value(fromEval) {
						direct = true
					}
				}
				c.check(direct || filtered == "", fmt.Sprintf("evalTemplate: return#%d hands back the evaluated children", n), p.instrPos(r), "the list evaluateChildren returned", "the evaluated children are rebuilt before they are returned (at "+filtered+"): nodes are dropped after evaluation — an instance that printed only blanks returns nothing, and v-for takes a non-empty collection for an empty one")
			}
			if n == 0 {
				undecided("evalTemplate returns no evaluated children")
			}
		},
	})

	register(&Rule{
		ID: "C07.R15", Props: []string{"C07", "C12"}, Min: 1,
		Doc: "the layout chain is entered through the one place that decides it: (*template).layout is called from Template.Render only (which has looked at the layout name and probed layouts/base.vuego). An entry point that calls layout() directly applies the default layout to a site that has none: `error reading layouts/base.vuego` instead of the bare page",
		Run: func(p *Prog, c *Ctx) {
			fn := p.MustFn("(*vuego.template).layout")
			n := 0
			for _, site := range p.Callers(fn) {
				n++
				caller := shortName(rootFunc(site.Parent()))
				c.check(caller == "(*vuego.template).Render", fmt.Sprintf("%s enters the layout chain#%d", caller, n), p.instrPos(site), "Template.Render, behind the default-layout decision", caller+" calls layout() without the decision Render makes first (layout named? layouts/base.vuego there?): on a filesystem without layouts/base.vuego a page that names no layout fails instead of being rendered bare")
			}
			if n == 0 {
				undecided("nothing calls (*template).layout")
			}
		},
	})

	register(&Rule{
		ID: "C08.R16", Props: []string{"C08", "C09"}, Min: 1,
		Doc: "a view's data is the view's: in View (and every other function that derives a template from a shared one) Fill is called on what Load / New returned — a template of its own — never on the shared template that was handed in. Fill works on its receiver: `renderer.Fill(data).Load(file)` writes the view's values into the parent, and every sibling loaded afterwards reads them above theme.yml and data/*.yml",
		Run: func(p *Prog, c *Ctx) {
			n := 0
			for _, fn := range p.liveFuncs() {
				pk := funcPkg(fn)
				if pk == nil || pk.Path() != modPath || !strings.HasPrefix(fn.Name(), "View") {
					continue
				}
				for _, site := range callsIn(fn) {
					cc := site.Common()
					if !(cc.IsInvoke() && cc.Method.Name() == "Fill") && !strings.HasSuffix(calleeName(cc), ").Fill") {
						continue
					}
					n++
					recv := recvOf(cc)
					onParam := false
					for _, o := range append(p.origins(recv, OriginOpts{}), recv) {
						if _, isPrm := o.(*ssa.Parameter); isPrm {
							onParam = true
						}
					}
					c.check(!onParam, fmt.Sprintf("%s: Fill#%d on a template of its own", shortName(fn), n), p.instrPos(site), "the receiver comes out of Load / New", "Fill is called on the template that was handed in: the view's data is written into the shared renderer, and templates loaded from it afterwards inherit it")
				}
			}
			if n == 0 {
				undecided("View fills no template")
			}
		},
	})

	register(&Rule{
		ID: "C10.R14", Props: []string{"C10"}, Min: 3,
		Doc: "no builtin reads the process's surroundings: the functions of the default function map use neither time.Local (ParseInLocation / In / Date with it) nor the environment (os.Getenv, os.Hostname) nor the working directory — apart from the clock of now(), which is documented. A date string without a zone is read as UTC or not at all; read in the zone the process happens to run in, the same template and data print other bytes on another machine",
		Run: func(p *Prog, c *Ctx) {
			n := 0
			for _, fn := range p.liveFuncs() {
				pk := funcPkg(fn)
				if pk == nil || pk.Path() != modPath {
					continue
				}
				name := shortName(rootFunc(fn))
				if !strings.HasSuffix(name, "Func") && !strings.Contains(name, "DefaultFuncMap") {
					continue
				}
				n++
				bad := ""
				eachInstr(fn, func(in ssa.Instruction) {
					if ld, ok := in.(*ssa.UnOp); ok && ld.Op == token.MUL {
						if g, ok := ld.X.(*ssa.Global); ok && g.Pkg != nil && g.Pkg.Pkg.Path() == "time" && g.Name() == "Local" {
							bad = "time.Local at " + p.instrPos(in)
						}
					}
					if cs, ok := in.(ssa.CallInstruction); ok {
						switch calleeName(cs.Common()) {
						case "os.Getenv", "os.LookupEnv", "os.Hostname", "os.Getwd", "(time.Time).Local", "time.LoadLocation":
							bad = calleeName(cs.Common()) + " at " + p.instrPos(in)
						}
					}
				})
				c.check(bad == "", name+": reads nothing of the process's surroundings", p.pos(fn.Pos()), "no time.Local, environment, host name", "the builtin uses "+bad+": what it prints depends on where the process runs, not on the template and the data alone")
			}
		},
	})

	register(&Rule{
		ID: "C11.R24", Props: []string{"C11", "C04"}, Min: 1,
		Doc: "what is handed back to the evaluator has lost the directive that sent it there: evalVFor passes the looped element to evaluateNodeAsElement / evaluate only as a copy from which `v-for` was removed (the per-item clone of evalFor) — never the node as it stands. evaluate() dispatches on the *presence* of v-for, evalVFor on its value: a node with an empty v-for that is sent back unchanged comes straight back, without end (fatal error: stack overflow)",
		Run: func(p *Prog, c *Ctx) {
			fn := p.MustFn("(*vuego.Vue).evalVFor")
			var nodePrm *ssa.Parameter
			for _, prm := range fn.Params {
				if isNamed(prm.Type(), "golang.org/x/net/html", "Node") {
					if _, isSl := prm.Type().Underlying().(*types.Slice); !isSl && nodePrm == nil {
						nodePrm = prm
					}
				}
			}
			n := 0
			for _, site := range callsIn(fn) {
				nm := calleeName(site.Common())
				if nm != "(*vuego.Vue).evaluateNodeAsElement" && nm != "(*vuego.Vue).evaluate" {
					continue
				}
				n++
				same := false
				for _, a := range callArgs(site.Common()) {
					for _, o := range append(p.origins(a, OriginOpts{}), a) {
						if nodePrm != nil && o == ssa.Value(nodePrm) {
							same = true
						}
					}
				}
				c.check(!same, fmt.Sprintf("evalVFor: %s#%d gets a node without v-for", strings.TrimPrefix(nm, "(*vuego.Vue)."), n), p.instrPos(site), "not the looped element itself", "the looped element is handed back to the evaluator as it stands, v-for attribute included: evaluate() sends every element that *has* the attribute to evalVFor again — an element with an empty v-for recurses until the stack is exhausted")
			}
			c.ok("evalVFor: re-entries examined", p.pos(fn.Pos()), fmt.Sprintf("%d", n))
		},
	})
}
