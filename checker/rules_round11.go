package main

import (
	"fmt"
	"go/token"
	"go/types"
	"strings"

	"golang.org/x/tools/go/ssa"
)

// Rules that came with the eleventh seeding round.

func init() {
	register(&Rule{
		ID: "C01.R13", Props: []string{"C01", "C02"}, Min: 1,
		Doc: "the serialiser's idea of `inside <script> / <style>` ends with the element: renderNodeWithContext either works on its own copy of the context (it takes VueContext by value: a tag pushed for the children is gone when the call returns), or — if it shares one context through a pointer — every PushTag is followed by a PopTag on every way out, the early return of the v-html / v-text branch included. A tag left on a shared stack makes CurrentTag() answer `script` for the text that follows the element: that text is then written without escaping, and a value in it arrives as live markup",
		Run: func(p *Prog, c *Ctx) {
			fn := p.MustFn("vuego.renderNodeWithContext")
			byPointer := false
			for _, prm := range fn.Params {
				if pt, ok := prm.Type().(*types.Pointer); ok && isNamed(pt.Elem(), modPath, "VueContext") {
					byPointer = true
				}
			}
			if !byPointer {
				c.ok("renderNodeWithContext: the tag stack is per call", p.pos(fn.Pos()), "the context is taken by value")
				return
			}
			pops := map[ssa.Instruction]bool{}
			var pushes []ssa.Instruction
			for _, site := range callsIn(fn) {
				nm := calleeName(site.Common())
				if strings.HasSuffix(nm, ").PopTag") {
					pops[site] = true
				}
				if strings.HasSuffix(nm, ").PushTag") {
					pushes = append(pushes, site)
				}
			}
			bad := ""
			for _, ps := range pushes {
				if r := pathAvoiding(ps, func(x ssa.Instruction) bool { _, isRet := x.(*ssa.Return); return isRet }, func(x ssa.Instruction) bool { return pops[x] }); r != nil {
					bad = p.instrPos(r)
				}
			}
			c.check(bad == "", "renderNodeWithContext: every pushed tag is popped", p.pos(fn.Pos()), "no return is reachable from a PushTag without a PopTag", "the serialiser shares one context through a pointer and the return at "+bad+" is reachable from a PushTag without a PopTag: the element's tag stays on the stack, and the text after a <script> / <style> element is written as if it were inside it — unescaped")
		},
	})

	register(&Rule{
		ID: "C01.R14", Props: []string{"C01", "C04", "C17"}, Min: 2,
		Doc: "a value is looked up once: nothing that Stack.Resolve / Lookup returned is handed to Stack.Resolve / Lookup / ForEach again as a *path* — in the stack's own methods (ForEach, the typed getters) as little as in the evaluators. A data value that happens to spell the path of another variable (`keys`, `team.members`) is a string, not a reference: resolved a second time, a loop over it emits the other variable's items",
		Run: func(p *Prog, c *Ctx) {
			n := 0
			isLookup := func(nm string) bool {
				return nm == "(*vuego.Stack).Resolve" || nm == "(*vuego.Stack).Lookup"
			}
			for _, fn := range p.liveFuncs() {
				pk := funcPkg(fn)
				if pk == nil || pk.Path() != modPath {
					continue
				}
				for _, site := range callsIn(fn) {
					nm := calleeName(site.Common())
					if !isLookup(nm) && nm != "(*vuego.Stack).ForEach" && !strings.HasPrefix(nm, "(*vuego.Stack).Get") {
						continue
					}
					args := site.Common().Args
					if len(args) < 2 {
						continue
					}
					n++
					bad := ""
					for _, o := range p.origins(args[1], OriginOpts{}) {
						// the path is (a type assertion of) something a lookup returned
						v := o
						if ex, ok := v.(*ssa.Extract); ok {
							if ta, ok := ex.Tuple.(*ssa.TypeAssert); ok {
								v = ta.X
							}
						}
						if ta, ok := v.(*ssa.TypeAssert); ok {
							v = ta.X
						}
						for _, oo := range append(p.origins(v, OriginOpts{}), v) {
							if ex, ok := oo.(*ssa.Extract); ok {
								if cl, ok := ex.Tuple.(*ssa.Call); ok && isLookup(calleeName(&cl.Call)) && ex.Index == 0 {
									bad = p.instrPos(cl)
								}
							}
						}
					}
					c.check(bad == "", fmt.Sprintf("%s: path of %s#%d is template text", shortName(fn), strings.TrimPrefix(nm, "(*vuego.Stack)."), n), p.instrPos(site), "not a value that was looked up", "the path handed to "+nm+" is a value that the lookup at "+bad+" returned: a data value is resolved as if it were template text — a string that spells another variable's path is replaced by that variable")
				}
			}
		},
	})

	register(&Rule{
		ID: "C14.R23", Props: []string{"C14", "C03"}, Min: 1,
		Doc: "setting a style property sets it: where setStyleDecl finds the property in the list it stores the new value — no look at the value that is there (its text, a suffix such as `!important`) keeps the old one. The :style merge and v-show's display:none go through this one function; a declaration that `wins` against the setter leaves an element visible that v-show hides while v-if drops its sibling",
		Run: func(p *Prog, c *Ctx) {
			fn := p.MustFn("vuego.setStyleDecl")
			// what is new: everything setStyleDecl is given apart from the list itself (a value string, or a whole declaration)
			isNewParam := func(v ssa.Value) bool {
				prm, ok := v.(*ssa.Parameter)
				if !ok || prm.Parent() != fn {
					return false
				}
				_, isSlice := prm.Type().Underlying().(*types.Slice)
				return !isSlice
			}
			var newBase func(v ssa.Value, d int) bool // v is a parameter, the spilled copy of one, or a field of one
			newBase = func(v ssa.Value, d int) bool {
				if d > 4 {
					return false
				}
				switch x := v.(type) {
				case *ssa.Parameter:
					return isNewParam(x)
				case *ssa.Field:
					return newBase(x.X, d+1)
				case *ssa.FieldAddr:
					return newBase(x.X, d+1)
				case *ssa.UnOp:
					if x.Op == token.MUL {
						return newBase(x.X, d+1)
					}
				case *ssa.Alloc:
					sts := storesToCell(x)
					if len(sts) == 0 {
						return false
					}
					for _, st := range sts {
						if !newBase(st.Val, d+1) {
							return false
						}
					}
					return true
				}
				return false
			}
			// the value field: the one of a list element into which something new is stored
			stores := map[ssa.Instruction]bool{}
			valFields := map[*types.Var]bool{}
			eachInstr(fn, func(in ssa.Instruction) {
				st, ok := in.(*ssa.Store)
				if !ok || !newBase(st.Val, 0) {
					return
				}
				if fa, ok := st.Addr.(*ssa.FieldAddr); ok {
					if _, isEl := fa.X.(*ssa.IndexAddr); isEl {
						if fv := fieldVar(fa); fv != nil {
							stores[in] = true
							valFields[fv] = true
						}
					}
					return
				}
				if _, isStruct := st.Val.Type().Underlying().(*types.Struct); isStruct {
					if _, isEl := st.Addr.(*ssa.IndexAddr); isEl {
						stores[in] = true // a whole declaration put into the list
					}
				}
			})
			eachInstr(fn, func(in ssa.Instruction) { // the same field of the declaration that is appended
				if st, ok := in.(*ssa.Store); ok && newBase(st.Val, 0) {
					if fa, ok := st.Addr.(*ssa.FieldAddr); ok {
						if fv := fieldVar(fa); fv != nil && valFields[fv] {
							stores[in] = true
						}
					}
				}
			})
			if len(stores) == 0 || len(fn.Blocks) == 0 {
				undecided("setStyleDecl stores its value parameter nowhere")
			}
			// (a) every way through the setter stores the new value — in the declaration it found or in the one it appends
			isRet := func(x ssa.Instruction) bool { _, ok := x.(*ssa.Return); return ok }
			bad := ""
			if first := fn.Blocks[0].Instrs[0]; !stores[first] {
				if r := pathAvoiding(first, isRet, func(x ssa.Instruction) bool { return stores[x] }); r != nil {
					bad = p.instrPos(r)
				}
			}
			c.check(bad == "", "setStyleDecl: every way to a return stores the new value", p.pos(fn.Pos()), fmt.Sprintf("%d stores of the new value", len(stores)), "the return at "+bad+" is reachable without the new value having been stored: some existing declarations survive the setter — `display:none` from v-show does not reach an element whose style says `display:flex !important`")
			// (b) the value that is there is not looked at
			n := 0
			walkFuncTree(fn, func(f *ssa.Function) {
				eachInstr(f, func(in ssa.Instruction) {
					v, ok := in.(ssa.Value)
					if !ok {
						return
					}
					fl := loadedField(v)
					if fl == nil || !valFields[fl] {
						return
					}
					var base ssa.Value
					switch x := v.(type) {
					case *ssa.UnOp:
						base = x.X
					case *ssa.Field:
						base = x.X
					}
					if f == fn && newBase(base, 0) {
						return // the new declaration's own value
					}
					n++
					c.fail(fmt.Sprintf("setStyleDecl: the value of an existing declaration is not read#%d", n), p.instrPos(in), "setStyleDecl reads the value of a declaration that is already in the list: whether the new value is stored then depends on the old one (`!important` wins, a non-empty value stays) — the setter no longer sets")
				})
			})
			if n == 0 {
				c.ok("setStyleDecl: the value of an existing declaration is not read", p.pos(fn.Pos()), "no load of the value field of a list element")
			}
		},
	})

	register(&Rule{
		ID: "C04.R16", Props: []string{"C04", "C03"}, Min: 1,
		Doc: "a plain <template> hands back what its children evaluated to: on the ways on which evalTemplate returns the result of evaluateChildren / evaluate it returns that list itself — not a list filtered or rebuilt afterwards. What an instance printed is counted by the loop (`no nodes` is `the collection was empty`: the v-else is rendered); blank text dropped after evaluation makes a loop over items that print nothing look empty",
		Run: func(p *Prog, c *Ctx) {
			fn := p.MustFn("(*vuego.Vue).evalTemplate")
			n := 0
			for _, r := range returnsOf(fn) {
				if len(r.Results) == 0 || isNilConst(r.Results[0]) {
					continue
				}
				var fromEval *ssa.Call
				filtered := ""
				var walk func(v ssa.Value, d int)
				seen := map[ssa.Value]bool{}
				walk = func(v ssa.Value, d int) {
					if v == nil || seen[v] || d > 6 {
						return
					}
					seen[v] = true
					for _, o := range append(p.origins(v, OriginOpts{}), v) {
						switch x := o.(type) {
						case *ssa.Extract:
							if cl, ok := x.Tuple.(*ssa.Call); ok {
								nm := calleeName(&cl.Call)
								if nm == "(*vuego.Vue).evaluateChildren" || nm == "(*vuego.Vue).evaluate" {
									fromEval = cl
								}
							}
						case *ssa.Call:
							if nm := calleeName(&x.Call); nm == "builtin.append" {
								filtered = p.instrPos(x)
								for _, a := range callArgs(&x.Call) {
									walk(a, d+1)
								}
							}
						case *ssa.Slice:
							filtered = p.instrPos(x)
							walk(x.X, d+1)
						}
					}
				}
				walk(r.Results[0], 0)
				if fromEval == nil {
					continue
				}
				n++
				// (appending the rest of a component file to the evaluated root is C05.R10's business: only a list
				// derived from the evaluated children alone counts here)
				direct := false
				if ex, ok := r.Results[0].(*ssa.Extract); ok && ex.Tuple == ssa.Value(fromEval) {
					direct = true
				}
				c.check(direct || filtered == "", fmt.Sprintf("evalTemplate: return#%d hands back the evaluated children", n), p.instrPos(r), "the list evaluateChildren returned", "the evaluated children are rebuilt before they are returned (at "+filtered+"): nodes are dropped after evaluation — an instance that printed only blanks returns nothing, and v-for takes a non-empty collection for an empty one")
			}
			if n == 0 {
				undecided("evalTemplate returns no evaluated children")
			}
		},
	})

	register(&Rule{
		ID: "C07.R15", Props: []string{"C07", "C12"}, Min: 1,
		Doc: "the layout chain is entered through the one place that decides it: (*template).layout is called from Template.Render only (which has looked at the layout name and probed layouts/base.vuego). An entry point that calls layout() directly applies the default layout to a site that has none: `error reading layouts/base.vuego` instead of the bare page",
		Run: func(p *Prog, c *Ctx) {
			fn := p.MustFn("(*vuego.template).layout")
			n := 0
			for _, site := range p.Callers(fn) {
				n++
				caller := shortName(rootFunc(site.Parent()))
				c.check(caller == "(*vuego.template).Render", fmt.Sprintf("%s enters the layout chain#%d", caller, n), p.instrPos(site), "Template.Render, behind the default-layout decision", caller+" calls layout() without the decision Render makes first (layout named? layouts/base.vuego there?): on a filesystem without layouts/base.vuego a page that names no layout fails instead of being rendered bare")
			}
			if n == 0 {
				undecided("nothing calls (*template).layout")
			}
		},
	})

	register(&Rule{
		ID: "C08.R16", Props: []string{"C08", "C09"}, Min: 1,
		Doc: "a view's data is the view's: in View (and every other function that derives a template from a shared one) Fill is called on what Load / New returned — a template of its own — never on the shared template that was handed in. Fill works on its receiver: `renderer.Fill(data).Load(file)` writes the view's values into the parent, and every sibling loaded afterwards reads them above theme.yml and data/*.yml",
		Run: func(p *Prog, c *Ctx) {
			n := 0
			for _, fn := range p.liveFuncs() {
				pk := funcPkg(fn)
				if pk == nil || pk.Path() != modPath || !strings.HasPrefix(fn.Name(), "View") {
					continue
				}
				for _, site := range callsIn(fn) {
					cc := site.Common()
					if !(cc.IsInvoke() && cc.Method.Name() == "Fill") && !strings.HasSuffix(calleeName(cc), ").Fill") {
						continue
					}
					n++
					recv := recvOf(cc)
					onParam := false
					for _, o := range append(p.origins(recv, OriginOpts{}), recv) {
						if _, isPrm := o.(*ssa.Parameter); isPrm {
							onParam = true
						}
					}
					c.check(!onParam, fmt.Sprintf("%s: Fill#%d on a template of its own", shortName(fn), n), p.instrPos(site), "the receiver comes out of Load / New", "Fill is called on the template that was handed in: the view's data is written into the shared renderer, and templates loaded from it afterwards inherit it")
				}
			}
			if n == 0 {
				undecided("View fills no template")
			}
		},
	})

	register(&Rule{
		ID: "C10.R14", Props: []string{"C10"}, Min: 3,
		Doc: "no builtin reads the process's surroundings: the functions of the default function map use neither time.Local (ParseInLocation / In / Date with it) nor the environment (os.Getenv, os.Hostname) nor the working directory — apart from the clock of now(), which is documented. A date string without a zone is read as UTC or not at all; read in the zone the process happens to run in, the same template and data print other bytes on another machine",
		Run: func(p *Prog, c *Ctx) {
			n := 0
			for _, fn := range p.liveFuncs() {
				pk := funcPkg(fn)
				if pk == nil || pk.Path() != modPath {
					continue
				}
				name := shortName(rootFunc(fn))
				if !strings.HasSuffix(name, "Func") && !strings.Contains(name, "DefaultFuncMap") {
					continue
				}
				n++
				bad := ""
				eachInstr(fn, func(in ssa.Instruction) {
					if ld, ok := in.(*ssa.UnOp); ok && ld.Op == token.MUL {
						if g, ok := ld.X.(*ssa.Global); ok && g.Pkg != nil && g.Pkg.Pkg.Path() == "time" && g.Name() == "Local" {
							bad = "time.Local at " + p.instrPos(in)
						}
					}
					if cs, ok := in.(ssa.CallInstruction); ok {
						switch calleeName(cs.Common()) {
						case "os.Getenv", "os.LookupEnv", "os.Hostname", "os.Getwd", "(time.Time).Local", "time.LoadLocation":
							bad = calleeName(cs.Common()) + " at " + p.instrPos(in)
						}
					}
				})
				c.check(bad == "", name+": reads nothing of the process's surroundings", p.pos(fn.Pos()), "no time.Local, environment, host name", "the builtin uses "+bad+": what it prints depends on where the process runs, not on the template and the data alone")
			}
		},
	})

	register(&Rule{
		ID: "C11.R24", Props: []string{"C11", "C04"}, Min: 1,
		Doc: "what is handed back to the evaluator has lost the directive that sent it there: evalVFor passes the looped element to evaluateNodeAsElement / evaluate only as a copy from which `v-for` was removed (the per-item clone of evalFor) — never the node as it stands. evaluate() dispatches on the *presence* of v-for, evalVFor on its value: a node with an empty v-for that is sent back unchanged comes straight back, without end (fatal error: stack overflow)",
		Run: func(p *Prog, c *Ctx) {
			fn := p.MustFn("(*vuego.Vue).evalVFor")
			var nodePrm *ssa.Parameter
			for _, prm := range fn.Params {
				if isNamed(prm.Type(), "golang.org/x/net/html", "Node") {
					if _, isSl := prm.Type().Underlying().(*types.Slice); !isSl && nodePrm == nil {
						nodePrm = prm
					}
				}
			}
			n := 0
			for _, site := range callsIn(fn) {
				nm := calleeName(site.Common())
				if nm != "(*vuego.Vue).evaluateNodeAsElement" && nm != "(*vuego.Vue).evaluate" {
					continue
				}
				n++
				same := false
				for _, a := range callArgs(site.Common()) {
					for _, o := range append(p.origins(a, OriginOpts{}), a) {
						if nodePrm != nil && o == ssa.Value(nodePrm) {
							same = true
						}
					}
				}
				c.check(!same, fmt.Sprintf("evalVFor: %s#%d gets a node without v-for", strings.TrimPrefix(nm, "(*vuego.Vue)."), n), p.instrPos(site), "not the looped element itself", "the looped element is handed back to the evaluator as it stands, v-for attribute included: evaluate() sends every element that *has* the attribute to evalVFor again — an element with an empty v-for recurses until the stack is exhausted")
			}
			c.ok("evalVFor: re-entries examined", p.pos(fn.Pos()), fmt.Sprintf("%d", n))
		},
	})
}

func inModuleName(nm string) bool {
	return !strings.Contains(nm, "(reflect.") && strings.HasPrefix(nm, "reflect.")
}

// fieldStoresOf: the values stored into the fields of a struct allocated here.
func fieldStoresOf(al *ssa.Alloc) []ssa.Value {
	var out []ssa.Value
	if al.Referrers() == nil {
		return out
	}
	for _, r := range *al.Referrers() {
		if fa, ok := r.(*ssa.FieldAddr); ok && fa.Referrers() != nil {
			for _, rr := range *fa.Referrers() {
				if st, ok := rr.(*ssa.Store); ok && st.Addr == ssa.Value(fa) {
					out = append(out, st.Val)
				}
			}
		}
	}
	return out
}

func init() {
	register(&Rule{
		ID: "C13.R30", Props: []string{"C13", "C03", "C09"}, Min: 1,
		Doc: "the evaluator's environment is the scope and nothing else: ExprEvaluator.Eval does not write into the environment map it is given (no entry is added or changed) — registered functions in particular do not become variables. An undefined name that happens to be a function's name (`title`, `default`, `json`) must stay undefined: `v-if=\"title\"` is false for a page without a title; and the map is the caller's (Stack.EnvMap's result, a slot's props)",
		Run: func(p *Prog, c *Ctx) {
			fn := p.MustFn("(*vuego.ExprEvaluator).Eval")
			var env *ssa.Parameter
			for _, prm := range fn.Params {
				if _, ok := prm.Type().Underlying().(*types.Map); ok {
					env = prm
				}
			}
			if env == nil {
				undecided("Eval takes no environment map")
			}
			bad := ""
			walkFuncTree(fn, func(f *ssa.Function) {
				eachInstr(f, func(in ssa.Instruction) {
					if mu, ok := in.(*ssa.MapUpdate); ok {
						for _, o := range append(p.origins(mu.Map, OriginOpts{}), mu.Map) {
							if o == ssa.Value(env) {
								bad = p.instrPos(mu)
							}
						}
					}
				})
			})
			c.check(bad == "", "Eval: the environment is read, not written", p.pos(fn.Pos()), "no map update on the env parameter", "Eval stores into the environment map it was handed (at "+bad+"): names the template never defined become defined — a function's name as an undefined variable is truthy in v-if / v-show and not nil in comparisons, while {{ }} still prints nothing")
		},
	})

	register(&Rule{
		ID: "C14.R24", Props: []string{"C14"}, Min: 1,
		Doc: "a bound attribute meets the static attribute of the same *key*: where evalAttributes looks for the static twin of `:name`, it compares attribute keys as they are — not a name derived from a key (brackets stripped, case folded, prefix cut). `[title]` is a literal attribute that is written as it stands; taken for the twin of `:title` it is overwritten, appended to or merged",
		Run: func(p *Prog, c *Ctx) {
			fn := p.MustFn("(*vuego.Vue).evalAttributes")
			n := 0
			walkFuncTree(fn, func(sub *ssa.Function) {
				eachInstr(sub, func(in ssa.Instruction) {
					b, ok := in.(*ssa.BinOp)
					if !ok || b.Op != token.EQL || !isString(b.X.Type()) {
						return
					}
					if _, isC := b.X.(*ssa.Const); isC {
						return
					}
					if _, isC := b.Y.(*ssa.Const); isC {
						return
					}
					// one side is (derived from) an attribute's Key, the other is not a constant: a twin search
					isKey := func(v ssa.Value) bool {
						if fl := loadedField(v); fl != nil && fieldIs(fl, "Key") {
							return true
						}
						if f, ok := v.(*ssa.Field); ok {
							if fv := fieldVar(f); fv != nil && fieldIs(fv, "Key") {
								return true
							}
						}
						return false
					}
					// the attribute a key was read from (the struct value, or the address of the element)
					attrOf := func(v ssa.Value) ssa.Value {
						switch x := v.(type) {
						case *ssa.Field:
							return x.X
						case *ssa.UnOp:
							if fa, ok := x.X.(*ssa.FieldAddr); ok {
								return fa.X
							}
						}
						return nil
					}
					roots := map[ssa.Value]map[ssa.Value]bool{b.X: {}, b.Y: {}}
					var side ssa.Value
					var from func(v ssa.Value, d int, seenK map[ssa.Value]bool) bool
					from = func(v ssa.Value, d int, seenK map[ssa.Value]bool) bool {
						if v == nil || seenK[v] || d > 5 {
							return false
						}
						seenK[v] = true
						for _, o := range append(p.origins(v, OriginOpts{}), v) {
							if isKey(o) {
								if r := attrOf(o); r != nil {
									roots[side][r] = true
								}
								return true
							}
							if cl, ok := o.(*ssa.Call); ok && strings.HasPrefix(calleeName(&cl.Call), "strings.") {
								for _, a := range callArgs(&cl.Call) {
									if from(a, d+1, seenK) {
										return true
									}
								}
							}
						}
						return false
					}
					direct := isKey(b.X) || isKey(b.Y)
					side = b.X
					dx := from(b.X, 0, map[ssa.Value]bool{})
					side = b.Y
					dy := from(b.Y, 0, map[ssa.Value]bool{})
					if !direct && !dx && !dy {
						return
					}
					for r := range roots[b.X] {
						if roots[b.Y][r] {
							return // a key compared with a name cut out of the same attribute: `is this a binding`, no twin search
						}
					}
					n++
					// the bound name is cut out of the binding's own key (`:title` -> title): that side is derived by design.
					// The *other* side — the candidate twin — has to be a key as it stands
					c.check(direct, fmt.Sprintf("evalAttributes: attribute keys are compared as they are#%d", n), p.instrPos(b), "one side is a Key itself", "the comparison at "+p.instrPos(b)+" matches two names that are both *derived* from attribute keys: the candidate twin's key is transformed before it is compared (brackets stripped, …), so an attribute whose key only resembles the bound name — a bracketed literal attribute — is taken for its static twin and overwritten or merged")
				})
			})
			if n == 0 {
				undecided("evalAttributes compares no attribute key with a computed name")
			}
		},
	})

	register(&Rule{
		ID: "C17.R24", Props: []string{"C17", "C04"}, Min: 1,
		Doc: "ForEach iterates what it dereferenced: the collection that Stack.ForEach walks (SliceToAny, Len / Index, MapKeys) is the value *after* its pointer-following loop — nothing hands the raw result of Resolve to a helper that does not follow pointers. `names: &list` resolves by path (`names[1]`) and must loop the same way; fed to SliceToAny as a pointer it yields nil, and the loop renders nothing without an error",
		Run: func(p *Prog, c *Ctx) {
			fn := p.MustFn("(*vuego.Stack).ForEach")
			n := 0
			walkFuncTree(fn, func(f *ssa.Function) {
				for _, site := range callsIn(f) {
					nm := calleeName(site.Common())
					if !strings.HasPrefix(nm, "reflect.") || !inModuleName(nm) {
						continue
					}
					if !strings.HasSuffix(nm, "SliceToAny") && !strings.HasSuffix(nm, "IsSlice") {
						continue
					}
					n++
					raw := false
					for _, a := range callArgs(site.Common()) {
						for _, o := range append(p.origins(a, OriginOpts{}), a) {
							if ex, ok := o.(*ssa.Extract); ok {
								if cl, ok := ex.Tuple.(*ssa.Call); ok && calleeName(&cl.Call) == "(*vuego.Stack).Resolve" {
									raw = true
								}
							}
						}
					}
					c.check(!raw, fmt.Sprintf("ForEach: %s#%d gets the dereferenced value", nm, n), p.instrPos(site), "not the raw result of Resolve", "the value Resolve returned is handed to "+nm+" as it is, before (or instead of) the pointer-following loop: a collection bound through a pointer is not recognised and the loop visits nothing")
				}
			})
			c.ok("ForEach: helpers examined", p.pos(fn.Pos()), fmt.Sprintf("%d", n))
		},
	})

	register(&Rule{
		ID: "C18.R13", Props: []string{"C18"}, Min: 1,
		Doc: "a path no layer has is reported as not existing: the error Open returns after it has asked every layer is fs.ErrNotExist (or wraps it: the returned value comes from that variable) — not whatever the last layer said, and never a PathError around a nil error. errors.Is(err, fs.ErrNotExist) is how callers (the loader, the default-layout probe) tell `absent` from `broken`",
		Run: func(p *Prog, c *Ctx) {
			fn := p.MustFn("(*vuego.OverlayFS).Open")
			n := 0
			for _, r := range returnsOf(fn) {
				if len(r.Results) < 2 || isNilConst(r.Results[1]) {
					continue
				}
				// returns inside the walk hand on a layer's own answer; the one after the walk is the overlay's
				if loopHeaderOf(r.Block()) != nil {
					continue
				}
				n++
				notExist := false
				var walk func(v ssa.Value, d int)
				seen := map[ssa.Value]bool{}
				walk = func(v ssa.Value, d int) {
					if v == nil || seen[v] || d > 6 {
						return
					}
					seen[v] = true
					for _, o := range append(p.origins(v, OriginOpts{}), v) {
						if ld, ok := o.(*ssa.UnOp); ok && ld.Op == token.MUL {
							if g, ok := ld.X.(*ssa.Global); ok && g.Name() == "ErrNotExist" {
								notExist = true
							}
						}
						switch x := o.(type) {
						case *ssa.MakeInterface:
							walk(x.X, d+1)
						case *ssa.Alloc:
							for _, st := range fieldStoresOf(x) {
								walk(st, d+1)
							}
						case *ssa.Call:
							for _, a := range callArgs(&x.Call) {
								walk(a, d+1)
							}
						}
					}
				}
				walk(r.Results[1], 0)
				c.check(notExist, fmt.Sprintf("Open: the error after the walk#%d is fs.ErrNotExist", n), p.instrPos(r), "comes from io/fs.ErrNotExist", "the error Open returns for a path that no layer has does not come from fs.ErrNotExist (it is the last layer's error, or a PathError around nothing): callers that ask errors.Is(err, fs.ErrNotExist) take an absent file for a broken one — or dereference a nil error")
			}
			if n == 0 {
				undecided("Open has no error return after its walk")
			}
		},
	})
}

func init() {
	register(&Rule{
		ID: "C09.R13", Props: []string{"C09", "C10", "C14"}, Min: 1,
		Doc: "what comes out of a shared memo is read-only: every value the module reads out of a sync.Map (Load / LoadOrStore / Range) or out of a package-level map is followed — through type assertions, into the functions it is passed to — and nothing is stored through it (an element of a cached slice, an entry of a cached map, a field of a cached struct). The memo's own locking protects the memo, not what it hands out: a cached []styleDecl that setStyleDecl updates in place carries one request's `color:red` into every later render that merges the same static style text",
		Run: func(p *Prog, c *Ctx) {
			t := newROTaint(p)
			seeds := 0
			for _, fn := range p.liveFuncs() {
				if pk := funcPkg(fn); pk == nil || strings.Contains(pk.Path(), "/cmd/") {
					continue
				}
				for _, site := range callsIn(fn) {
					nm := calleeName(site.Common())
					if nm != "(*sync.Map).Load" && nm != "(*sync.Map).LoadOrStore" {
						continue
					}
					cv, ok := site.(*ssa.Call)
					if !ok || cv.Referrers() == nil {
						continue
					}
					for _, r := range *cv.Referrers() {
						if ex, ok := r.(*ssa.Extract); ok && ex.Index == 0 {
							seeds++
							t.seed(ex, "the value read out of the shared memo at "+p.instrPos(cv))
						}
					}
				}
			}
			t.run()
			c.ok("memo values followed", "-", fmt.Sprintf("%d reads of shared memos followed to all uses", seeds))
			for _, vi := range t.viol {
				c.fail(fmt.Sprintf("%s: %s through a memoised value", shortName(vi.at.Parent()), vi.what), p.instrPos(vi.at), vi.what+" on a value that every later reader of the memo gets too: "+shortWhy(vi.why)+" — one request's data is written into what the next request reads as the template's own")
			}
		},
	})

	register(&Rule{
		ID: "C05.R18", Props: []string{"C05"}, Min: 1,
		Doc: "a component is the file it was registered with: RegisterComponent stores the file name it is given — it does not complete, normalise or re-spell it. The shorthand tag and `<template include=\"…\">` must name the same file: `partials/nav` registered for `<site-nav>` is `partials/nav`, not `partials/nav.vuego`",
		Run: func(p *Prog, c *Ctx) {
			fn := p.MustFn("(*vuego.Vue).RegisterComponent")
			n := 0
			eachInstr(fn, func(in ssa.Instruction) {
				mu, ok := in.(*ssa.MapUpdate)
				if !ok {
					return
				}
				n++
				_, isPrm := mu.Value.(*ssa.Parameter)
				c.check(isPrm, fmt.Sprintf("RegisterComponent: the file name is stored as given#%d", n), p.instrPos(mu), "the parameter itself", "the registry stores something made from the file name ("+describeValue(mu.Value)+"), not the name: the shorthand tag includes another file than the explicit include of the same name")
			})
			if n == 0 {
				undecided("RegisterComponent stores nothing")
			}
		},
	})

	register(&Rule{
		ID: "C08.R17", Props: []string{"C08", "C03", "C13"}, Min: 2,
		Doc: "a condition sees the scopes as they are now: the environment that the condition evaluator hands to ExprEvaluator.Eval is the result of Stack.EnvMap() called there and then — not a merged view that the stack keeps between calls. A kept view has to be dropped by every Push, Pop and Set on every way; the include evaluator pushes and pops scopes the stack did not make itself, and a condition after an include then reads the partial's variables where {{ }} next to it prints the page's",
		Run: func(p *Prog, c *Ctx) {
			fn := p.MustFn("(*vuego.Vue).evalConditionExpr")
			n := 0
			for _, site := range callsIn(fn) {
				if calleeName(site.Common()) != "(*vuego.ExprEvaluator).Eval" {
					continue
				}
				n++
				fresh := false
				for _, o := range append(p.origins(site.Common().Args[2], OriginOpts{}), site.Common().Args[2]) {
					if cl, ok := o.(*ssa.Call); ok && calleeName(&cl.Call) == "(*vuego.Stack).EnvMap" {
						fresh = true
					}
				}
				c.check(fresh, fmt.Sprintf("evalConditionExpr: Eval#%d gets a fresh EnvMap()", n), p.instrPos(site), "Stack.EnvMap() called for this evaluation", "the condition is evaluated against an environment that does not come out of Stack.EnvMap() here ("+describeValue(site.Common().Args[2])+"): a view kept by the stack goes stale wherever a scope is pushed or popped without telling it")
			}
			if n == 0 {
				undecided("evalConditionExpr does not call Eval")
			}
		},
	})

	register(&Rule{
		ID: "C06.R17", Props: []string{"C06", "C07"}, Min: 1,
		Doc: "a page's slot template keeps its <template>: both collectors of supplied slot content — extractSlotContent for an include tag, extractSlotsFromDOM for a page rendered through layouts — record the <template #name=…> element itself (SlotContent.TemplateNode) next to its children. The slot evaluator tells a scoped template from plain content by that field; without it the props a <slot> binds (`#head=\"h\"`, `#entry=\"{ label, n }\"`) never reach the page's content",
		Run: func(p *Prog, c *Ctx) {
			n := 0
			for _, name := range []string{"vuego.extractSlotContent", "vuego.extractSlotsFromDOM"} {
				fn := p.MustFn(name)
				sets := false
				makes := false
				walkFuncTree(fn, func(f *ssa.Function) {
					eachInstr(f, func(in ssa.Instruction) {
						st, ok := in.(*ssa.Store)
						if !ok {
							return
						}
						if fv := fieldVar(st.Addr); fv != nil {
							if fieldIs(fv, "TemplateNode") && !isNilConst(st.Val) {
								sets = true
							}
							if fieldIs(fv, "Nodes") {
								makes = true
							}
						}
					})
				})
				if !makes {
					continue
				}
				n++
				c.check(sets, shortName(fn)+": records the slot template element", p.pos(fn.Pos()), "SlotContent.TemplateNode is set", "the collector builds SlotContent values with Nodes but without TemplateNode: content that was supplied as `<template #name=\"props\">` is treated as plain children, and the props the slot binds are lost")
			}
			if n == 0 {
				undecided("no collector builds SlotContent values")
			}
		},
	})

	register(&Rule{
		ID: "C03.R20", Props: []string{"C03"}, Min: 1,
		Doc: "a chain ends at its last member: what chainEnd returns is the position of an element that passed the member test (the start, or a position assigned on the member edge of the scan) — not a position computed from where the scan stopped (`idx - 1`). Text and comments *between* members belong to the chain; text after the last member is a sibling that is rendered unchanged, and a scan that counts it in swallows it",
		Run: func(p *Prog, c *Ctx) {
			fn := p.MustFn("vuego.chainEnd")
			n := 0
			for _, r := range returnsOf(fn) {
				if len(r.Results) == 0 {
					continue
				}
				n++
				arith := ""
				for _, o := range append(p.origins(r.Results[0], OriginOpts{}), r.Results[0]) {
					if b, ok := o.(*ssa.BinOp); ok && (b.Op == token.SUB || b.Op == token.ADD) {
						if _, isPhi := b.X.(*ssa.Phi); isPhi {
							if loopHeaderOf(b.Block()) == nil {
								arith = p.instrPos(b)
							}
						}
					}
				}
				c.check(arith == "", fmt.Sprintf("chainEnd: return#%d is a member's position", n), p.instrPos(r), "assigned on the member edge", "the result is computed from the scan position after the loop (at "+arith+"): whatever the scan passed last — text, a comment — is counted into the chain, and the text that follows a chain is dropped with the unselected members")
			}
			if n == 0 {
				undecided("chainEnd returns nothing")
			}
		},
	})
}

func init() {
	register(&Rule{
		ID: "C12.R10", Props: []string{"C12", "C11", "C13"}, Min: 2,
		Doc: "a recovered panic becomes the function's error: wherever a function of the module defers a closure that calls recover() and assigns an error from what it recovered, the variable it assigns is a *named result* of the function (the value the caller gets) — not a local that the return statement has already read. `var err error; defer func() { if r := recover(); r != nil { err = … } }(); out := f(); return out, err` returns (nil, nil) for a panicking f: the panic is swallowed and the render reports success",
		Run: func(p *Prog, c *Ctx) {
			n := 0
			for _, fn := range p.liveFuncs() {
				if pk := funcPkg(fn); pk == nil || strings.Contains(pk.Path(), "/cmd/") {
					continue
				}
				res := fn.Signature.Results()
				if res.Len() == 0 || !isErrorType(res.At(res.Len()-1).Type()) {
					continue
				}
				eachInstr(fn, func(in ssa.Instruction) {
					d, ok := in.(*ssa.Defer)
					if !ok {
						return
					}
					mc, ok := d.Call.Value.(*ssa.MakeClosure)
					if !ok {
						return
					}
					cl, _ := mc.Fn.(*ssa.Function)
					if cl == nil {
						return
					}
					recovers := false
					eachInstr(cl, func(x ssa.Instruction) {
						if call, ok := x.(*ssa.Call); ok {
							if b, ok := call.Call.Value.(*ssa.Builtin); ok && b.Name() == "recover" {
								recovers = true
							}
						}
					})
					if !recovers {
						return
					}
					// error-typed variables of fn that the closure assigns
					eachInstr(cl, func(x ssa.Instruction) {
						st, ok := x.(*ssa.Store)
						if !ok {
							return
						}
						fv, ok := st.Addr.(*ssa.FreeVar)
						if !ok {
							return
						}
						pt, ok := fv.Type().(*types.Pointer)
						if !ok || !isErrorType(pt.Elem()) {
							return
						}
						n++
						// the binding: the cell of fn that is captured at this position
						var cell ssa.Value
						for i, f := range cl.FreeVars {
							if f == fv && i < len(mc.Bindings) {
								cell = mc.Bindings[i]
							}
						}
						named := false
						if al, ok := cell.(*ssa.Alloc); ok {
							for i := 0; i < res.Len(); i++ {
								if res.At(i).Name() != "" && res.At(i).Name() == al.Comment {
									named = true
								}
							}
						}
						c.check(named, fmt.Sprintf("%s: the recovered error is the function's result#%d", shortName(fn), n), p.instrPos(st), "assigned to a named result", "the deferred recover assigns a local variable, not a named result: the return statement has evaluated its operands before the deferred function runs, so the caller gets the old value (nil) — a panicking callee looks like one that succeeded")
					})
				})
			}
		},
	})

	register(&Rule{
		ID: "C16.R14", Props: []string{"C16", "C03"}, Min: 1,
		Doc: "the fallback children of a v-html / v-text element are evaluated only when they are shown: in evaluate()'s generic element path the children are evaluated under a test of whether a content carrier was stored for the element (HasAttr of data-v-html-content / data-v-text-content is false). Evaluated regardless and thrown away afterwards, the children still leave their traces in the render — a v-once element among them is recorded as emitted, and the next instance, whose value does not resolve and which *does* show its fallback, leaves it out: emitted zero times",
		Run: func(p *Prog, c *Ctx) {
			fn := p.MustFn("(*vuego.Vue).evaluate")
			n := 0
			for _, site := range callsIn(fn) {
				if calleeName(site.Common()) != "(*vuego.Vue).evaluateChildren" {
					continue
				}
				// the generic element path: the call whose result becomes the children of the clone that went through
				// evalAttributes (the <template> and v-pre paths do not)
				attrs := false
				for _, s2 := range callsIn(fn) {
					if calleeName(s2.Common()) == "(*vuego.Vue).evalAttributes" && (canFollowSameRound(s2, site) || canFollowSameRound(site, s2)) {
						attrs = true
					}
				}
				if !attrs {
					continue
				}
				n++
				guarded := guardedBy(site.Block(), func(cnd ssa.Value, want bool) bool {
					cl := isCallNamed(cnd, "helpers.HasAttr")
					if cl == nil || want {
						return false
					}
					k, ok := constString(cl.Call.Args[1])
					return ok && (k == "data-v-html-content" || k == "data-v-text-content")
				})
				c.check(guarded, fmt.Sprintf("evaluate: children of the generic element#%d are evaluated only if no content replaces them", n), p.instrPos(site), "under !HasAttr(carrier)", "the children are evaluated whether or not v-html / v-text replaced them: what the evaluation records (v-once elements seen) is recorded for children that are never written, and a later instance that shows its fallback finds them `already emitted`")
			}
			if n == 0 {
				undecided("evaluate has no generic element path that evaluates children")
			}
		},
	})

	register(&Rule{
		ID: "C19.R23", Props: []string{"C19"}, Min: 2,
		Doc: "the formatter's decisions do not depend on how its input was laid out: (a) the choice between inline and block layout (shouldKeepInline and what it calls by name) never looks at the *length* of a text node's data — raw text carries the source's indentation, which the formatter itself changes, so the second pass would decide differently from the first; (b) an ampersand in an attribute value is escaped whenever a character reference could start after it (the next byte), not only when a complete `&name;` follows — the parser decodes `&copy`, `&lt`, `&#60` without the semicolon too, and an unescaped one changes the value on the next pass",
		Run: func(p *Prog, c *Ctx) {
			fn := p.MustFn("(*formatter.Formatter).shouldKeepInline")
			set := map[*ssa.Function]bool{}
			var add func(f *ssa.Function)
			add = func(f *ssa.Function) {
				if f == nil || set[f] || !inModule(f) {
					return
				}
				set[f] = true
				for _, af := range f.AnonFuncs {
					add(af)
				}
				for _, site := range callsIn(f) {
					add(site.Common().StaticCallee())
				}
			}
			add(fn)
			bad := ""
			for _, g := range sortedFuncs(set) {
				for _, site := range callsIn(g) {
					if calleeName(site.Common()) != "builtin.len" {
						continue
					}
					if fl := loadedField(site.Common().Args[0]); fl != nil && fieldIs(fl, "Data") {
						bad = p.instrPos(site)
					}
				}
			}
			c.check(bad == "", "shouldKeepInline: no layout decision on the length of raw text", p.pos(fn.Pos()), "no len(node.Data)", "the inline / block decision measures the raw text of the element (at "+bad+"): the measure includes the source's indentation and line breaks, which formatting changes — formatting the result again takes the other decision")
			esc := p.MustFn("formatter.escapeAttr")
			have := comparedChars(esc)
			c.check(!have[';'], "escapeAttr: an ampersand is judged by what follows it directly", p.pos(esc.Pos()), "no search for a closing semicolon", "escapeAttr looks for the `;` that would complete a character reference before it escapes an ampersand: references the parser decodes without a semicolon (&copy, &lt, &#60) are written raw, and the attribute's value is another one after the next parse")
		},
	})

	register(&Rule{
		ID: "C20.R19", Props: []string{"C20"}, Min: 1,
		Doc: "Markdown text is unescaped by Markdown's rules: the Markdown package resolves character references with goldmark's own util (ResolveNumericReferences, ResolveEntityNames, UnescapePunctuations) — the functions the reference renderer uses — and never with html.UnescapeString. HTML5 also decodes legacy names without a semicolon (`&copy 2024`, `?a=1&lt=5`); CommonMark does not: titles, alt texts and info strings would differ from the reference",
		Run: func(p *Prog, c *Ctx) {
			// plainText: the one place where Markdown *source* (a title, an alt text, an info string) becomes text.
			// (headingID unescapes rendered HTML, which is HTML.)
			root := p.MustFn("markdown.plainText")
			set := map[*ssa.Function]bool{}
			var add func(f *ssa.Function)
			add = func(f *ssa.Function) {
				if f == nil || set[f] || !inModule(f) {
					return
				}
				set[f] = true
				for _, site := range callsIn(f) {
					add(site.Common().StaticCallee())
				}
			}
			add(root)
			n := 0
			bad := ""
			for _, fn := range sortedFuncs(set) {
				for _, site := range callsIn(fn) {
					n++
					if nm := calleeName(site.Common()); nm == "html.UnescapeString" || nm == "golang.org/x/net/html.UnescapeString" {
						bad = shortName(fn) + " at " + p.instrPos(site)
					}
				}
			}
			c.check(bad == "", "plainText: references are resolved with goldmark's util", p.pos(root.Pos()), fmt.Sprintf("%d calls, none to html.UnescapeString", n), "html.UnescapeString is used in "+bad+": it follows the HTML5 grammar (legacy entity names and numbers without a semicolon are decoded), the reference renderer follows CommonMark's")
		},
	})
}
