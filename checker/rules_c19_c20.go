package main

import (
	"fmt"
	"go/ast"
	"go/constant"
	"go/token"
	"go/types"
	"os"
	"path/filepath"
	"regexp"
	"sort"
	"strings"

	"golang.org/x/net/html"
	"golang.org/x/tools/go/ssa"
)

// escaperTable: for a func(string) string, which bytes it rewrites into which entity constants.
// Reads the byte comparisons (switch cases) and the string constants written.
func escaperTable(fn *ssa.Function) (bytes map[int64]bool, entities map[string]bool) {
	bytes = map[int64]bool{}
	entities = map[string]bool{}
	eachInstr(fn, func(in ssa.Instruction) {
		switch x := in.(type) {
		case *ssa.BinOp:
			if x.Op == token.EQL {
				if k, ok := constInt(x.Y); ok && k > 0 && k < 128 {
					bytes[k] = true
				}
			}
		case ssa.CallInstruction:
			for _, a := range x.Common().Args {
				if s, ok := constString(a); ok && strings.HasPrefix(s, "&") && strings.HasSuffix(s, ";") {
					entities[s] = true
				}
			}
		case *ssa.IndexAddr:
			// a package-level byte → entity table (`var t = [256]string{'&': "&amp;", …}`) indexed by the byte
			if g, ok := x.X.(*ssa.Global); ok {
				tableEntries(g, bytes, entities)
			}
		case *ssa.Index:
			if ld, ok := x.X.(*ssa.UnOp); ok {
				if g, ok := ld.X.(*ssa.Global); ok {
					tableEntries(g, bytes, entities)
				}
			}
		case *ssa.Lookup:
			if ld, ok := x.X.(*ssa.UnOp); ok {
				if g, ok := ld.X.(*ssa.Global); ok {
					tableEntries(g, bytes, entities)
				}
			}
		}
	})
	return
}

// tableEntries reads the constant entries of a package-level table from the package initialiser:
// stores through &g[K] (arrays), and map updates / element stores of the value assigned to g.
func tableEntries(g *ssa.Global, bytes map[int64]bool, entities map[string]bool) {
	init := g.Pkg.Func("init")
	if init == nil {
		return
	}
	note := func(k ssa.Value, v ssa.Value) {
		ki, ok1 := constInt(k)
		s, ok2 := constString(v)
		if ok1 && ok2 && strings.HasPrefix(s, "&") && strings.HasSuffix(s, ";") && ki > 0 && ki < 128 {
			bytes[ki] = true
			entities[s] = true
		}
	}
	var holders []ssa.Value
	holders = append(holders, g)
	eachInstr(init, func(in ssa.Instruction) {
		if st, ok := in.(*ssa.Store); ok && st.Addr == ssa.Value(g) {
			v := st.Val
			for d := 0; d < 4; d++ {
				holders = append(holders, v)
				if sl, ok := v.(*ssa.Slice); ok {
					v = sl.X
					continue
				}
				if ld, ok := v.(*ssa.UnOp); ok && ld.Op == token.MUL {
					v = ld.X // an array literal built in a local and copied into the variable
					continue
				}
				break
			}
		}
	})
	isHolder := func(v ssa.Value) bool {
		for _, h := range holders {
			if h == v {
				return true
			}
		}
		return false
	}
	eachInstr(init, func(in ssa.Instruction) {
		switch x := in.(type) {
		case *ssa.Store:
			if ia, ok := x.Addr.(*ssa.IndexAddr); ok && isHolder(ia.X) {
				note(ia.Index, x.Val)
			}
		case *ssa.MapUpdate:
			if isHolder(x.Map) {
				note(x.Key, x.Value)
			}
		}
	})
}

var formatterPkg = modPath + "/formatter"
var markdownPkg = modPath + "/markdown"

func init() {
	register(&Rule{
		ID: "C19.R1", Props: []string{"C19"}, Min: 2,
		Doc: "the formatter escapes attribute values for the quotes it writes them in: every Attribute.Val that reaches the output builder passes a function whose byte table rewrites the double quote and the ampersand (\"&quot;\", \"&amp;\"); whitespace normalisation is a pass-through, not an escaper",
		Run: func(p *Prog, c *Ctx) {
			escapers := map[*ssa.Function]bool{}
			for _, fn := range p.Funcs {
				if pk := funcPkg(fn); pk == nil || pk.Path() != formatterPkg {
					continue
				}
				if len(fn.Params) != 1 || !isString(fn.Params[0].Type()) || fn.Signature.Results().Len() != 1 {
					continue
				}
				b, e := escaperTable(fn)
				if b['"'] && b['&'] && e["&quot;"] && e["&amp;"] {
					escapers[fn] = true
					c.ok("escaper "+shortName(fn), p.pos(fn.Pos()), "rewrites \" and &")
				}
			}
			t := newTaint(p)
			t.Scope = func(fn *ssa.Function) bool {
				pk := funcPkg(fn)
				return pk != nil && (pk.Path() == formatterPkg || strings.HasSuffix(pk.Path(), "/internal/helpers"))
			}
			t.FollowField = func(*types.Var) bool { return false }
			t.Sanitizer = func(site ssa.CallInstruction, arg ssa.Value) bool {
				callee := site.Common().StaticCallee()
				return callee != nil && escapers[callee]
			}
			t.Sink = func(u ssa.Instruction, v ssa.Value) string {
				site, ok := u.(ssa.CallInstruction)
				if !ok {
					return ""
				}
				if pk := funcPkg(u.Parent()); pk == nil || pk.Path() != formatterPkg {
					return ""
				}
				n := calleeName(site.Common())
				if n == "(*strings.Builder).WriteString" && len(site.Common().Args) > 1 && site.Common().Args[1] == v {
					return "attribute value written unescaped"
				}
				return ""
			}
			seeds := 0
			for _, fn := range p.Funcs {
				if pk := funcPkg(fn); pk == nil || pk.Path() != formatterPkg {
					continue
				}
				eachInstr(fn, func(in ssa.Instruction) {
					if ld, ok := in.(*ssa.UnOp); ok && ld.Op == token.MUL {
						if fv := fieldVar(ld.X); fv != nil && fieldIs(fv, "Val") && fv.Pkg() != nil && fv.Pkg().Path() == "golang.org/x/net/html" {
							seeds++
							t.Seed(ld, "Attribute.Val loaded at "+p.instrPos(ld))
						}
					}
					if f, ok := in.(*ssa.Field); ok {
						if fv := fieldVar(f); fv != nil && fieldIs(fv, "Val") && fv.Pkg() != nil && fv.Pkg().Path() == "golang.org/x/net/html" {
							seeds++
							t.Seed(f, "Attribute.Val read at "+p.instrPos(f))
						}
					}
				})
			}
			t.Run()
			c.check(seeds > 0, "formatter reads attribute values", "-", fmt.Sprintf("%d read(s) followed", seeds), "the formatter no longer reads attribute values")
			for _, h := range t.Hits {
				c.fail(shortName(h.At.Parent())+": "+h.What, p.instrPos(h.At), "an attribute value (which the parser has entity-decoded) is written between quotes without escaping: a value containing a quote or a character reference changes meaning, and formatting is not idempotent — "+shortWhy(h.Why))
			}
		},
	})

	register(&Rule{
		ID: "C19.R2", Props: []string{"C19"}, Min: 3,
		Doc: "the formatter escapes text and leaves raw text alone: every text node's Data written outside script/style passes the text escaper (byte table ⊇ & < >, entities &amp; &lt; &gt;); the function that writes Data unescaped is only reached for script/style elements",
		Run: func(p *Prog, c *Ctx) {
			var textEsc *ssa.Function
			for _, fn := range p.Funcs {
				if pk := funcPkg(fn); pk == nil || pk.Path() != formatterPkg {
					continue
				}
				if len(fn.Params) != 1 || !isString(fn.Params[0].Type()) {
					continue
				}
				b, e := escaperTable(fn)
				if b['&'] && b['<'] && b['>'] && e["&amp;"] && e["&lt;"] && e["&gt;"] {
					textEsc = fn
				}
			}
			c.check(textEsc != nil, "text escaper", "-", "a function rewriting & < >", "the formatter has no function that rewrites & < > to entities")
			if textEsc == nil {
				return
			}
			t := newTaint(p)
			t.Scope = func(fn *ssa.Function) bool { pk := funcPkg(fn); return pk != nil && pk.Path() == formatterPkg }
			t.FollowField = func(*types.Var) bool { return false }
			t.Sanitizer = func(site ssa.CallInstruction, arg ssa.Value) bool {
				return site.Common().StaticCallee() == textEsc
			}
			t.Sink = func(u ssa.Instruction, v ssa.Value) string {
				site, ok := u.(ssa.CallInstruction)
				if !ok {
					return ""
				}
				if calleeName(site.Common()) == "(*strings.Builder).WriteString" && len(site.Common().Args) > 1 && site.Common().Args[1] == v {
					return "text written unescaped"
				}
				return ""
			}
			seeds := 0
			for _, ld := range p.formatterTextLoads() {
				seeds++
				t.Seed(ld, "text Data loaded at "+p.instrPos(ld))
			}
			t.Run()
			c.check(seeds >= 3, "formatter reads text nodes", "-", fmt.Sprintf("%d text read(s) followed", seeds), "fewer text reads than expected")
			for i, h := range t.Hits {
				fn := h.At.Parent()
				// accepted only in a function that is reached solely on the script/style branch: every call site is
				// on that branch, or sits in a function that itself is reached solely on it (helpers of helpers)
				okRaw := p.formatterRawOnly(fn, 0)
				// … or the write itself sits on a branch taken only for a raw-text element (the walk inside <pre>
				// meets a nested <script> / <style> / <xmp>)
				if !okRaw {
					okRaw, _ = p.rawTextBranch(h.At.Block())
				}
				// … or a strings.Builder local to a raw-text function (content collected, then written)
				c.check(okRaw, fmt.Sprintf("%s: raw text write#%d", shortName(fn), i+1), p.instrPos(h.At), "only reached for script/style elements", "text is written without the text escaper outside the script/style path: `&lt;b&gt;` in a template becomes a live <b> after formatting — "+shortWhy(h.Why))
			}
		},
	})

	register(&Rule{
		ID: "C19.R3", Props: []string{"C19", "C02"}, Min: 15,
		Doc: "the formatter's void-element table is HTML's: isVoidElement lists exactly area base br col embed hr img input link meta param source track wbr (atoms resolved in the repository's own x/net version), and every close tag it emits for a generic element is controlled by that test",
		Run: func(p *Prog, c *Ctx) {
			fn := p.MustFn("formatter.isVoidElement")
			want := []string{"Area", "Base", "Br", "Col", "Embed", "Hr", "Img", "Input", "Link", "Meta", "Param", "Source", "Track", "Wbr"}
			var atomPkg *types.Package
			for _, imp := range p.PkgBy[formatterPkg].Types.Imports() {
				if imp.Path() == "golang.org/x/net/html/atom" {
					atomPkg = imp
				}
			}
			if atomPkg == nil {
				undecided("formatter does not import x/net/html/atom")
			}
			have := map[int64]bool{}
			eachInstr(fn, func(in ssa.Instruction) {
				for _, op := range in.Operands(nil) {
					if op == nil || *op == nil {
						continue
					}
					if cst, ok := (*op).(*ssa.Const); ok && cst.Value != nil && cst.Value.Kind() == constant.Int && isNamed(cst.Type(), "golang.org/x/net/html/atom", "Atom") {
						if k, ok := constant.Int64Val(cst.Value); ok {
							have[k] = true
						}
					}
				}
			})
			wantVals := map[int64]string{}
			for _, n := range want {
				o, ok := atomPkg.Scope().Lookup(n).(*types.Const)
				if !ok {
					undecided("atom.%s not found", n)
				}
				k, _ := constant.Int64Val(o.Val())
				wantVals[k] = n
				c.check(have[k], "void table has "+strings.ToLower(n), p.pos(fn.Pos()), "listed", "<"+strings.ToLower(n)+"> is missing from the formatter's void-element table: it gets a close tag / is treated as a container, which changes the parsed structure")
			}
			for k := range have {
				if _, ok := wantVals[k]; !ok && k != 0 {
					name := "?"
					for _, nm := range atomPkg.Scope().Names() {
						if o, ok := atomPkg.Scope().Lookup(nm).(*types.Const); ok {
							if v, ok := constant.Int64Val(o.Val()); ok && v == k {
								name = nm
							}
						}
					}
					c.fail("void table extra "+name, p.pos(fn.Pos()), "the formatter treats <"+strings.ToLower(name)+"> as a void element although HTML does not: its children and close tag are dropped")
				}
			}
			// close tags under the void test
			f := p.MustFn("(*formatter.Formatter).formatNode")
			n := 0
			// a close tag is written by the helper, or — when the helper was replaced by a smaller one that is inlined
			// here — by the concatenation "</" + name
			var closers []ssa.Instruction
			for _, site := range callsIn(f) {
				if calleeName(site.Common()) == "(*formatter.Formatter).renderCloseTag" {
					closers = append(closers, site)
				}
			}
			if len(closers) == 0 {
				eachInstr(f, func(in ssa.Instruction) {
					if b, ok := in.(*ssa.BinOp); ok && b.Op == token.ADD {
						if s, ok := constString(b.X); ok && s == "</" {
							closers = append(closers, b)
						}
					}
				})
			}
			for _, site := range closers {
				n++
				guarded := false
				for x := site.Block(); x != nil; x = x.Idom() {
					for _, ec := range allGuards(x) {
						if cl, ok := ec.cond.(*ssa.Call); ok && calleeName(&cl.Call) == "formatter.isVoidElement" && !ec.want {
							guarded = true
						}
						if b := eqOnEdge(ec.cond, ec.want); b != nil {
							if s, ok := constString(b.Y); ok && (s == "pre" || s == "script" || s == "style") {
								guarded = true
							}
						}
					}
				}
				if !guarded {
					// a branch taken for a set of named, non-void elements (pre, textarea, listing)
					voidNames := map[string]bool{}
					for _, v := range want {
						voidNames[strings.ToLower(v)] = true
					}
					guarded = enteredOnlyUnder(site.Block(), func(cond ssa.Value, w bool) bool {
						x, set, member, ok := inSetOnEdge(cond, w)
						if !ok || !member || len(set) == 0 {
							return false
						}
						if f := loadedField(x); f == nil || !fieldIs(f, "Data") {
							return false
						}
						for _, s := range set {
							if voidNames[s] {
								return false
							}
						}
						return true
					})
				}
				c.check(guarded, fmt.Sprintf("formatNode: close tag#%d", n), p.instrPos(site), "not a void element", "a close tag is emitted without the void-element test")
			}
		},
	})

	register(&Rule{
		ID: "C19.R4", Props: []string{"C19"}, Min: 4,
		Doc: "the formatter handles every node type the parser hands it: its type switch has cases for Document, Element, Text and Comment nodes",
		Run: func(p *Prog, c *Ctx) {
			f := p.MustFn("(*formatter.Formatter).formatNode")
			handled := map[int64]bool{}
			eachInstr(f, func(in ssa.Instruction) {
				if b, ok := in.(*ssa.BinOp); ok && b.Op == token.EQL {
					if ld, ok := b.X.(*ssa.UnOp); ok {
						if fa, ok := ld.X.(*ssa.FieldAddr); ok && fieldName(fa.X.Type(), fa.Field) == "Type" {
							if k, ok := constInt(b.Y); ok {
								handled[k] = true
							}
						}
					}
				}
			})
			for _, nt := range []struct {
				k    int64
				name string
			}{{1, "TextNode"}, {2, "DocumentNode"}, {3, "ElementNode"}, {4, "CommentNode"}} {
				c.check(handled[nt.k], "formatNode handles "+nt.name, p.pos(f.Pos()), "case present", "formatNode has no case for "+nt.name+": such nodes disappear when a template is formatted")
			}
		},
	})

	register(&Rule{
		ID: "C20.R1", Props: []string{"C20"}, Min: 20,
		Doc: "every AST kind the GFM parser produces has a handler: the block dispatcher, the inline dispatcher and the table renderer have a type-switch case (or typed assertion) for each of the 11 block, 10 inline and 3 table kinds; kinds left to the default arm are containers whose children are rendered",
		Run: func(p *Prog, c *Ctx) {
			pkg := p.PkgBy[markdownPkg]
			if pkg == nil {
				undecided("markdown package not loaded")
			}
			cases := map[string]map[string]bool{}
			for _, fname := range []string{"renderNode", "renderInlineNode", "renderTable", "collectCells"} {
				fn := p.Fn("(*markdown.Markdown)." + fname)
				if fn == nil {
					undecided("markdown: %s not found", fname)
				}
				decl := p.astDecl[fn]
				cases[fname] = map[string]bool{}
				ast.Inspect(decl, func(n ast.Node) bool {
					switch x := n.(type) {
					case *ast.CaseClause:
						for _, e := range x.List {
							if tv, ok := pkg.TypesInfo.Types[e]; ok && tv.IsType() {
								cases[fname][shortAstType(tv.Type)] = true
							}
						}
					case *ast.TypeAssertExpr:
						if x.Type != nil {
							if tv, ok := pkg.TypesInfo.Types[x.Type]; ok && tv.IsType() {
								cases[fname][shortAstType(tv.Type)] = true
							}
						}
					}
					return true
				})
				// … and the assertions of helpers whose body was put back into the function (an arm or a loop body
				// extracted into a new function): type switches and assertions alike are TypeAssert instructions
				walkFuncTree(fn, func(f *ssa.Function) {
					eachInstr(f, func(in ssa.Instruction) {
						if ta, ok := in.(*ssa.TypeAssert); ok {
							cases[fname][shortAstType(ta.AssertedType)] = true
						}
					})
				})
			}
			need := map[string][]string{
				"renderNode":       {"ast.Heading", "ast.Paragraph", "ast.FencedCodeBlock", "ast.CodeBlock", "ast.Blockquote", "ast.List", "ast.ListItem", "ast.ThematicBreak", "ast.HTMLBlock", "ast.TextBlock", "extension/ast.Table"},
				"renderInlineNode": {"ast.Text", "ast.String", "ast.CodeSpan", "ast.Emphasis", "ast.Link", "ast.Image", "ast.AutoLink", "ast.RawHTML", "extension/ast.Strikethrough", "extension/ast.TaskCheckBox"},
				"renderTable":      {"extension/ast.TableHeader", "extension/ast.TableRow"},
				"collectCells":     {"extension/ast.TableCell"},
			}
			for _, fname := range []string{"renderNode", "renderInlineNode", "renderTable", "collectCells"} {
				for _, k := range need[fname] {
					c.check(cases[fname][k], fname+": "+k, p.pos(p.Fn("(*markdown.Markdown)."+fname).Pos()), "handled", "the GFM parser produces "+k+" nodes but "+fname+" has no case for them: they fall to the default arm and their markup (or content) is lost")
				}
			}
		},
	})

	register(&Rule{
		ID: "C20.R2", Props: []string{"C20"}, Min: 17,
		Doc: "templates and data agree: for every renderTemplate(name, data) call the embedded file markdown/<name>.vuego exists and every variable the template reads is a key of the data literal; every embedded template is used by some call",
		Run: func(p *Prog, c *Ctx) {
			dir := filepath.Join(p.Repo, "markdown", "markdown")
			ents, err := os.ReadDir(dir)
			if err != nil {
				undecided("cannot read %s: %v", dir, err)
			}
			tplVars := map[string]map[string]string{} // template -> var -> how it is read
			for _, e := range ents {
				if !strings.HasSuffix(e.Name(), ".vuego") {
					continue
				}
				b, err := os.ReadFile(filepath.Join(dir, e.Name()))
				if err != nil {
					undecided("read %s: %v", e.Name(), err)
				}
				tplVars[strings.TrimSuffix(e.Name(), ".vuego")] = templateReads(string(b))
			}
			used := map[string]bool{}
			rt := p.MustFn("(*markdown.Markdown).renderTemplate")
			for _, site := range p.Callers(rt) {
				name, ok := constString(site.Common().Args[2])
				if !ok {
					c.fail(shortName(site.Parent())+": dynamic template name", p.instrPos(site), "renderTemplate is called with a non-constant template name: existence cannot be established")
					continue
				}
				used[name] = true
				vars, exists := tplVars[name]
				c.check(exists, "template "+name+" exists ("+shortName(site.Parent())+")", p.instrPos(site), "markdown/markdown/"+name+".vuego", "renderTemplate(\""+name+"\") has no embedded markdown/"+name+".vuego: rendering a document with this node kind fails")
				if !exists {
					continue
				}
				keys := mapLiteralKeys(p, site.Common().Args[3], site)
				var missing []string
				for v := range vars {
					if !keys[v] {
						missing = append(missing, v)
					}
				}
				sort.Strings(missing)
				if len(missing) > 0 {
					// the literal is handed to someone else before it is rendered (a callback that fills in the
					// values only this node kind has): what that callee stores cannot be read off here
					for _, o := range p.origins(site.Common().Args[3], OriginOpts{}) {
						mk, ok := o.(*ssa.MakeMap)
						if !ok || mk.Referrers() == nil {
							continue
						}
						for _, r := range *mk.Referrers() {
							if cs, ok := r.(ssa.CallInstruction); ok && cs != site {
								if _, isBuiltin := cs.Common().Value.(*ssa.Builtin); !isBuiltin && cs.Common().StaticCallee() != p.MustFn("(*markdown.Markdown).renderTemplate") {
									undecided("template %s: the data literal of %s is passed to %s before it is rendered; the keys stored there are not visible to this rule", name, shortName(site.Parent()), calleeName(cs.Common()))
								}
							}
						}
					}
				}
				c.check(len(missing) == 0, "template "+name+" variables ⊆ data ("+shortName(site.Parent())+")", p.instrPos(site), fmt.Sprintf("%d variable(s) read, all provided on every path", len(vars)), "the template reads "+strings.Join(missing, ", ")+" but the data literal does not provide it on every path: the name falls through to the site configuration loaded from the content filesystem (lowest-precedence data), or renders empty")
			}
			var names []string
			for n := range tplVars {
				names = append(names, n)
			}
			sort.Strings(names)
			for _, n := range names {
				c.check(used[n], "template "+n+" is used", "markdown/markdown/"+n+".vuego", "rendered by some node kind", "embedded template "+n+".vuego is not rendered by any node kind")
			}
		},
	})

	register(&Rule{
		ID: "C20.R3", Props: []string{"C20", "C01"}, Min: 2,
		Doc: "Markdown source text is escaped before it reaches a raw sink: bytes taken from the source (segment / line / string values) that are written into the inline-content stream (later bound with v-html) or straight to the output pass an HTML escaper (html.EscapeString, goldmark's HTML writer) — except in the raw-HTML arms and for code strings, where CommonMark demands verbatim output; values handed to templates that read them through {{ }} / :attr are escaped by the engine",
		Run: func(p *Prog, c *Ctx) {
			// which template variables are read through v-html
			dir := filepath.Join(p.Repo, "markdown", "markdown")
			rawVars := map[string]map[string]bool{}
			if ents, err := os.ReadDir(dir); err == nil {
				for _, e := range ents {
					if strings.HasSuffix(e.Name(), ".vuego") {
						b, _ := os.ReadFile(filepath.Join(dir, e.Name()))
						rawVars[strings.TrimSuffix(e.Name(), ".vuego")] = map[string]bool{}
						for v, how := range templateReads(string(b)) {
							if how == "v-html" {
								rawVars[strings.TrimSuffix(e.Name(), ".vuego")][v] = true
							}
						}
					}
				}
			}
			t := newTaint(p)
			t.Scope = func(fn *ssa.Function) bool { pk := funcPkg(fn); return pk != nil && pk.Path() == markdownPkg }
			t.FollowField = func(*types.Var) bool { return false }
			t.Sanitizer = func(site ssa.CallInstruction, arg ssa.Value) bool {
				n := calleeName(site.Common())
				if isEscapeCall(site.Common()) || strings.Contains(n, "goldmark/util.EscapeHTML") {
					return true
				}
				if strings.Contains(n, "goldmark/renderer/html.Writer.") || strings.Contains(n, "goldmark/renderer/html.") && (strings.HasSuffix(n, ".Write") || strings.HasSuffix(n, ".RawWrite") || strings.HasSuffix(n, ".SecureWrite")) {
					return true
				}
				return false
			}
			exempt := func(in ssa.Instruction) string {
				for x := in.Block(); x != nil; x = x.Idom() {
					for _, ec := range allGuards(x) {
						if ex, ok := ec.cond.(*ssa.Extract); ok && ec.want {
							if ta, ok := ex.Tuple.(*ssa.TypeAssert); ok {
								s := typeShort(ta.AssertedType)
								if strings.HasSuffix(s, "ast.RawHTML") || strings.HasSuffix(s, "ast.HTMLBlock") {
									return "raw HTML arm"
								}
							}
						}
						if cl, ok := ec.cond.(*ssa.Call); ok && ec.want && strings.HasSuffix(calleeName(&cl.Call), "ast.String).IsCode") {
							return "code string"
						}
					}
				}
				if strings.HasSuffix(shortName(in.Parent()), "renderHTMLBlock") {
					return "raw HTML block"
				}
				return ""
			}
			t.StopCall = func(site ssa.CallInstruction, arg ssa.Value) bool {
				// verbatim output demanded by CommonMark (raw HTML, code strings) does not taint the stream it is written to
				return exempt(site) != ""
			}
			t.Sink = func(u ssa.Instruction, v ssa.Value) string {
				switch x := u.(type) {
				case ssa.CallInstruction:
					n := calleeName(x.Common())
					if (n == "io.WriteString" || n == "io.Writer.Write" || n == "(*bytes.Buffer).Write" || n == "(*bytes.Buffer).WriteString") && len(callArgs(x.Common())) > 1 && callArgs(x.Common())[1] == v {
						if exempt(u) == "" {
							return "source bytes written unescaped into the HTML stream"
						}
					}
				case *ssa.MapUpdate:
					if x.Value == v || unwrapIface(x.Value) == v {
						if k, ok := constString(unwrapIface(x.Key)); ok {
							// which template gets this literal?
							for _, site := range callsIn(u.Parent()) {
								if calleeName(site.Common()) == "(*markdown.Markdown).renderTemplate" {
									if name, ok := constString(site.Common().Args[2]); ok && rawVars[name][k] {
										for _, o := range p.origins(site.Common().Args[3], OriginOpts{}) {
											if o == x.Map && exempt(u) == "" {
												return "source bytes bound to `" + k + "`, which template " + name + " reads through v-html"
											}
										}
									}
								}
							}
						}
					}
				}
				return ""
			}
			seeds := 0
			for _, fn := range p.Funcs {
				if pk := funcPkg(fn); pk == nil || pk.Path() != markdownPkg {
					continue
				}
				for _, site := range callsIn(fn) {
					n := calleeName(site.Common())
					if strings.HasSuffix(n, "text.Segment).Value") || strings.HasSuffix(n, "ast.AutoLink).URL") || strings.HasSuffix(n, "ast.AutoLink).Label") || strings.HasSuffix(n, "ast.FencedCodeBlock).Language") {
						if cv, ok := site.(*ssa.Call); ok {
							seeds++
							t.Seed(cv, n+" at "+p.instrPos(site))
						}
					}
				}
				eachInstr(fn, func(in ssa.Instruction) {
					if ld, ok := in.(*ssa.UnOp); ok && ld.Op == token.MUL {
						if fv := fieldVar(ld.X); fv != nil && fv.Pkg() != nil && strings.HasSuffix(fv.Pkg().Path(), "goldmark/ast") && (fieldIs(fv, "Value") || fieldIs(fv, "Destination") || fieldIs(fv, "Title")) {
							seeds++
							t.Seed(ld, "ast field "+fv.Name()+" at "+p.instrPos(ld))
						}
					}
				})
			}
			t.Run()
			c.check(seeds >= 3, "markdown source reads", "-", fmt.Sprintf("%d source-text reads followed through %d steps", seeds, t.Steps), "fewer source-text reads than expected")
			c.ok("raw sinks", "-", fmt.Sprintf("%d templates scanned for v-html variables", len(rawVars)))
			for i, h := range t.Hits {
				c.fail(fmt.Sprintf("%s: %s#%d", shortName(h.At.Parent()), h.What, i+1), p.instrPos(h.At), h.What+": "+shortWhy(h.Why)+" — literal `<`, `&`, backslash escapes or character references of the document arrive as markup instead of text")
			}
		},
	})

	register(&Rule{
		ID: "C20.R4", Props: []string{"C20", "C18"}, Min: 1,
		Doc: "user templates shadow the defaults: in the Markdown constructor the overlay's first (upper) layer is the caller's content filesystem and the embedded default templates come after it",
		Run: func(p *Prog, c *Ctx) {
			fn := p.MustFn("markdown.New")
			found := false
			for _, site := range callsIn(fn) {
				if calleeName(site.Common()) != "vuego.NewOverlayFS" {
					continue
				}
				found = true
				upper := false
				for _, o := range p.origins(site.Common().Args[0], OriginOpts{}) {
					if o == fn.Params[0] {
						upper = true
					}
				}
				lower := false
				for _, o := range p.origins(site.Common().Args[1], OriginOpts{}) {
					if al, ok := o.(*ssa.Alloc); ok {
						if refs := al.Referrers(); refs != nil {
							for _, r := range *refs {
								if ia, ok := r.(*ssa.IndexAddr); ok {
									if irefs := ia.Referrers(); irefs != nil {
										for _, ir := range *irefs {
											if st, ok := ir.(*ssa.Store); ok {
												for _, so := range p.origins(st.Val, OriginOpts{}) {
													if isCallNamed(so, "markdown.Templates") != nil {
														lower = true
													}
												}
											}
										}
									}
								}
							}
						}
					}
				}
				c.check(upper && lower, "New: overlay order", p.instrPos(site), "NewOverlayFS(contentFS, Templates())", "the content filesystem is not the upper layer of the template overlay: a user's markdown/<name>.vuego no longer replaces the default template")
			}
			c.check(found, "New: overlays user templates", p.pos(fn.Pos()), "overlay constructed", "the Markdown constructor no longer overlays the content filesystem over the embedded templates")
		},
	})
}

func shortAstType(t types.Type) string {
	s := types.TypeString(t, func(p *types.Package) string {
		if strings.HasSuffix(p.Path(), "goldmark/extension/ast") {
			return "extension/ast"
		}
		if strings.HasSuffix(p.Path(), "goldmark/ast") {
			return "ast"
		}
		return p.Name()
	})
	return strings.TrimPrefix(s, "*")
}

// mapLiteralKeys: the constant keys stored into the map value passed at a call (nil map → none).
// mapLiteralKeys returns the constant keys a map value is certain to hold when it is used at `at`:
// the map must come from map literals / make only, and a key counts when one of its updates lies
// on every path from the function entry to `at` (updates made in another function count as they are).
func mapLiteralKeys(p *Prog, v ssa.Value, at ssa.Instruction) map[string]bool {
	keys := map[string]bool{}
	first := true
	for _, o := range p.origins(v, OriginOpts{}) {
		mk, ok := o.(*ssa.MakeMap)
		if !ok {
			continue
		}
		here := map[string]map[ssa.Instruction]bool{}
		if refs := mk.Referrers(); refs != nil {
			for _, r := range *refs {
				if mu, ok := r.(*ssa.MapUpdate); ok {
					if k, ok := constString(unwrapIface(mu.Key)); ok {
						if here[k] == nil {
							here[k] = map[ssa.Instruction]bool{}
						}
						here[k][mu] = true
					}
				}
			}
		}
		sure := map[string]bool{}
		for k, ups := range here {
			if at == nil || mk.Parent() != at.Parent() || mustPassBefore(at.Parent(), at, ups) {
				sure[k] = true
			}
		}
		// several literals can reach the use: only keys that all of them hold are certain
		if first {
			keys, first = sure, false
		} else {
			for k := range keys {
				if !sure[k] {
					delete(keys, k)
				}
			}
		}
	}
	return keys
}

var (
	mustacheRe = regexp.MustCompile(`\{\{(.*?)\}\}`)
	identRe    = regexp.MustCompile(`[A-Za-z_][A-Za-z0-9_]*(?:\.[A-Za-z_][A-Za-z0-9_]*)*`)
	strLitRe   = regexp.MustCompile(`'[^']*'|"[^"]*"`)
)

// templateReads parses a .vuego template and returns the root variables it reads and how:
// "v-html" (raw sink) or "escaped" ({{ }}, :attr, v-if, v-for collection …). Loop variables are scoped out.
func templateReads(src string) map[string]string {
	out := map[string]string{}
	nodes, err := html.ParseFragment(strings.NewReader(src), &html.Node{Type: html.ElementNode, Data: "body", DataAtom: 0x2804})
	if err != nil {
		nodes, _ = html.ParseFragment(strings.NewReader(src), nil)
	}
	keywords := map[string]bool{"true": true, "false": true, "nil": true, "null": true, "in": true, "and": true, "or": true, "not": true, "len": true}
	add := func(expr, how string, bound map[string]bool) {
		expr = strLitRe.ReplaceAllString(expr, " ")
		for _, id := range identRe.FindAllString(expr, -1) {
			root := strings.SplitN(id, ".", 2)[0]
			if keywords[root] || bound[root] {
				continue
			}
			if prev, ok := out[root]; !ok || (prev != "v-html" && how == "v-html") {
				out[root] = how
			}
		}
	}
	var walk func(n *html.Node, bound map[string]bool)
	walk = func(n *html.Node, bound map[string]bool) {
		local := bound
		if n.Type == html.ElementNode {
			for _, a := range n.Attr {
				if a.Key == "v-for" {
					parts := strings.SplitN(a.Val, " in ", 2)
					if len(parts) == 2 {
						local = map[string]bool{}
						for k := range bound {
							local[k] = true
						}
						for _, v := range identRe.FindAllString(parts[0], -1) {
							local[v] = true
						}
						add(parts[1], "escaped", bound)
					}
				}
			}
			for _, a := range n.Attr {
				switch {
				case a.Key == "v-html":
					add(a.Val, "v-html", local)
				case a.Key == "v-if" || a.Key == "v-else-if" || a.Key == "v-show" || a.Key == "v-text":
					add(a.Val, "escaped", local)
				case strings.HasPrefix(a.Key, ":") || strings.HasPrefix(a.Key, "v-bind:"):
					add(a.Val, "escaped", local)
				default:
					for _, m := range mustacheRe.FindAllStringSubmatch(a.Val, -1) {
						add(m[1], "escaped", local)
					}
				}
			}
		}
		if n.Type == html.TextNode {
			for _, m := range mustacheRe.FindAllStringSubmatch(n.Data, -1) {
				add(m[1], "escaped", local)
			}
		}
		for ch := n.FirstChild; ch != nil; ch = ch.NextSibling {
			walk(ch, local)
		}
	}
	for _, n := range nodes {
		walk(n, map[string]bool{})
	}
	return out
}

// formatterTextLoads: loads of Node.Data in the formatter package that are known to read a text node
// (guarded by Type == TextNode of the same node).
func (p *Prog) formatterTextLoads() []*ssa.UnOp {
	var out []*ssa.UnOp
	for _, fn := range p.Funcs {
		if pk := funcPkg(fn); pk == nil || pk.Path() != formatterPkg {
			continue
		}
		eachInstr(fn, func(in ssa.Instruction) {
			ld, ok := in.(*ssa.UnOp)
			if !ok || ld.Op != token.MUL {
				return
			}
			fv := fieldVar(ld.X)
			if fv == nil || !fieldIs(fv, "Data") || fv.Pkg() == nil || fv.Pkg().Path() != "golang.org/x/net/html" {
				return
			}
			fa := ld.X.(*ssa.FieldAddr)
			isText := false
			for x := ld.Block(); x != nil && !isText; x = x.Idom() {
				for _, ec := range append(allGuards(x), enteringConds(x)...) {
					if ec.cond == nil {
						continue
					}
					if b := eqOnEdge(ec.cond, ec.want); b != nil {
						if k, ok := constInt(b.Y); ok && k == 1 {
							if tl, ok := b.X.(*ssa.UnOp); ok {
								if tfa, ok := tl.X.(*ssa.FieldAddr); ok && fieldName(tfa.X.Type(), tfa.Field) == "Type" && sameNodeValue(tfa.X, fa.X) {
									isText = true
								}
							}
						}
					}
				}
			}
			if isText {
				out = append(out, ld)
			}
		})
	}
	return out
}

// formatterRawOnly: the function is reached solely on the script/style branch — every call site is on
// that branch, or sits in a function that itself is reached solely on it (helpers of helpers).
func (p *Prog) formatterRawOnly(f *ssa.Function, d int) bool {
	callers := p.Callers(f)
	if len(callers) == 0 || d > 3 {
		return false
	}
	for _, cs := range callers {
		if r, _ := p.rawTextBranch(cs.Block()); r {
			continue
		}
		if cs.Parent() == f || !p.formatterRawOnly(cs.Parent(), d+1) {
			return false
		}
	}
	return true
}
