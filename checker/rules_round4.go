package main

import (
	"fmt"
	"go/constant"
	"go/token"
	"go/types"
	"os"
	"regexp/syntax"
	"sort"
	"strings"

	"golang.org/x/tools/go/ssa"
)

var _ = sort.Strings
var _ = strings.Contains
var _ = token.ADD
var _ types.Type

// seenMapOf reports whether v is the per-render v-once record (the map loaded from VueContext.seen).
func seenMapOf(v ssa.Value) bool {
	f := loadedField(v)
	return f != nil && fieldIs(f, "seen")
}

// onceIDNode returns the node whose v-once id the key value was read from (GetAttr(node, "v-once-id")).
func onceIDNode(key ssa.Value) ssa.Value {
	if cl := isCallNamed(key, "helpers.GetAttr"); cl != nil && len(cl.Call.Args) == 2 {
		if k, ok := constString(cl.Call.Args[1]); ok && k == "v-once-id" {
			return cl.Call.Args[0]
		}
	}
	return nil
}

func isNodeLinkField(fa *ssa.FieldAddr) bool {
	pt, ok := fa.X.Type().Underlying().(*types.Pointer)
	if !ok || !isNamed(pt.Elem(), "golang.org/x/net/html", "Node") {
		return false
	}
	switch fieldName(fa.X.Type(), fa.Field) {
	case "Parent", "FirstChild", "LastChild", "PrevSibling", "NextSibling":
		return true
	}
	return false
}

func init() {
	register(&Rule{
		ID: "C16.R7", Props: []string{"C16"}, Min: 2,
		Doc: "an element is tested against the v-once record once per instantiation: after the evaluator has recorded an element as seen, neither that element nor a copy of it that still carries its v-once id (DeepCloneNode / CloneNode / ShallowCloneWithAttrs keep the attributes) comes back to a v-once test — through the v-for handler, the conditional chain, or any other handler that is given the element — because that test finds the element's own mark and drops it: it would be emitted zero times instead of once",
		Run: func(p *Prog, c *Ctx) {
			type mark struct {
				fn   *ssa.Function
				at   *ssa.MapUpdate
				node ssa.Value
			}
			var marks []mark
			for _, fn := range p.Funcs {
				if p.Dropped[fn] {
					continue
				}
				eachInstr(fn, func(in ssa.Instruction) {
					if mu, ok := in.(*ssa.MapUpdate); ok && seenMapOf(mu.Map) {
						if n := onceIDNode(mu.Key); n != nil {
							marks = append(marks, mark{fn, mu, n})
						}
					}
				})
			}
			if len(marks) == 0 {
				undecided("no `seen[GetAttr(node, \"v-once-id\")] = true` found: the v-once bookkeeping has another shape")
			}
			cloners := map[string]bool{"helpers.DeepCloneNode": true, "helpers.CloneNode": true, "helpers.ShallowCloneWithAttrs": true}
			// attrTest: cond speaks about the presence of attribute K on node n
			attrTest := func(cond ssa.Value, want bool) (n ssa.Value, k string, present bool, ok bool) {
				if cl := isCallNamed(cond, "helpers.HasAttr"); cl != nil && len(cl.Call.Args) == 2 {
					if k, isC := constString(cl.Call.Args[1]); isC {
						return cl.Call.Args[0], k, want, true
					}
				}
				if b := eqOnEdge(cond, want); b != nil { // the edge on which x == y holds
					for _, pair := range [][2]ssa.Value{{b.X, b.Y}, {b.Y, b.X}} {
						if s, isC := constString(pair[1]); isC && s == "" {
							if cl := isCallNamed(pair[0], "helpers.GetAttr"); cl != nil && len(cl.Call.Args) == 2 {
								if k, isC := constString(cl.Call.Args[1]); isC {
									return cl.Call.Args[0], k, false, true
								}
							}
						}
					}
				}
				if b := eqOnEdge(cond, !want); b != nil { // the edge on which x != y holds
					for _, pair := range [][2]ssa.Value{{b.X, b.Y}, {b.Y, b.X}} {
						if s, isC := constString(pair[1]); isC && s == "" {
							if cl := isCallNamed(pair[0], "helpers.GetAttr"); cl != nil && len(cl.Call.Args) == 2 {
								if k, isC := constString(cl.Call.Args[1]); isC {
									return cl.Call.Args[0], k, true, true
								}
							}
						}
					}
				}
				return nil, "", false, false
			}
			for i, m := range marks {
				key := fmt.Sprintf("%s: element marked#%d is not tested again", shortName(m.fn), i+1)
				handed, hits := 0, 0
				for _, site := range callsIn(m.fn) {
					if !canFollowSameRound(m.at, site) {
						continue
					}
					args := callArgs(site.Common())
					passes := false
					for _, a := range args {
						if a == m.node {
							passes = true
						}
					}
					if !passes {
						continue
					}
					// what is known about the element where it is handed on: attributes it does not carry
					absent := map[string]bool{}
					if facts, ok := pathFacts(site.Block()); ok {
						for _, f := range facts {
							if n, k, present, ok := attrTest(f.Cond, f.Want); ok && n == m.node && !present {
								absent[k] = true
							}
						}
					}
					t := newTaint(p)
					t.FollowField = func(*types.Var) bool { return false }
					t.StopUse = func(u ssa.Instruction, v ssa.Value) bool {
						if fa, ok := u.(*ssa.FieldAddr); ok && isNodeLinkField(fa) {
							return true // children and siblings are other elements
						}
						// only the element itself is followed (and lists / cells / closures that hold it), not
						// what is read out of it
						if _, isCall := u.(ssa.CallInstruction); !isCall {
							if uv, ok := u.(ssa.Value); ok && !holdsNode(uv.Type(), 0) {
								return true
							}
						}
						return false
					}
					t.StopCall = func(cs ssa.CallInstruction, arg ssa.Value) bool {
						// a call that only happens when the element carries an attribute it is known not to carry
						return enteredOnlyUnder(cs.Block(), func(cond ssa.Value, want bool) bool {
							n, k, present, ok := attrTest(cond, want)
							return ok && n == arg && present && absent[k]
						})
					}
					t.Sanitizer = func(cs ssa.CallInstruction, arg ssa.Value) bool {
						name := calleeName(cs.Common())
						for cn := range cloners {
							if strings.HasSuffix(name, cn) {
								res, ok := cs.(*ssa.Call)
								if !ok {
									return true
								}
								// the copy keeps the id unless the v-once attribute (or the id) is taken off it
								stripped := false
								if refs := res.Referrers(); refs != nil {
									for _, r := range *refs {
										if rc, ok := r.(ssa.CallInstruction); ok && strings.HasSuffix(calleeName(rc.Common()), "helpers.RemoveAttr") && len(rc.Common().Args) == 2 && rc.Common().Args[0] == ssa.Value(res) {
											if k, ok := constString(rc.Common().Args[1]); ok && (k == "v-once" || k == "v-once-id") {
												stripped = true
											}
										}
									}
								}
								if !stripped {
									t.Seed(res, t.Why[arg]+" → copied (attributes included) at "+p.instrPos(cs))
								}
								return true
							}
						}
						return false
					}
					t.Sink = func(u ssa.Instruction, v ssa.Value) string {
						cl, ok := u.(*ssa.Call)
						if !ok || onceIDNode(cl) != v {
							return ""
						}
						if refs := cl.Referrers(); refs != nil {
							for _, r := range *refs {
								if lk, ok := r.(*ssa.Lookup); ok && seenMapOf(lk.X) {
									return "seen[id] of the element is tested in " + shortName(u.Parent())
								}
							}
						}
						return ""
					}
					isCloner := false
					for cn := range cloners {
						if strings.HasSuffix(calleeName(site.Common()), cn) {
							isCloner = true
						}
					}
					if res, ok := site.(*ssa.Call); ok && isCloner {
						// the copy made here carries the id on (followed as a value of this function, not through
						// the cloner's other callers)
						handed++
						t.Seed(res, fmt.Sprintf("element marked at %s → copied (attributes included) at %s", p.instrPos(m.at), p.instrPos(site)))
					} else {
						for _, callee := range p.Callees(site) {
							if !inModule(callee) || len(callee.Blocks) == 0 {
								continue
							}
							for ai, a := range args {
								if a == m.node && ai < len(callee.Params) {
									handed++
									t.Seed(callee.Params[ai], fmt.Sprintf("element marked at %s → passed to %s at %s", p.instrPos(m.at), shortName(callee), p.instrPos(site)))
								}
							}
						}
					}
					t.Run()
					if os.Getenv("VC_DEBUG") != "" {
						for v, w := range t.Why {
							fmt.Fprintf(os.Stderr, "DEBUG %s: %s %s [%s]\n", calleeName(site.Common()), v.Name(), v.String(), w)
						}
					}
					for _, h := range t.Hits {
						hits++
						c.fail(key+" (via "+calleeName(site.Common())+")", p.instrPos(h.At), h.What+" after the element was already recorded as seen: the test finds the element's own mark and the element is dropped — emitted zero times instead of once", h.Why)
					}
				}
				if hits == 0 {
					c.ok(key, p.instrPos(m.at), fmt.Sprintf("handed to %d handler parameter(s) after the mark; none leads back to a v-once test of the same element", handed))
				}
			}
			c.ok("v-once marks", "-", fmt.Sprintf("%d place(s) record an element as seen", len(marks)))
		},
	})
}

func init() {
	register(&Rule{
		ID: "C13.R8", Props: []string{"C13"}, Min: 1,
		Doc: "a registered function is only ever invoked by the reflective caller: a value looked up in the function registry (FuncMap) reaches callFunc — which checks the argument count, converts the arguments as documented and names the function in its errors — and is never type-asserted to a function type and called directly, nor called through reflect anywhere else; a direct call skips the count check (surplus arguments are silently ignored) and the conversions",
		Run: func(p *Prog, c *Ctx) {
			caller := p.MustFn("(*vuego.Vue).callFunc")
			n := 0
			for _, fn := range p.Funcs {
				if p.Dropped[fn] {
					continue
				}
				eachInstr(fn, func(in ssa.Instruction) {
					lk, ok := in.(*ssa.Lookup)
					if !ok {
						return
					}
					if _, nm := namedType(lk.X.Type()); nm != "FuncMap" {
						if f := loadedField(lk.X); f == nil || !fieldIs(f, "funcMap") {
							return
						}
					}
					n++
					t := newTaint(p)
					t.FollowField = func(*types.Var) bool { return false }
					t.StopCall = func(site ssa.CallInstruction, arg ssa.Value) bool {
						for _, callee := range p.Callees(site) {
							if callee == caller {
								return true
							}
						}
						return false
					}
					t.Sink = func(u ssa.Instruction, v ssa.Value) string {
						site, ok := u.(ssa.CallInstruction)
						if !ok {
							return ""
						}
						cc := site.Common()
						if !cc.IsInvoke() && cc.Value == v {
							// a fast path that looks at the number of written arguments first keeps the count check
							for _, g := range controllingIfs(u) {
								for _, leaf := range condLeaves(g.If.Cond) {
									if cl, ok := leaf.(*ssa.Call); ok && calleeName(&cl.Call) == "builtin.len" {
										if _, isSlice := cl.Call.Args[0].Type().Underlying().(*types.Slice); isSlice {
											return ""
										}
									}
								}
							}
							return "the registered function is called directly (after a type assertion) in " + shortName(u.Parent())
						}
						if name := calleeName(cc); (name == "(reflect.Value).Call" || name == "(reflect.Value).CallSlice") && u.Parent() != caller && len(cc.Args) > 0 && cc.Args[0] == v {
							return "the registered function is called through reflect outside callFunc, in " + shortName(u.Parent())
						}
						return ""
					}
					t.Seed(lk, "looked up in the function registry at "+p.instrPos(lk))
					t.Run()
					key := fmt.Sprintf("%s: registry lookup#%d is invoked through callFunc only", shortName(fn), n)
					if len(t.Hits) == 0 {
						c.ok(key, p.instrPos(lk), "no direct call of the looked-up value")
					}
					for _, h := range t.Hits {
						c.fail(key, p.instrPos(h.At), h.What+": the argument count is not checked (`x | upper(1)` renders instead of failing with an error that names the function) and the arguments are not converted", h.Why)
					}
				})
			}
			if n == 0 {
				undecided("no lookup in the function registry found")
			}
		},
	})
}

func init() {
	register(&Rule{
		ID: "C13.R9", Props: []string{"C13", "C14", "C05"}, Min: 5, // C14: the attribute is emitted with the value's string form, not with source text
		Doc: "a bound attribute's value is always computed by an evaluator: no return of evalBoundAttribute hands back the expression's own text (the parameter, or a piece cut out of it by slicing / trimming) — every non-empty result comes out of the interpolator, the object-literal evaluator, the pipe interpreter or the scope resolver, which are the ones every other position uses. A syntactic shortcut that answers from the source text (`'a' + x + 'b'` looks like one quoted literal) makes the same expression mean something else in an attribute than in {{ }} or v-if",
		Run: func(p *Prog, c *Ctx) {
			for _, fn := range []*ssa.Function{p.MustFn("(*vuego.Vue).evalBoundAttribute")} {
				var expr *ssa.Parameter
				for _, prm := range fn.Params {
					if isString(prm.Type()) {
						expr = prm // the last string parameter is the expression
					}
				}
				if expr == nil {
					undecided("%s has no string parameter", shortName(fn))
				}
				t := newTaint(p)
				t.Scope = func(f *ssa.Function) bool { return f == fn }
				t.FollowField = func(*types.Var) bool { return false }
				t.StopCall = func(site ssa.CallInstruction, arg ssa.Value) bool {
					for _, callee := range p.Callees(site) {
						if inModule(callee) {
							return true // an evaluator (or a classifier) consumes the text
						}
					}
					return false
				}
				hit := map[ssa.Instruction]string{}
				t.Sink = func(u ssa.Instruction, v ssa.Value) string {
					if r, ok := u.(*ssa.Return); ok && len(r.Results) > 0 && r.Results[0] == v {
						hit[r] = t.Why[v]
						return "returned"
					}
					return ""
				}
				t.Seed(expr, "the expression text")
				t.Run()
				for i, r := range returnsOf(fn) {
					if len(r.Results) == 0 {
						continue
					}
					key := fmt.Sprintf("%s: return#%d is an evaluated value", shortName(fn), i+1)
					if why, bad := hit[r]; bad {
						c.fail(key, p.instrPos(r), "the attribute's value is (a piece of) the expression's source text: an expression that merely starts and ends like the shortcut's pattern is not evaluated here while {{ }} and v-if evaluate it", why)
					} else {
						c.ok(key, p.instrPos(r), "constant or the result of an evaluator call")
					}
				}
			}
		},
	})
}

// overlayLayerCalls lists the calls in methods of the overlay filesystem that query one layer (an
// fs.FS taken from the layer slice), with that layer value.
func (p *Prog) overlayLayerCalls() (sites []ssa.CallInstruction, layers []ssa.Value) {
	for _, fn := range p.Funcs {
		if typeShort(recvType(fn)) != "*vuego.OverlayFS" || p.Dropped[fn] {
			continue
		}
		for _, site := range callsIn(fn) {
			cc := site.Common()
			var layer ssa.Value
			if cc.IsInvoke() && isNamed(cc.Value.Type(), "io/fs", "FS") {
				layer = cc.Value
			} else {
				for _, a := range cc.Args {
					if isNamed(a.Type(), "io/fs", "FS") {
						layer = a
					}
				}
			}
			if layer == nil {
				continue
			}
			fromLayers := false
			for _, o := range p.origins(layer, OriginOpts{}) {
				if f := loadedField(o); f != nil && fieldIs(f, "chainFS") {
					fromLayers = true
				}
				if ld, ok := o.(*ssa.UnOp); ok && ld.Op == token.MUL {
					if ia, ok := ld.X.(*ssa.IndexAddr); ok {
						for _, oo := range p.origins(ia.X, OriginOpts{}) {
							if f := loadedField(oo); f != nil && fieldIs(f, "chainFS") {
								fromLayers = true
							}
						}
					}
				}
			}
			if fromLayers {
				sites = append(sites, site)
				layers = append(layers, layer)
			}
		}
	}
	return
}

func init() {
	register(&Rule{
		ID: "C18.R7", Props: []string{"C18"}, Min: 3,
		Doc: "every layer is asked: in the overlay's methods, whether a layer is queried in a round of the loop over the layers is decided only by the layer being non-nil (and by the loop bound) — not by the outcome of a probe of that layer, by the pattern or path, or by what earlier layers answered; ReadDir and Glob are unions over all layers, and for the single-path methods a skipped layer could be the first one that has the path",
		Run: func(p *Prog, c *Ctx) {
			sites, layers := p.overlayLayerCalls()
			n := 0
			for i, site := range sites {
				if loopHeaderOf(site.Block()) == nil {
					continue
				}
				n++
				bad := ""
				for _, g := range controllingIfs(site) {
					for _, leaf := range condLeaves(g.If.Cond) {
						switch x := leaf.(type) {
						case *ssa.Const, *ssa.Phi:
							continue
						case *ssa.Call:
							if calleeName(&x.Call) == "builtin.len" {
								continue
							}
						case *ssa.Extract:
							if _, ok := x.Tuple.(*ssa.Next); ok {
								continue
							}
						}
						if leaf == layers[i] || sameValue(leaf, layers[i]) {
							continue // the nil test of the layer
						}
						if ld, ok := leaf.(*ssa.UnOp); ok && ld.Op == token.MUL {
							if _, isIdx := ld.X.(*ssa.IndexAddr); isIdx && isNamed(ld.Type(), "io/fs", "FS") {
								continue
							}
							if f := loadedField(ld); f != nil && fieldIs(f, "chainFS") {
								continue
							}
						}
						bad = describeValue(leaf) + " at " + p.instrPosOf(leaf)
					}
				}
				c.check(bad == "", fmt.Sprintf("%s: %s#%d is made for every non-nil layer", shortName(site.Parent()), calleeName(site.Common()), n), p.instrPos(site), "controlled by the nil test of the layer only",
					"whether this layer is queried also depends on "+bad+": a layer can be skipped although it has matching entries (a union that misses files) or is the first that has the path")
			}
			if n == 0 {
				undecided("no per-layer query found in a loop of the overlay's methods")
			}
		},
	})
}

func init() {
	register(&Rule{
		ID: "C02.R6", Props: []string{"C02", "C01"}, Min: 10,
		Doc: "template text and data are never used as a printf format: every format argument of fmt.Sprintf / Fprintf / Printf / Appendf in the module is a constant (or assembled from constants and strings.Repeat of a constant); a format that contains a value from a template or from data rewrites every `%` in it (`50% off` becomes `50%!o(MISSING)ff`), so output would no longer contain the value verbatim",
		Run: func(p *Prog, c *Ctx) {
			formatters := map[string]bool{"fmt.Sprintf": true, "fmt.Fprintf": true, "fmt.Printf": true, "fmt.Appendf": true}
			var constOnly func(v ssa.Value, depth int) (bool, ssa.Value)
			constOnly = func(v ssa.Value, depth int) (bool, ssa.Value) {
				if depth > 40 {
					return false, v
				}
				switch x := v.(type) {
				case *ssa.Const:
					return true, nil
				case *ssa.BinOp:
					if x.Op == token.ADD {
						if ok, w := constOnly(x.X, depth+1); !ok {
							return false, w
						}
						return constOnly(x.Y, depth+1)
					}
				case *ssa.Phi:
					for _, e := range x.Edges {
						if ok, w := constOnly(e, depth+1); !ok {
							return false, w
						}
					}
					return true, nil
				case *ssa.Call:
					if calleeName(&x.Call) == "strings.Repeat" {
						return constOnly(x.Call.Args[0], depth+1)
					}
					if callee := x.Call.StaticCallee(); callee != nil && inModule(callee) && len(callee.Blocks) > 0 && callee.Signature.Results().Len() == 1 {
						for _, r := range returnsOf(callee) {
							if ok, w := constOnly(r.Results[0], depth+1); !ok {
								return false, w
							}
						}
						return true, nil
					}
				case *ssa.UnOp:
					// an element of a package-level table that is only ever filled with such strings
					if x.Op == token.MUL {
						var g *ssa.Global
						switch a := x.X.(type) {
						case *ssa.Global:
							g = a
						case *ssa.IndexAddr:
							g, _ = a.X.(*ssa.Global)
						}
						if g != nil && g.Pkg != nil && inModulePkg(g.Pkg) {
							stores := 0
							for _, f := range p.Funcs {
								if f.Pkg != g.Pkg {
									continue
								}
								bad := ssa.Value(nil)
								eachInstr(f, func(in ssa.Instruction) {
									st, ok := in.(*ssa.Store)
									if !ok {
										return
									}
									root := st.Addr
									if ia, ok := root.(*ssa.IndexAddr); ok {
										root = ia.X
									}
									if root != ssa.Value(g) {
										return
									}
									stores++
									if ok, w := constOnly(st.Val, depth+1); !ok && bad == nil {
										bad = w
									}
								})
								if bad != nil {
									return false, bad
								}
							}
							// the package initialiser is not among p.Funcs when it is synthetic: look there too
							if init := g.Pkg.Func("init"); init != nil {
								bad := ssa.Value(nil)
								inits := []*ssa.Function{init}
								for _, site := range callsIn(init) {
									if callee := site.Common().StaticCallee(); callee != nil && callee.Pkg == g.Pkg && strings.HasPrefix(callee.Name(), "init#") {
										inits = append(inits, callee)
									}
								}
								for _, initFn := range inits {
									walkFuncTree(initFn, func(f *ssa.Function) {
										eachInstr(f, func(in ssa.Instruction) {
											st, ok := in.(*ssa.Store)
											if !ok {
												return
											}
											root := st.Addr
											if ia, ok := root.(*ssa.IndexAddr); ok {
												root = ia.X
											}
											if root != ssa.Value(g) {
												return
											}
											stores++
											if ok, w := constOnly(st.Val, depth+1); !ok && bad == nil {
												bad = w
											}
										})
									})
								}
								if bad != nil {
									return false, bad
								}
							}
							if stores > 0 {
								return true, nil
							}
						}
					}
				}
				return false, v
			}
			n := 0
			for _, fn := range p.Funcs {
				if p.Dropped[fn] {
					continue
				}
				for _, site := range callsIn(fn) {
					name := calleeName(site.Common())
					if !formatters[name] {
						continue
					}
					args := site.Common().Args
					fi := 0
					if name == "fmt.Fprintf" || name == "fmt.Appendf" {
						fi = 1
					}
					if fi >= len(args) {
						continue
					}
					n++
					ok, w := constOnly(args[fi], 0)
					what := ""
					if !ok {
						what = describeValue(w) + " at " + p.instrPosOf(w)
					}
					c.check(ok, fmt.Sprintf("%s: format of %s#%d is constant", shortName(fn), name, n), p.instrPos(site), "constant format",
						"the format string contains a run-time value ("+what+"): every % in it is interpreted as a verb, so the text does not come out as written")
				}
			}
		},
	})
}

func init() {
	register(&Rule{
		ID: "C11.R9", Props: []string{"C11"}, Min: 40,
		Doc: "accesses at a constant position are guarded: wherever a slice or string is indexed at a constant i (x[i]) or sliced from a constant start (x[c:]), a check that x is long enough controls the access — a comparison of len(x) with a constant, a HasPrefix/HasSuffix test with a constant of at least that length, the length of the value it was cut from, or (for the results of strings.SplitN/Fields-like calls) a length check of the result. An unguarded one panics with index / slice bounds out of range on short input — e.g. a front-matter block whose closing fence is followed by a lone carriage return — and no render path recovers",
		Run: func(p *Prog, c *Ctx) {
			n := 0
			for _, fn := range p.Funcs {
				if p.Dropped[fn] {
					continue
				}
				eachInstr(fn, func(in ssa.Instruction) {
					var base ssa.Value
					var need int64
					what := ""
					switch x := in.(type) {
					case *ssa.IndexAddr:
						if k, ok := constInt(x.Index); ok {
							base, need, what = x.X, k+1, fmt.Sprintf("indexed at %d", k)
						}
					case *ssa.Index:
						if k, ok := constInt(x.Index); ok {
							base, need, what = x.X, k+1, fmt.Sprintf("indexed at %d", k)
						}
					case *ssa.Lookup:
						if isString(x.X.Type()) {
							if k, ok := constInt(x.Index); ok {
								base, need, what = x.X, k+1, fmt.Sprintf("indexed at %d", k)
							}
						}
					case *ssa.Slice:
						if x.Low != nil {
							if k, ok := constInt(x.Low); ok && k >= 1 {
								base, need, what = x.X, k, fmt.Sprintf("sliced from %d", k)
							}
						}
						if x.High != nil {
							if k, ok := constInt(x.High); ok && k > need {
								base, need, what = x.X, k, fmt.Sprintf("sliced up to %d", k)
							}
						}
					}
					if base == nil || need < 1 {
						return
					}
					// arrays (and pointers to arrays, e.g. the buffers of variadic calls) have a static length
					bt := base.Type().Underlying()
					if pt, ok := bt.(*types.Pointer); ok {
						bt = pt.Elem().Underlying()
					}
					if arr, ok := bt.(*types.Array); ok {
						if arr.Len() >= need {
							return
						}
					}
					n++
					key := fmt.Sprintf("%s: %s#%d", shortName(fn), what, n)
					if why := p.longEnough(base, need, in, 0); why != "" {
						c.ok(key, p.instrPos(in), why)
						return
					}
					c.fail(key, p.instrPos(in), fmt.Sprintf("the value is %s without a check that it has %d element(s): on shorter input the access panics (index / slice bounds out of range), and no render path recovers from a panic", what, need))
				})
			}
		},
	})
}

// longEnough explains why v has at least need elements at instruction at ("" when it cannot be shown).
func (p *Prog) longEnough(v ssa.Value, need int64, at ssa.Instruction, depth int) string {
	if depth > 4 {
		return ""
	}
	same := func(x ssa.Value) bool {
		return x == v || sameValue(x, v) || (accessPath(x) != "" && accessPath(x) == accessPath(v))
	}
	implies := lenImplies(same, need, 0)
	if enteredOnlyUnder(at.Block(), implies) || everyPathCrosses(at.Block(), implies) {
		return fmt.Sprintf("guarded by a length check for at least %d element(s)", need)
	}
	switch x := v.(type) {
	case *ssa.Const:
		if x.Value != nil && x.Value.Kind() == constant.String && int64(len(constant.StringVal(x.Value))) >= need {
			return "constant string"
		}
	case *ssa.Slice:
		// y = x[a:b] with constant bounds has b-a elements (the slicing itself was checked)
		if x.High != nil {
			if hi, ok := constInt(x.High); ok {
				lo := int64(0)
				if x.Low != nil {
					if l, ok := constInt(x.Low); ok {
						lo = l
					} else {
						return ""
					}
				}
				if hi-lo >= need {
					return "cut to a constant length"
				}
			}
		}
	case *ssa.Call:
		name := calleeName(&x.Call)
		switch name {
		case "strings.SplitN", "strings.Split", "bytes.Split", "bytes.SplitN":
			if need == 1 {
				if name == "strings.SplitN" || name == "bytes.SplitN" {
					if k, ok := constInt(x.Call.Args[2]); ok && k == 0 {
						return ""
					}
				}
				if sep, ok := constString(x.Call.Args[1]); ok && sep != "" {
					return name + " with a non-empty separator returns at least one element"
				}
			}
		case "(*regexp.Regexp).FindStringSubmatch", "(*regexp.Regexp).FindSubmatch", "(*regexp.Regexp).FindStringSubmatchIndex", "(*regexp.Regexp).FindSubmatchIndex":
			// a non-nil match has one element per group of the (constant) pattern, plus the whole match
			notNil := func(cnd ssa.Value, want bool) bool {
				if b := eqOnEdge(cnd, !want); b != nil { // the edge on which x != y
					return (b.X == v && isNilConst(b.Y)) || (b.Y == v && isNilConst(b.X))
				}
				return false
			}
			if !enteredOnlyUnder(at.Block(), notNil) && !everyPathCrosses(at.Block(), notNil) {
				return ""
			}
			groups := p.regexpGroups(x.Call.Args[0])
			if groups < 0 {
				return ""
			}
			have := int64(groups + 1)
			if strings.HasSuffix(name, "Index") {
				have *= 2
			}
			if have >= need {
				return fmt.Sprintf("a non-nil match of a pattern with %d group(s)", groups)
			}
		case "builtin.append":
			if len(x.Call.Args) == 2 {
				if sl, ok := x.Call.Args[1].(*ssa.Slice); ok {
					if pt, ok := sl.X.Type().Underlying().(*types.Pointer); ok {
						if arr, ok := pt.Elem().Underlying().(*types.Array); ok && arr.Len() >= need {
							return "append of at least that many elements"
						}
					}
				}
			}
		}
	case *ssa.MakeSlice:
		if k, ok := constInt(x.Len); ok && k >= need {
			return "made with a constant length"
		}
		// make([]T, len(a)+k): a length (never negative) plus a constant
		if bo, ok := x.Len.(*ssa.BinOp); ok && bo.Op == token.ADD {
			for _, pair := range [][2]ssa.Value{{bo.X, bo.Y}, {bo.Y, bo.X}} {
				if k, isK := constInt(pair[1]); isK && k >= need {
					if isCallNamed(pair[0], "builtin.len") != nil || isCallNamed(pair[0], "builtin.cap") != nil {
						return "made with a length of len(…) plus a constant"
					}
				}
			}
		}
	case *ssa.Phi:
		all := "every alternative is long enough"
		for i, e := range x.Edges {
			pred := x.Block().Preds[i]
			if len(pred.Instrs) == 0 {
				return ""
			}
			if p.longEnough(e, need, pred.Instrs[len(pred.Instrs)-1], depth+1) == "" {
				return ""
			}
		}
		return all
	case *ssa.UnOp:
		if x.Op == token.MUL {
			if cell := cellOf(x.X); cell != nil {
				sts := storesToCell(cell)
				if len(sts) == 0 {
					return ""
				}
				for _, st := range sts {
					if p.longEnough(st.Val, need, st, depth+1) == "" {
						return ""
					}
				}
				return "every assignment is long enough"
			}
		}
	}
	return ""
}

// regexpGroups returns the number of capture groups of the regular expression re was compiled from
// (regexp.MustCompile / Compile of a constant, directly or through a package-level variable); -1 when unknown.
func (p *Prog) regexpGroups(re ssa.Value) int {
	var pattern func(v ssa.Value, depth int) (string, bool)
	pattern = func(v ssa.Value, depth int) (string, bool) {
		if depth > 4 {
			return "", false
		}
		switch x := v.(type) {
		case *ssa.Call:
			switch calleeName(&x.Call) {
			case "regexp.MustCompile", "regexp.Compile", "regexp.MustCompilePOSIX":
				return constString(x.Call.Args[0])
			}
		case *ssa.Extract:
			return pattern(x.Tuple, depth+1)
		case *ssa.UnOp:
			if g, ok := x.X.(*ssa.Global); ok && x.Op == token.MUL && g.Pkg != nil {
				res, found := "", false
				if init := g.Pkg.Func("init"); init != nil {
					fns := []*ssa.Function{init}
					for _, site := range callsIn(init) {
						if callee := site.Common().StaticCallee(); callee != nil && callee.Pkg == g.Pkg && strings.HasPrefix(callee.Name(), "init#") {
							fns = append(fns, callee)
						}
					}
					n := 0
					for _, f := range fns {
						eachInstr(f, func(in ssa.Instruction) {
							if st, ok := in.(*ssa.Store); ok && st.Addr == ssa.Value(g) {
								n++
								res, found = pattern(st.Val, depth+1)
							}
						})
					}
					if n != 1 {
						return "", false
					}
				}
				// assigned anywhere else → unknown
				for _, f := range p.Funcs {
					eachInstr(f, func(in ssa.Instruction) {
						if st, ok := in.(*ssa.Store); ok && st.Addr == ssa.Value(g) {
							found = false
						}
					})
				}
				return res, found
			}
		}
		return "", false
	}
	pat, ok := pattern(re, 0)
	if !ok {
		return -1
	}
	rx, err := syntax.Parse(pat, syntax.Perl)
	if err != nil {
		return -1
	}
	return rx.MaxCap()
}

func init() {
	register(&Rule{
		ID: "C07.R10", Props: []string{"C07", "C12"}, Min: 2,
		Doc: "a link of the layout chain that cannot be loaded ends the render with an error: Template.Load records a failed read in the template and returns normally, so in the chain loop every round either tests that record (Err() / the err field) or renders the link through a call that reads the file again and returns the loader's error — on every path from the Load to the next round and to the final copy. Otherwise a layout name that resolves nowhere renders as an empty document, names no further layout and ends the chain with a nil error and empty output",
		Run: func(p *Prog, c *Ctx) {
			fn := p.MustFn("(*vuego.template).layout")
			loader := p.MustFn("(*vuego.Loader).loadFragment")
			var load ssa.CallInstruction
			for _, site := range callsIn(fn) {
				if calleeName(site.Common()) == "(*vuego.template).Load" && loopHeaderOf(site.Block()) != nil {
					load = site
				}
			}
			if load == nil {
				undecided("layout: no Load call inside a loop")
			}
			fromLoad := func(v ssa.Value) bool {
				for _, o := range p.origins(v, OriginOpts{}) {
					if o == load.Value() {
						return true
					}
					// x.Fill(data) returns the same template
					if cl, ok := o.(*ssa.Call); ok && cl.Call.IsInvoke() && cl.Call.Method.Name() == "Fill" {
						for _, oo := range p.origins(cl.Call.Value, OriginOpts{}) {
							if oo == load.Value() {
								return true
							}
						}
					}
				}
				return false
			}
			// derived from the loaded template: the template itself or a field read out of it (tpl.vue, tpl.filename)
			fromLoadDeep := func(v ssa.Value) bool {
				if fromLoad(v) {
					return true
				}
				for _, o := range p.origins(v, OriginOpts{}) {
					if ld, ok := o.(*ssa.UnOp); ok && ld.Op == token.MUL {
						if fa, ok := ld.X.(*ssa.FieldAddr); ok && fromLoad(fa.X) {
							return true
						}
					}
				}
				return false
			}
			via := map[ssa.Instruction]bool{}
			var how []string
			for _, site := range callsIn(fn) {
				cc := site.Common()
				args := callArgs(cc)
				derived := false
				for _, a := range args {
					if fromLoadDeep(a) {
						derived = true
					}
				}
				if len(args) == 0 || !derived {
					continue
				}
				// (a) the recorded error is consulted and a failure returns
				if (cc.IsInvoke() && cc.Method.Name() == "Err") || calleeName(cc) == "(*vuego.template).Err" {
					if call, ok := site.(*ssa.Call); ok && errReaches(call, map[ssa.Value]bool{}) {
						via[site] = true
						how = append(how, "Err() tested at "+p.instrPos(site))
					}
					continue
				}
				// (b) the link is rendered by something that reads the template's own file again: the file name
				// kept in the template reaches the loader's path argument through this call
				reads := false
				for _, callee := range p.Callees(site) {
					if !inModule(callee) || !p.Cone(callee)[loader] {
						continue
					}
					cone := p.Cone(callee)
					t := newTaint(p)
					t.Scope = func(f *ssa.Function) bool { return cone[f] || f == fn }
					t.FollowField = func(*types.Var) bool { return false }
					t.StopCall = func(cs ssa.CallInstruction, arg ssa.Value) bool {
						return cs.Parent() == fn && cs != site // only what goes through this very call counts for it
					}
					t.Sink = func(u ssa.Instruction, v ssa.Value) string {
						if cs, ok := u.(ssa.CallInstruction); ok {
							for _, cl := range p.Callees(cs) {
								if cl == loader {
									return "read"
								}
							}
						}
						return ""
					}
					seed := func(f *ssa.Function, own bool) {
						eachInstr(f, func(in ssa.Instruction) {
							if ld, ok := in.(*ssa.UnOp); ok && ld.Op == token.MUL {
								if fv := loadedField(ld); fv != nil && fieldIs(fv, "filename") && isString(ld.Type()) {
									if own {
										if fa, ok := ld.X.(*ssa.FieldAddr); !ok || !fromLoad(fa.X) {
											return
										}
									}
									t.Seed(ld, "the template's file name")
								}
							}
						})
					}
					seed(fn, true)
					for f := range cone {
						if f != fn {
							seed(f, false)
						}
					}
					t.Run()
					if len(t.Hits) > 0 {
						reads = true
					}
				}
				if reads {
					if vals, has := errorResultOf(site); has && len(vals) > 0 {
						via[site] = true
						how = append(how, calleeName(cc)+" at "+p.instrPos(site)+" reads the file again")
					}
				}
			}
			eachInstr(fn, func(in ssa.Instruction) {
				if ld, ok := in.(*ssa.UnOp); ok && ld.Op == token.MUL {
					if fa, ok := ld.X.(*ssa.FieldAddr); ok && fromLoad(fa.X) {
						if f := fieldVar(fa); f != nil && fieldIs(f, "err") {
							via[ld] = true
							how = append(how, "err field read at "+p.instrPos(ld))
						}
					}
				}
			})
			d := p.destTaint()
			n := 0
			for _, site := range callsIn(fn) {
				target := ""
				switch {
				case site == load:
					target = "the next round"
				case p.destArg(site, d) != nil:
					target = "the final copy to the destination"
				default:
					continue
				}
				n++
				okPath := len(via) > 0 && mustPassBetween(load, site, via)
				c.check(okPath, "layout: a failed Load is noticed before "+target, p.instrPos(site), strings.Join(how, "; "),
					"there is a path from Load to "+target+" on which neither the template's recorded load error is tested nor the file is read again by the render call: a layout that cannot be loaded (missing file, unparsable front-matter) contributes an empty document and the render returns nil")
			}
			if n < 2 {
				undecided("layout: Load / final copy not found")
			}
		},
	})
}

func init() {
	register(&Rule{
		ID: "C08.R10", Props: []string{"C08", "C17", "C04", "C05"}, Min: 1, // C04: a loop variable shadows a root variable of the same name for the whole path
		Doc: "the root data is the last resort for a name, never a second opinion: wherever a Stack method looks a name up in the root data (ResolveValue on the rootData field — the originally filled struct or map, the lowest-precedence source), no path leads there from a successful scope lookup (a hit in one of the scope maps, or Lookup reporting ok). A path that falls back to the root data after the scopes did define the name — e.g. because walking the rest of a dotted path failed — answers from a source that Assign or front-matter had overridden",
		Run: func(p *Prog, c *Ctx) {
			n := 0
			for _, fn := range p.Funcs {
				if p.Dropped[fn] || typeShort(recvType(fn)) != "*vuego.Stack" {
					continue
				}
				// reads of rootData that feed a by-name lookup
				var reads []ssa.Instruction
				for _, site := range callsIn(fn) {
					nm := calleeName(site.Common())
					if !strings.HasSuffix(nm, "reflect.ResolveValue") && nm != "(*vuego.Stack).resolveStep" {
						continue
					}
					// the value that is walked: the first argument (after the receiver of a method)
					args := site.Common().Args
					data := args[0]
					if nm == "(*vuego.Stack).resolveStep" && len(args) > 1 {
						data = args[1]
					}
					for _, o := range p.origins(data, OriginOpts{}) {
						if f := loadedField(o); f != nil && fieldIs(f, "rootData") {
							reads = append(reads, site)
						}
					}
				}
				if len(reads) == 0 {
					continue
				}
				// edges on which the scopes have answered
				type edge struct {
					to   *ssa.BasicBlock
					what string
					from *ssa.BasicBlock
					leaf ssa.Value // the `ok` that is true on this edge
				}
				var found []edge
				for _, b := range fn.Blocks {
					ifi, ok := b.Instrs[len(b.Instrs)-1].(*ssa.If)
					if !ok {
						continue
					}
					cnd, flip := stripNot(ifi.Cond)
					for _, leaf := range condLeaves(cnd) {
						ex, ok := leaf.(*ssa.Extract)
						if !ok || ex.Index != 1 {
							continue
						}
						hit := ""
						switch t := ex.Tuple.(type) {
						case *ssa.Lookup:
							if _, isMap := t.X.Type().Underlying().(*types.Map); isMap {
								for _, o := range p.origins(t.X, OriginOpts{}) {
									if ld, ok := o.(*ssa.UnOp); ok {
										if ia, ok := ld.X.(*ssa.IndexAddr); ok {
											if f := loadedField(ia.X); f != nil && fieldIs(f, "stack") {
												hit = "a scope map holds the name"
											}
										}
									}
								}
							}
						case *ssa.Call:
							if calleeName(&t.Call) == "(*vuego.Stack).Lookup" {
								hit = "Lookup reported the name as bound"
							}
						}
						if hit == "" || leaf != cnd {
							// only a plain `if ok` / `if !ok` names its edge; in a compound condition the ok-edge is the
							// one on which the whole condition can only be true/false together with ok
							if hit != "" {
								// `cur == nil || !ok` → the false edge implies ok
								for k, s := range b.Succs {
									want := (k == 0) != flip
									if impliesTrue(cnd, want, leaf) {
										found = append(found, edge{s, hit, b, leaf})
									}
								}
							}
							continue
						}
						k := 0
						if flip {
							k = 1
						}
						found = append(found, edge{b.Succs[k], hit, b, leaf})
					}
				}
				for _, rd := range reads {
					n++
					bad := ""
					for _, e := range found {
						if e.to == rd.Block() || blocksAfterKnowing(e.from, e.to, e.leaf)[rd.Block()] {
							bad = e.what
						}
					}
					c.check(bad == "", fmt.Sprintf("%s: root data lookup#%d only after the scopes failed", shortName(fn), n), p.instrPos(rd), fmt.Sprintf("not reachable from any of %d `found in the scopes` edge(s)", len(found)),
						"the root data is consulted on a path on which "+bad+": the value comes from the originally filled data although a later Assign / front-matter replaced the variable (and v-if, which reads the merged environment, sees something else)")
				}
			}
			if n == 0 {
				undecided("no by-name lookup in Stack.rootData found")
			}
		},
	})
}

// impliesTrue: when cond evaluates to want, must leaf (a boolean it is built from with && / || / !) be true?
func impliesTrue(cond ssa.Value, want bool, leaf ssa.Value) bool {
	var ev func(v ssa.Value, leafVal bool) (bool, bool)
	ev = func(v ssa.Value, leafVal bool) (val, known bool) {
		if v == leaf {
			return leafVal, true
		}
		switch x := v.(type) {
		case *ssa.UnOp:
			if x.Op == token.NOT {
				r, k := ev(x.X, leafVal)
				return !r, k
			}
		case *ssa.Phi:
			// short-circuit: φ[const, rest] — with the leaf false, is the outcome forced?
			res, have := false, false
			for _, e := range x.Edges {
				r, k := ev(e, leafVal)
				if !k {
					return false, false
				}
				if have && r != res {
					return false, false
				}
				res, have = r, true
			}
			return res, have
		case *ssa.Const:
			if x.Value != nil && x.Value.Kind() == constant.Bool {
				return constant.BoolVal(x.Value), true
			}
		}
		return false, false
	}
	// leaf must be true if, with leaf false, cond is known to be !want
	r, k := ev(cond, false)
	return k && r != want
}

// impliesFalse: when cond evaluates to want, must leaf be false?
func impliesFalse(cond ssa.Value, want bool, leaf ssa.Value) bool {
	var ev func(v ssa.Value) (bool, bool)
	ev = func(v ssa.Value) (val, known bool) {
		if v == leaf {
			return true, true
		}
		switch x := v.(type) {
		case *ssa.UnOp:
			if x.Op == token.NOT {
				r, k := ev(x.X)
				return !r, k
			}
		case *ssa.Phi:
			res, have := false, false
			for _, e := range x.Edges {
				r, k := ev(e)
				if !k || (have && r != res) {
					return false, false
				}
				res, have = r, true
			}
			return res, have
		case *ssa.Const:
			if x.Value != nil && x.Value.Kind() == constant.Bool {
				return constant.BoolVal(x.Value), true
			}
		}
		return false, false
	}
	// leaf must be false if, with leaf true, cond is known to be !want
	r, k := ev(cond)
	return k && r != want
}

// blocksAfterSameRound: blocks reachable from b without taking a back edge.
// blocksAfterKnowing: the blocks that can follow the edge from → to in the same loop round when `known` is true on
// it. A branch on a φ (or its negation) that is entered by an edge whose incoming value is a constant, or `known`
// itself, goes one way only: `value, found = m[k]; if found { break }` … `if found { return }` — the break edge
// carries found == true into the second test.
func blocksAfterKnowing(from, to *ssa.BasicBlock, known ssa.Value) map[*ssa.BasicBlock]bool {
	type step struct{ pred, b *ssa.BasicBlock }
	seenStep := map[step]bool{}
	seen := map[*ssa.BasicBlock]bool{}
	work := []step{{from, to}}
	for len(work) > 0 {
		st := work[len(work)-1]
		work = work[:len(work)-1]
		if seenStep[st] {
			continue
		}
		seenStep[st] = true
		seen[st.b] = true
		only := -1
		if ifi, ok := st.b.Instrs[len(st.b.Instrs)-1].(*ssa.If); ok {
			cnd, flip := stripNot(ifi.Cond)
			if ph, isPhi := cnd.(*ssa.Phi); isPhi && ph.Block() == st.b {
				for k, pr := range st.b.Preds {
					if pr != st.pred || k >= len(ph.Edges) {
						continue
					}
					val, have := false, false
					if c, isC := ph.Edges[k].(*ssa.Const); isC && c.Value != nil {
						val, have = c.Value.String() == "true", true
					} else if known != nil && ph.Edges[k] == known {
						val, have = true, true
					}
					if have {
						if val != flip {
							only = 0
						} else {
							only = 1
						}
					}
				}
			}
		}
		for k, s := range st.b.Succs {
			if only >= 0 && k != only {
				continue
			}
			if s.Dominates(st.b) {
				continue // back edge: another round
			}
			work = append(work, step{st.b, s})
		}
	}
	delete(seen, to)
	for st := range seenStep {
		if st.b == to && st.pred != from {
			seen[to] = true
		}
	}
	return seen
}

func blocksAfterSameRound(b *ssa.BasicBlock) map[*ssa.BasicBlock]bool {
	seen := map[*ssa.BasicBlock]bool{}
	work := []*ssa.BasicBlock{}
	push := func(from *ssa.BasicBlock) {
		for _, s := range from.Succs {
			if !s.Dominates(from) {
				work = append(work, s)
			}
		}
	}
	push(b)
	for len(work) > 0 {
		x := work[len(work)-1]
		work = work[:len(work)-1]
		if seen[x] {
			continue
		}
		seen[x] = true
		push(x)
	}
	return seen
}

// reachableAssuming reports whether target can be reached from the entry of its function when the
// outcome of some branch conditions is fixed: decide(cond) returns (value, true) for a condition whose
// outcome is known under the assumption, (_, false) for one that can go either way.
func reachableAssuming(target *ssa.BasicBlock, decide func(cond ssa.Value) (bool, bool)) bool {
	fn := target.Parent()
	seen := map[*ssa.BasicBlock]bool{}
	work := []*ssa.BasicBlock{fn.Blocks[0]}
	for len(work) > 0 {
		b := work[len(work)-1]
		work = work[:len(work)-1]
		if seen[b] {
			continue
		}
		seen[b] = true
		if b == target {
			return true
		}
		if ifi, ok := b.Instrs[len(b.Instrs)-1].(*ssa.If); ok {
			cnd, flip := stripNot(ifi.Cond)
			if val, known := decide(cnd); known {
				if val != flip {
					work = append(work, b.Succs[0])
				} else {
					work = append(work, b.Succs[1])
				}
				continue
			}
		}
		work = append(work, b.Succs...)
	}
	return false
}

func init() {
	register(&Rule{
		ID: "C08.R11", Props: []string{"C08"}, Min: 2,
		Doc: "passed data is converted whatever its shape: in toMapData the struct→map conversion (StructToMap, which follows pointers itself) is reached for a struct and for a pointer to a struct alike — the only things that may keep data away from it are the nil test and the `already a map[string]any` assertion, plus kind tests that admit both reflect.Struct and reflect.Pointer. Data that misses the conversion becomes an empty map, which Fill then merges over the configuration: theme.yml / data/*.yml would win over Fill(&struct)",
		Run: func(p *Prog, c *Ctx) {
			fn := p.MustFn("vuego.toMapData")
			data := fn.Params[0]
			var conv ssa.CallInstruction
			for _, site := range callsIn(fn) {
				if strings.HasSuffix(calleeName(site.Common()), "reflect.StructToMap") {
					conv = site
				}
			}
			if conv == nil {
				// the conversion may have been inlined by hand or replaced; look for any module call given the data
				for _, site := range callsIn(fn) {
					if callee := site.Common().StaticCallee(); callee != nil && inModule(callee) {
						for _, a := range site.Common().Args {
							if a == ssa.Value(data) {
								conv = site
							}
						}
					}
				}
			}
			if conv == nil {
				c.fail("toMapData: struct data is converted", p.pos(fn.Pos()), "toMapData hands the data to no conversion at all: struct data becomes an empty map")
				return
			}
			kindOf := func(v ssa.Value) bool {
				cl, ok := v.(*ssa.Call)
				return ok && (calleeName(&cl.Call) == "(reflect.Value).Kind" || calleeName(&cl.Call) == "(*reflect.rtype).Kind" || (cl.Call.IsInvoke() && cl.Call.Method.Name() == "Kind"))
			}
			for _, kind := range []struct {
				name string
				val  int64
			}{{"a struct", 25}, {"a pointer to a struct", 22}} {
				reach := reachableAssuming(conv.Block(), func(cond ssa.Value) (bool, bool) {
					b, ok := cond.(*ssa.BinOp)
					if !ok || (b.Op != token.EQL && b.Op != token.NEQ) {
						return false, false
					}
					x, y := b.X, b.Y
					if kindOf(y) {
						x, y = y, x
					}
					if !kindOf(x) {
						return false, false
					}
					k, isK := constInt(y)
					if !isK {
						return false, false
					}
					return (k == kind.val) == (b.Op == token.EQL), true
				})
				c.check(reach, "toMapData: "+kind.name+" reaches the conversion", p.instrPos(conv), "no kind test excludes it", "data that is "+kind.name+" never reaches "+calleeName(conv.Common())+": it is replaced by an empty map, and whatever Fill merges it over (theme.yml, data/*.yml) wins over the caller's data")
			}
			// and nothing else decides
			for i, g := range controllingIfs(conv) {
				bad := ""
				for _, leaf := range condLeaves(g.If.Cond) {
					switch x := leaf.(type) {
					case *ssa.Const:
						continue
					case *ssa.Parameter:
						if x == data {
							continue
						}
					case *ssa.Extract:
						if ta, ok := x.Tuple.(*ssa.TypeAssert); ok && ta.X == ssa.Value(data) {
							continue
						}
						// `if m, ok := otherConverter(data); ok { return m }`: data that takes this way out is
						// converted by a sibling (maps of other types), not replaced by an empty map
						if cl, ok := x.Tuple.(*ssa.Call); ok {
							if callee := cl.Call.StaticCallee(); callee != nil && inModule(callee) && len(cl.Call.Args) == 1 && cl.Call.Args[0] == ssa.Value(data) {
								if _, isMap := callee.Signature.Results().At(0).Type().Underlying().(*types.Map); isMap {
									continue
								}
							}
						}
					case *ssa.Call:
						if kindOf(x) {
							continue
						}
					}
					bad = describeValue(leaf)
				}
				c.check(bad == "", fmt.Sprintf("toMapData: condition#%d before the conversion", i+1), p.instrPos(g.If), "nil test / map assertion / kind test", "whether the data is converted also depends on "+bad+": some data the caller passed is silently replaced by an empty map")
			}
		},
	})
}

func init() {
	register(&Rule{
		ID: "C05.R8", Props: []string{"C05", "C08"}, Min: 5,
		Doc: "text is decoded as a whole or not at all: every JSON / YAML decode in the module (auto-decoding of include attributes, front-matter, configuration files, the json/yaml template functions) uses a whole-input decoder (Unmarshal) — or, where a streaming Decoder is used, the same decoder is asked afterwards whether input is left (More / a second Decode / Buffered / InputOffset). A single Decoder.Decode stops after the first complete value: the string prop `[1] Introduction` would reach the component as the list [1]",
		Run: func(p *Prog, c *Ctx) {
			n := 0
			for _, fn := range p.Funcs {
				if p.Dropped[fn] {
					continue
				}
				for _, site := range callsIn(fn) {
					name := calleeName(site.Common())
					switch {
					case strings.HasSuffix(name, "json.Unmarshal"), strings.Contains(name, "yaml") && strings.HasSuffix(name, ".Unmarshal"):
						n++
						c.ok(fmt.Sprintf("%s: %s#%d", shortName(fn), name, n), p.instrPos(site), "whole-input decoder")
					case strings.HasSuffix(name, ".Decoder).Decode") && (strings.Contains(name, "encoding/json") || strings.Contains(name, "yaml")):
						n++
						dec := site.Common().Args[0]
						checked := false
						for _, other := range callsIn(fn) {
							if other == site || len(other.Common().Args) == 0 {
								continue
							}
							if !(other.Common().Args[0] == dec || sameValue(other.Common().Args[0], dec)) {
								continue
							}
							on := calleeName(other.Common())
							if canFollow(site, other) && (strings.HasSuffix(on, ".More") || strings.HasSuffix(on, ".Decode") || strings.HasSuffix(on, ".Buffered") || strings.HasSuffix(on, ".InputOffset") || strings.HasSuffix(on, ".Token")) {
								checked = true
							}
						}
						c.check(checked, fmt.Sprintf("%s: %s#%d", shortName(fn), name, n), p.instrPos(site), "the decoder is asked for left-over input afterwards",
							"a streaming decoder reads one value and the rest of the text is never looked at: a string that merely begins with a complete JSON/YAML value is replaced by that value (`label=\"[1] Introduction\"` arrives as the list [1])")
					}
				}
			}
		},
	})
}

func init() {
	register(&Rule{
		ID: "C13.R10", Props: []string{"C13"}, Min: 4,
		Doc: "a value position gives up on an expression only if it has the shape of a variable path: in the positions that route template text by substring tests (IsComplexExpr: {{ }}, bound attributes, v-text, v-html), every way through one evaluation on which the scope lookup (Stack.Resolve) reports `not found` and no evaluator (pipe interpreter / expression evaluator) is called passes the edge on which the text was recognised as a plain path (IsVariablePath). Otherwise an expression the substring tests do not know — `!x`, `-n`, `(a)`, `x in xs` — silently renders as nothing here while v-if evaluates it",
		Run: func(p *Prog, c *Ctx) {
			shape := p.Fn("helpers.IsVariablePath")
			n := 0
			for _, fn := range p.Funcs {
				if p.Dropped[fn] {
					continue
				}
				if pk := funcPkg(fn); pk == nil || pk.Path() != modPath {
					continue
				}
				classifies := false
				var resolves []*ssa.Call
				for _, site := range callsIn(fn) {
					switch calleeName(site.Common()) {
					case "helpers.IsComplexExpr":
						classifies = true
					case "(*vuego.Stack).Resolve":
						if cl, ok := site.(*ssa.Call); ok {
							resolves = append(resolves, cl)
						}
					}
				}
				// the pipe interpreter resolves the head of a pipe the same way
				if shortName(fn) == "(*vuego.Vue).evalPipe" {
					classifies = true
				}
				if !classifies || len(resolves) == 0 {
					continue
				}
				evaluator := func(in ssa.Instruction) bool {
					site, ok := in.(ssa.CallInstruction)
					if !ok {
						return false
					}
					nm := calleeName(site.Common())
					return nm == "(*vuego.Vue).evalPipe" || nm == "(*vuego.ExprEvaluator).Eval"
				}
				for _, rs := range resolves {
					n++
					var okVal ssa.Value
					if refs := rs.Referrers(); refs != nil {
						for _, r := range *refs {
							if ex, isEx := r.(*ssa.Extract); isEx && ex.Index == 1 {
								okVal = ex
							}
						}
					}
					key := fmt.Sprintf("%s: unresolved text#%d is evaluated unless it is a plain path", shortName(fn), n)
					if okVal == nil {
						c.ok(key, p.instrPos(rs), "the `found` flag of this lookup is not used")
						continue
					}
					start := fn.Blocks[0]
					if h := loopHeaderOf(rs.Block()); h != nil {
						start = h
					}
					type state struct {
						b         *ssa.BasicBlock
						found     int8 // what the path knows about the lookup's `found` flag: 0 nothing, 1 true, 2 false
						satisfied bool
					}
					seen := map[state]bool{}
					var bad *ssa.BasicBlock
					var walk func(s state)
					walk = func(s state) {
						if seen[s] || bad != nil {
							return
						}
						seen[s] = true
						for _, in := range s.b.Instrs {
							if evaluator(in) {
								s.satisfied = true
							}
						}
						last := s.b.Instrs[len(s.b.Instrs)-1]
						if _, isRet := last.(*ssa.Return); isRet {
							if s.found == 2 && !s.satisfied {
								bad = s.b
							}
							return
						}
						ifi, isIf := last.(*ssa.If)
						for k, succ := range s.b.Succs {
							nx := state{succ, s.found, s.satisfied}
							if isIf && s.b.Succs[0] != s.b.Succs[1] {
								cnd, flip := stripNot(ifi.Cond)
								want := (k == 0) != flip
								if cl, isCall := cnd.(*ssa.Call); isCall && shape != nil && cl.Call.StaticCallee() == shape && want {
									nx.satisfied = true
								}
								// the edge on which `found` can be false
								usesOK := false
								for _, leaf := range condLeaves(cnd) {
									if leaf == okVal {
										usesOK = true
									}
								}
								if usesOK {
									implied := int8(0)
									switch {
									case impliesTrue(cnd, want, okVal):
										implied = 1
									case impliesFalse(cnd, want, okVal):
										implied = 2
									}
									switch {
									case implied != 0 && s.found != 0 && implied != s.found:
										continue // contradicts what an earlier edge of this path established
									case implied != 0:
										nx.found = implied
									case s.found == 0:
										nx.found = 2 // undetermined: assume the worse
									}
								}
							}
							if succ.Dominates(s.b) && succ == start {
								// the end of this round
								if nx.found == 2 && !nx.satisfied {
									bad = s.b
								}
								continue
							}
							if succ.Dominates(s.b) {
								continue
							}
							walk(nx)
						}
					}
					walk(state{start, 0, false})
					where := ""
					if bad != nil && len(bad.Instrs) > 0 {
						where = p.instrPos(bad.Instrs[len(bad.Instrs)-1])
					}
					c.check(bad == nil, key, p.instrPos(rs), "every `not found` outcome either reaches an evaluator or was recognised as a plain path",
						"text that does not resolve as a variable path is dropped without being evaluated (the evaluation ends at "+where+" with no evaluator call and no path-shape test): an expression the substring tests do not recognise — `!x`, `-n`, `(a)`, `x in xs`, `not x` — renders as nothing in this position, while v-if / v-show evaluate it")
				}
			}
			if n == 0 {
				undecided("no value position found that classifies template text and falls back to Stack.Resolve")
			}
		},
	})
}

// holdsNode: the type is *html.Node or a list, array, cell, interface or closure that can hold one.
func holdsNode(t types.Type, depth int) bool {
	if depth > 4 {
		return false
	}
	if nt, ok := t.(*types.Named); ok && nt.Obj().Name() == "Node" && nt.Obj().Pkg() != nil && nt.Obj().Pkg().Path() == "golang.org/x/net/html" {
		return depth > 0 // the node struct itself only behind a pointer
	}
	switch x := t.Underlying().(type) {
	case *types.Pointer:
		return holdsNode(x.Elem(), depth+1)
	case *types.Slice:
		return holdsNode(x.Elem(), depth+1)
	case *types.Array:
		return holdsNode(x.Elem(), depth+1)
	case *types.Interface, *types.Signature:
		return true
	case *types.Tuple:
		for i := 0; i < x.Len(); i++ {
			if holdsNode(x.At(i).Type(), depth+1) {
				return true
			}
		}
	}
	return false
}

func init() {
	register(&Rule{
		ID: "C03.R8", Props: []string{"C03", "C14", "C04", "C05"}, Min: 2,
		Doc: "one implementation of element evaluation: whichever function applies one of the per-element directive handlers (evalVHtml, evalVText, evalAttributes, evalVShow) to an element applies all four, to the same element, in that order — v-show last, so that display:none is applied to the style the bindings produced and a :style that sets display cannot show a hidden element; and whichever function recognises a <template> element and goes on to evaluate its children does so through evalTemplate (include, :required, bindings). A second, partial copy of the element path — as the conditional chain used to have for the member it selected — makes v-text, v-show or include silently disappear from an element just because it also carries v-if / v-else",
		Run: func(p *Prog, c *Ctx) {
			// Rules whose premise is this order, to be re-read whenever it changes: C01.R8 (what the handlers that run
			// *before* the attribute pass may store into attributes), C01.R10 (what a handler that runs *after* it
			// may evaluate), C14.R6 (v-show's write), C01.R1 (the carriers the attribute pass skips).
			handlers := []string{"(*vuego.Vue).evalVHtml", "(*vuego.Vue).evalVText", "(*vuego.Vue).evalAttributes", "(*vuego.Vue).evalVShow"}
			idx := map[string]int{}
			for i, h := range handlers {
				idx[h] = i
				p.MustFn(h)
			}
			n := 0
			tplHandler := p.MustFn("(*vuego.Vue).evalTemplate")
			for _, fn := range p.Funcs {
				if p.Dropped[fn] || fn == tplHandler {
					// <template> is not an output element: its handler uses evalAttributes to collect include
					// props and evalVHtml for <template v-html>; v-text / v-show have no meaning on it
					continue
				}
				// handler calls grouped by the element they are applied to
				type app struct {
					site ssa.CallInstruction
					h    int
				}
				byNode := map[ssa.Value][]app{}
				var order []ssa.Value
				for _, site := range callsIn(fn) {
					h, ok := idx[calleeName(site.Common())]
					if !ok {
						continue
					}
					args := site.Common().Args
					var node ssa.Value
					for _, a := range args {
						if pt, ok := a.Type().(*types.Pointer); ok && isNamed(pt.Elem(), "golang.org/x/net/html", "Node") {
							node = a
						}
					}
					if node == nil {
						continue
					}
					key := node
					for _, k := range order {
						if k == node || sameValue(k, node) {
							key = k
						}
					}
					if _, seen := byNode[key]; !seen {
						order = append(order, key)
					}
					byNode[key] = append(byNode[key], app{site, h})
				}
				for _, node := range order {
					apps := byNode[node]
					n++
					have := map[int]ssa.CallInstruction{}
					for _, a := range apps {
						have[a.h] = a.site
					}
					var missing []string
					for i, h := range handlers {
						if have[i] == nil {
							missing = append(missing, strings.TrimPrefix(h, "(*vuego.Vue)."))
						}
					}
					key := fmt.Sprintf("%s: element path#%d applies every directive handler", shortName(fn), n)
					if len(missing) > 0 {
						c.fail(key, p.instrPos(apps[0].site), "this copy of the element path applies only some of the per-element handlers — "+strings.Join(missing, ", ")+" missing: on the elements that come this way (members selected by a v-if chain, the v-else of an empty loop) those directives are silently ignored")
						continue
					}
					inOrder := true
					for i := 0; i+1 < len(handlers); i++ {
						if !canFollowSameRound(have[i], have[i+1]) || canFollowSameRound(have[i+1], have[i]) && have[i].Block() != have[i+1].Block() {
							inOrder = false
						}
					}
					c.check(inOrder, key, p.instrPos(apps[0].site), "v-html, v-text, attributes, v-show — in this order, on the same element", "the per-element handlers are not applied in the order v-html, v-text, attributes, v-show on every path (v-show before the bindings lets :style overwrite display:none)")
				}
			}
			// <template> elements
			tpl := p.MustFn("(*vuego.Vue).evalTemplate")
			m := 0
			for _, fn := range p.Funcs {
				if p.Dropped[fn] || fn == tpl {
					continue
				}
				if pk := funcPkg(fn); pk == nil || pk.Path() != modPath {
					continue
				}
				for _, b := range fn.Blocks {
					ifi, ok := b.Instrs[len(b.Instrs)-1].(*ssa.If)
					if !ok {
						continue
					}
					for _, want := range []bool{true, false} {
						eq := eqOnEdge(ifi.Cond, want)
						if eq == nil {
							continue
						}
						var tagv ssa.Value
						if s, ok := constString(eq.Y); ok && s == "template" {
							tagv = eq.X
						} else if s, ok := constString(eq.X); ok && s == "template" {
							tagv = eq.Y
						}
						if tagv == nil {
							continue
						}
						f := loadedField(tagv)
						if f == nil || !fieldIs(f, "Data") {
							continue
						}
						succ := b.Succs[0]
						if !want {
							succ = b.Succs[1]
						}
						// what happens with the element on the `is a template` side
						region := blocksAfterSameRound(succ)
						region[succ] = true
						evalsChildren, viaTemplate := ssa.Instruction(nil), false
						for rb := range region {
							if !succ.Dominates(rb) {
								continue
							}
							for _, in := range rb.Instrs {
								if site, ok := in.(ssa.CallInstruction); ok {
									switch calleeName(site.Common()) {
									case "(*vuego.Vue).evaluateChildren":
										evalsChildren = in
									case "(*vuego.Vue).evalTemplate":
										viaTemplate = true
									}
								}
							}
						}
						if evalsChildren == nil && !viaTemplate {
							continue
						}
						m++
						c.check(viaTemplate, fmt.Sprintf("%s: <template> branch#%d goes through evalTemplate", shortName(fn), m), p.instrPos(ifi), "evalTemplate handles the element",
							"a <template> element is unwrapped here by evaluating its children directly: include, :required and the template's bindings are not processed on this path (`<template v-if=\"x\" include=\"c.vuego\">` renders nothing)")
					}
				}
			}
			if n == 0 {
				undecided("no function applies the per-element directive handlers")
			}
		},
	})
}

func init() {
	register(&Rule{
		ID: "C02.R7", Props: []string{"C02", "C14", "C19"}, Min: 2,
		Doc: "attribute names are written in full: every function that writes an attribute's Key to the output (the serialiser's renderAttrs, the formatter's renderOpenTag) also consults the attribute's Namespace — the parser splits `xlink:href`, `xml:lang`, `xmlns:xlink` on foreign (SVG / MathML) elements into Namespace and Key, and a writer that only looks at Key turns them into `href`, `lang`, `xlink`: a different attribute",
		Run: func(p *Prog, c *Ctx) {
			isAttrField := func(v ssa.Value, name string) bool {
				switch x := v.(type) {
				case *ssa.UnOp:
					if fa, ok := x.X.(*ssa.FieldAddr); ok && x.Op == token.MUL {
						if pt, ok := fa.X.Type().Underlying().(*types.Pointer); ok && isNamed(pt.Elem(), "golang.org/x/net/html", "Attribute") {
							return fieldName(fa.X.Type(), fa.Field) == name
						}
					}
				case *ssa.Field:
					if isNamed(x.X.Type(), "golang.org/x/net/html", "Attribute") {
						return fieldNameStruct(x.X.Type(), x.Field) == name
					}
				}
				return false
			}
			n := 0
			for _, fn := range p.Funcs {
				if p.Dropped[fn] {
					continue
				}
				// does a Key reach an output call here?
				var writes ssa.Instruction
				readsNS := false
				eachInstr(fn, func(in ssa.Instruction) {
					if v, ok := in.(ssa.Value); ok && isAttrField(v, "Namespace") {
						readsNS = true
					}
					site, ok := in.(ssa.CallInstruction)
					if !ok {
						return
					}
					name := calleeName(site.Common())
					if !(strings.HasSuffix(name, ".WriteString") || strings.HasSuffix(name, ".Write") || strings.HasPrefix(name, "fmt.Fprint") || name == "io.WriteString") {
						return
					}
					for _, a := range callArgs(site.Common()) {
						for _, o := range p.origins(a, OriginOpts{}) {
							if isAttrField(o, "Key") {
								writes = in
							}
							// key = key[1:len-1] for bracketed attributes
							if sl, ok := o.(*ssa.Slice); ok {
								for _, oo := range p.origins(sl.X, OriginOpts{}) {
									if isAttrField(oo, "Key") {
										writes = in
									}
								}
							}
						}
					}
				})
				if writes == nil {
					continue
				}
				if shortName(fn) == "diff.renderNodeForDiff" {
					continue // not an output path: renders two DOMs as text for a human-readable diff in test failures
				}
				n++
				c.check(readsNS, fmt.Sprintf("%s: attribute writer#%d writes the namespace prefix", shortName(fn), n), p.instrPos(writes), "Attribute.Namespace is consulted", "the attribute's name is written from Key alone: on SVG / MathML elements `xlink:href`, `xml:lang` and `xmlns:xlink` come out as `href`, `lang` and `xlink` — other attributes than the template has")
			}
			// ... and an attribute that is rebuilt from another one keeps it: html.Attribute{Key: a.Key…} needs Namespace: a.Namespace
			m := 0
			for _, fn := range p.Funcs {
				if p.Dropped[fn] {
					continue
				}
				eachInstr(fn, func(in ssa.Instruction) {
					al, ok := in.(*ssa.Alloc)
					if !ok {
						return
					}
					pt, ok := al.Type().Underlying().(*types.Pointer)
					if !ok || !isNamed(pt.Elem(), "golang.org/x/net/html", "Attribute") {
						return
					}
					if _, isNamedT := pt.Elem().(*types.Named); !isNamedT {
						return
					}
					fromKey, hasNS := false, false
					var at ssa.Instruction
					if refs := al.Referrers(); refs != nil {
						for _, r := range *refs {
							fa, ok := r.(*ssa.FieldAddr)
							if !ok || fa.Referrers() == nil {
								continue
							}
							for _, u := range *fa.Referrers() {
								st, ok := u.(*ssa.Store)
								if !ok || st.Addr != ssa.Value(fa) {
									continue
								}
								switch fieldName(fa.X.Type(), fa.Field) {
								case "Key":
									for _, o := range p.origins(st.Val, OriginOpts{}) {
										if isAttrField(o, "Key") {
											fromKey, at = true, st
										}
										if sl, ok := o.(*ssa.Slice); ok {
											for _, oo := range p.origins(sl.X, OriginOpts{}) {
												if isAttrField(oo, "Key") {
													fromKey, at = true, st
												}
											}
										}
									}
								case "Namespace":
									for _, o := range p.origins(st.Val, OriginOpts{}) {
										if isAttrField(o, "Namespace") {
											hasNS = true
										}
									}
								}
							}
						}
					}
					if !fromKey {
						return
					}
					// a construction that is only reached for keys equal to a constant (the internal carriers)
					// names a known attribute of the HTML namespace
					if enteredOnlyUnder(at.Block(), func(cond ssa.Value, want bool) bool {
						x, set, member, ok := inSetOnEdge(cond, want)
						if !ok || !member || len(set) == 0 {
							return false
						}
						for _, o := range p.origins(x, OriginOpts{}) {
							if isAttrField(o, "Key") {
								return true
							}
						}
						return false
					}) {
						return
					}
					m++
					c.check(hasNS, fmt.Sprintf("%s: rebuilt attribute#%d keeps the namespace", shortName(fn), m), p.instrPos(at), "Namespace copied along with Key", "an attribute is rebuilt from another one's Key (and value) without its Namespace: after evaluation `xlink:href` on an SVG element is an attribute named `href`")
				})
			}
		},
	})

	register(&Rule{
		ID: "C19.R9", Props: []string{"C19", "C02"}, Min: 2,
		Doc: "markup keywords are recognised in any letter case: wherever the formatter or the template parser decides from the source text whether it is a full document (`<!DOCTYPE`, `<html`, `</html`) the test is case-insensitive — EqualFold, or a prefix / containment test on a case-folded copy. A case-sensitive test sends `<!doctype html>` down the fragment path, where the parser drops the doctype and the html / head / body elements",
		Run: func(p *Prog, c *Ctx) {
			keyword := func(s string) bool {
				l := strings.ToLower(s)
				return strings.HasPrefix(l, "<!doctype") || strings.HasPrefix(l, "<html") || strings.HasPrefix(l, "</html") || strings.HasPrefix(l, "<body") || strings.HasPrefix(l, "<head")
			}
			var folded func(v ssa.Value, depth int) bool
			folded = func(v ssa.Value, depth int) bool {
				if depth > 6 {
					return false
				}
				for _, o := range p.origins(v, OriginOpts{}) {
					switch x := o.(type) {
					case *ssa.Call:
						switch calleeName(&x.Call) {
						case "strings.ToLower", "strings.ToUpper", "bytes.ToLower", "bytes.ToUpper":
							return true
						case "strings.TrimSpace", "bytes.TrimSpace", "strings.TrimLeft", "bytes.TrimLeft":
							if folded(x.Call.Args[0], depth+1) {
								return true
							}
						}
					case *ssa.Slice:
						if folded(x.X, depth+1) {
							return true
						}
					case *ssa.Convert:
						if folded(x.X, depth+1) {
							return true
						}
					}
				}
				return false
			}
			n := 0
			for _, fn := range p.Funcs {
				if p.Dropped[fn] {
					continue
				}
				pk := funcPkg(fn)
				if pk == nil || !(strings.HasSuffix(pk.Path(), "/formatter") || strings.HasSuffix(pk.Path(), "/internal/parser")) {
					continue
				}
				for _, site := range callsIn(fn) {
					name := calleeName(site.Common())
					args := site.Common().Args
					switch name {
					case "strings.HasPrefix", "strings.Contains", "strings.Index", "bytes.HasPrefix", "bytes.Contains", "bytes.Index", "strings.HasSuffix", "bytes.HasSuffix":
						kw := args[1]
						if cv, ok := kw.(*ssa.Convert); ok {
							kw = cv.X
						}
						s, ok := constString(kw)
						if !ok || !keyword(s) {
							continue
						}
						n++
						c.check(folded(args[0], 0), fmt.Sprintf("%s: %s(…, %q)#%d ignores letter case", shortName(fn), name, s, n), p.instrPos(site), "applied to a case-folded copy", "the source is compared with "+fmt.Sprintf("%q", s)+" case-sensitively: a document written with the keyword in another case (`<!doctype html>`, `<HTML>`) is not recognised as a full document and loses its doctype / html / head / body on the fragment path")
					default:
						// a predicate of the module that is handed the keyword: it must compare case-insensitively
						callee := site.Common().StaticCallee()
						if callee == nil || !inModule(callee) || len(callee.Blocks) == 0 {
							continue
						}
						for ai, a := range args {
							if cv, ok := a.(*ssa.Convert); ok {
								a = cv.X
							}
							s, ok := constString(a)
							if !ok || !keyword(s) || ai >= len(callee.Params) {
								continue
							}
							// (followed through module predicates that only hand the keyword on: hasTagPrefixFold → hasPrefixFold)
							foldedUse, plainUse := keywordUse(p, callee, ai, 0)
							n++
							c.check(foldedUse && plainUse == "", fmt.Sprintf("%s: %s(…, %q)#%d ignores letter case", shortName(fn), name, s, n), p.instrPos(site), "the predicate compares with EqualFold / on a case-folded copy", "the source is compared with "+fmt.Sprintf("%q", s)+" case-sensitively (by "+plainUse+" inside "+name+"): a document written with the keyword in another case is not recognised as a full document")
						}
					case "strings.EqualFold", "bytes.EqualFold":
						for _, a := range args {
							if cv, ok := a.(*ssa.Convert); ok {
								a = cv.X
							}
							if s, ok := constString(a); ok && keyword(s) {
								n++
								c.ok(fmt.Sprintf("%s: EqualFold(…, %q)#%d", shortName(fn), s, n), p.instrPos(site), "case-insensitive comparison")
							}
						}
					}
				}
			}
		},
	})

	register(&Rule{
		ID: "C19.R10", Props: []string{"C19"}, Min: 2,
		Doc: "whitespace that is content stays: the formatter's verbatim branch (open tag, children written as they are, close tag) is taken for pre and textarea alike, and it writes an extra newline when the content begins with one — the HTML parser drops a single newline that directly follows the start tag of these elements, so `<pre>\\n\\nfoo</pre>` would lose a line with every formatting pass",
		Run: func(p *Prog, c *Ctx) {
			fn := p.MustFn("(*formatter.Formatter).formatNode")
			pre := p.MustFn("(*formatter.Formatter).renderPreContent")
			var site ssa.CallInstruction
			for _, s := range callsIn(fn) {
				if s.Common().StaticCallee() == pre {
					site = s
				}
			}
			if site == nil {
				undecided("formatNode does not call renderPreContent")
			}
			// which tags lead to the verbatim branch
			tags := map[string]bool{}
			walkSet := func(cond ssa.Value, want bool) bool {
				if x, set, member, ok := inSetOnEdge(cond, want); ok && member {
					if f := loadedField(x); f != nil && fieldIs(f, "Data") {
						for _, s := range set {
							tags[s] = true
						}
					}
				}
				return false
			}
			for _, b := range fn.Blocks {
				ifi, ok := b.Instrs[len(b.Instrs)-1].(*ssa.If)
				if !ok {
					continue
				}
				cnd, flip := stripNot(ifi.Cond)
				for k, s := range b.Succs {
					if s == site.Block() || s.Dominates(site.Block()) {
						walkSet(cnd, (k == 0) != flip)
					}
				}
			}
			for _, need := range []string{"pre", "textarea"} {
				c.check(tags[need], "formatNode: <"+need+"> content is written verbatim", p.instrPos(site), "the verbatim branch is taken for "+strings.Join(sortedKeys(tags), ", "), "<"+need+"> does not take the verbatim branch (taken for: "+strings.Join(sortedKeys(tags), ", ")+"): its content — where every space and line break counts — is trimmed, re-indented or collapsed like ordinary text")
			}
			// the leading newline
			found := false
			for _, f := range []*ssa.Function{fn, pre} {
				for _, s := range callsIn(f) {
					if calleeName(s.Common()) != "strings.HasPrefix" {
						continue
					}
					if k, ok := constString(s.Common().Args[1]); !ok || k != "\n" {
						continue
					}
					// on the true edge a "\n" is written
					cl, _ := s.(*ssa.Call)
					if cl == nil {
						continue
					}
					for _, b := range f.Blocks {
						ifi, ok := b.Instrs[len(b.Instrs)-1].(*ssa.If)
						if !ok {
							continue
						}
						uses := false
						for _, leaf := range condLeaves(ifi.Cond) {
							if leaf == ssa.Value(cl) {
								uses = true
							}
						}
						if !uses {
							continue
						}
						for _, in := range b.Succs[0].Instrs {
							if w, ok := in.(ssa.CallInstruction); ok && strings.HasSuffix(calleeName(w.Common()), ".WriteString") {
								if k, ok := constString(w.Common().Args[len(w.Common().Args)-1]); ok && k == "\n" {
									found = true
								}
							}
						}
					}
				}
			}
			c.check(found, "formatNode: a leading newline of verbatim content is doubled", p.instrPos(site), "HasPrefix(content, \"\\n\") → an extra \"\\n\" after the start tag", "content of <pre> / <textarea> that begins with a newline is written directly after the start tag: the parser drops that newline when the formatted text is read again, so the content loses its first line break (and one more with every pass)")
		},
	})

	register(&Rule{
		ID: "C19.R11", Props: []string{"C19"}, Min: 1,
		Doc: "the text escaper looks at every byte it copies: in the formatter's escapeText no stretch of the input is copied wholesale (WriteString of a slice of the input) — every byte of the input reaches the output through the per-byte decision that knows `<`, `>` and `&`, also inside {{ }} where the operators stay readable only as long as the parser cannot read markup into them (`{{ a <b }}` would come back as a <b> element)",
		Run: func(p *Prog, c *Ctx) {
			fn := p.MustFn("formatter.escapeText")
			in := fn.Params[0]
			n, bad := 0, 0
			for _, site := range callsIn(fn) {
				name := calleeName(site.Common())
				if !strings.HasSuffix(name, ".WriteString") && !strings.HasSuffix(name, ".Write") {
					continue
				}
				arg := site.Common().Args[len(site.Common().Args)-1]
				n++
				whole := false
				for _, o := range p.origins(arg, OriginOpts{}) {
					if sl, ok := o.(*ssa.Slice); ok {
						for _, oo := range p.origins(sl.X, OriginOpts{}) {
							if oo == ssa.Value(in) {
								whole = true
							}
						}
					}
					if o == ssa.Value(in) {
						whole = true
					}
				}
				if whole {
					bad++
				}
				c.check(!whole, fmt.Sprintf("escapeText: write#%d", n), p.instrPos(site), "a constant replacement", "a stretch of the input text is copied to the output without looking at its bytes: a `<` followed by a letter (or an `&` followed by a name) inside it is read as markup when the formatted text is parsed again")
			}
			if n == 0 {
				undecided("escapeText writes nothing with WriteString")
			}
		},
	})
}

func init() {
	register(&Rule{
		ID: "C20.R9", Props: []string{"C20", "C10"}, Min: 2,
		Doc: "every Markdown document is parsed on its own: the calls of the goldmark parser (Parser.Parse) made by the renderer are handed no option that holds a value kept in the long-lived Markdown object or in a package-level variable — a parser.Context carries the link reference definitions of the document, and one that is shared makes the definitions of an earlier document visible in every later one (`[faq]` becomes a link, `[1]:` resolves to the first document's target)",
		Run: func(p *Prog, c *Ctx) {
			n := 0
			for _, fn := range p.Funcs {
				if p.Dropped[fn] {
					continue
				}
				if pk := funcPkg(fn); pk == nil || pk.Path() != markdownPkg {
					continue
				}
				for _, site := range callsIn(fn) {
					cc := site.Common()
					if !(cc.IsInvoke() && cc.Method.Name() == "Parse" && strings.Contains(typeShort(cc.Value.Type()), "parser.Parser")) {
						continue
					}
					n++
					bad := ""
					args := cc.Args
					if len(args) >= 2 {
						// the options slice: every element stored into its backing array
						var elems []ssa.Value
						for _, o := range p.origins(args[len(args)-1], OriginOpts{}) {
							if al0, ok := o.(*ssa.Alloc); ok {
								o = &ssa.Slice{X: al0}
							}
							if sl, ok := o.(*ssa.Slice); ok {
								if al, ok := sl.X.(*ssa.Alloc); ok && al.Referrers() != nil {
									for _, r := range *al.Referrers() {
										if ia, ok := r.(*ssa.IndexAddr); ok && ia.Referrers() != nil {
											for _, u := range *ia.Referrers() {
												if st, ok := u.(*ssa.Store); ok {
													elems = append(elems, st.Val)
												}
											}
										}
									}
								}
							} else if _, isConst := o.(*ssa.Const); !isConst {
								elems = append(elems, o)
							}
						}
						if os.Getenv("VC_DEBUG") != "" {
							for _, e := range elems {
								fmt.Fprintf(os.Stderr, "DEBUG C20.R9 elem %s\n", e.String())
								for _, o := range p.origins(e, OriginOpts{}) {
									fmt.Fprintf(os.Stderr, "DEBUG   origin %s\n", o.String())
								}
							}
						}
						for _, e := range elems {
							seen := map[ssa.Value]bool{}
							var walk func(v ssa.Value, d int)
							walk = func(v ssa.Value, d int) {
								if v == nil || seen[v] || d > 6 || bad != "" {
									return
								}
								seen[v] = true
								for _, o := range p.origins(v, OriginOpts{}) {
									if f := loadedField(o); f != nil {
										bad = "field " + f.Name()
										return
									}
									if ld, ok := o.(*ssa.UnOp); ok && ld.Op == token.MUL {
										if g, ok := ld.X.(*ssa.Global); ok {
											bad = "package-level " + g.Name()
											return
										}
									}
									if cl, ok := o.(*ssa.Call); ok {
										for _, a := range cl.Call.Args {
											walk(a, d+1)
										}
									}
								}
							}
							walk(e, 0)
						}
					}
					c.check(bad == "", fmt.Sprintf("%s: Parser.Parse#%d starts from a clean state", shortName(fn), n), p.instrPos(site), "no parse option holds long-lived state", "the parser is handed an option built from "+bad+": parse state (link reference definitions) survives from one document to the next, so what a document renders to depends on the documents rendered before it")
				}
			}
		},
	})

	register(&Rule{
		ID: "C02.R8", Props: []string{"C02", "C01"}, Min: 3,
		Doc: "interpolation delimiters are found from the left: every search for the constant `{{` or `}}` in the module uses a first-occurrence function (Index, Contains, Count, Cut, HasPrefix, Split…) — an expression ends at the first `}}` after its `{{`; a last-occurrence search (LastIndex…) takes the static text between two closers for part of the expression (`{{ id }}}` loses the value and the brace)",
		Run: func(p *Prog, c *Ctx) {
			n := 0
			for _, fn := range p.Funcs {
				if p.Dropped[fn] {
					continue
				}
				for _, site := range callsIn(fn) {
					name := calleeName(site.Common())
					if !strings.HasPrefix(name, "strings.") && !strings.HasPrefix(name, "bytes.") {
						continue
					}
					isDelim := false
					for _, a := range site.Common().Args {
						if cv, ok := a.(*ssa.Convert); ok {
							a = cv.X
						}
						if s, ok := constString(a); ok && (s == "{{" || s == "}}") {
							isDelim = true
						}
					}
					if !isDelim {
						continue
					}
					n++
					c.check(!strings.Contains(name, "Last"), fmt.Sprintf("%s: %s of a delimiter#%d", shortName(fn), name, n), p.instrPos(site), "first-occurrence search", "the delimiter is searched from the right ("+name+"): with two closers in reach the later one is taken, so `{{ id }}}` evaluates `id }` and drops both the value and the brace")
				}
			}
		},
	})
}

// keywordUse: how a module predicate uses its parameter number pi — in a case-insensitive comparison (EqualFold, a
// folded copy), in a plain one (the name of the function is returned), or by handing it on to another module
// function, which is then asked the same question.
func keywordUse(p *Prog, callee *ssa.Function, pi int, depth int) (folded bool, plain string) {
	if depth > 3 || pi >= len(callee.Params) {
		return false, ""
	}
	prm := callee.Params[pi]
	for _, cs := range callsIn(callee) {
		argIdx := -1
		for i, ca := range cs.Common().Args {
			for _, o := range p.origins(ca, OriginOpts{}) {
				if o == ssa.Value(prm) {
					argIdx = i
				}
			}
		}
		if argIdx < 0 {
			continue
		}
		switch cn := calleeName(cs.Common()); cn {
		case "strings.EqualFold", "bytes.EqualFold", "strings.ToLower", "strings.ToUpper", "bytes.ToLower", "bytes.ToUpper":
			folded = true
		case "strings.HasPrefix", "strings.Contains", "strings.Index", "bytes.HasPrefix", "bytes.Contains", "bytes.Index", "strings.HasSuffix", "bytes.HasSuffix", "bytes.Equal":
			plain = cn
		default:
			if next := cs.Common().StaticCallee(); next != nil && inModule(next) && len(next.Blocks) > 0 {
				f2, p2 := keywordUse(p, next, argIdx, depth+1)
				if f2 {
					folded = true
				}
				if p2 != "" {
					plain = p2
				}
			}
		}
	}
	return folded, plain
}
