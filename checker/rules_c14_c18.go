package main

import (
	"fmt"
	"go/constant"
	"go/token"
	"go/types"
	"sort"
	"strings"

	"golang.org/x/tools/go/ssa"
)

// directiveKeysRead collects the constant attribute keys the evaluator consumes or produces:
// constant arguments of HasAttr/GetAttr/SetAttr/RemoveAttr/FilterAttrs and constants compared with
// an attribute's Key, restricted to the v- / data-v- namespace.
func (p *Prog) directiveKeysRead() map[string]string {
	out := map[string]string{}
	cone := p.Cone(p.renderEntries()...)
	for _, fn := range sortedFuncs(cone) {
		for _, site := range callsIn(fn) {
			n := calleeName(site.Common())
			switch n {
			case "helpers.HasAttr", "helpers.GetAttr", "helpers.SetAttr", "helpers.RemoveAttr", "helpers.AppendAttr", "helpers.FilterAttrs":
				if len(site.Common().Args) > 1 {
					if k, ok := constString(site.Common().Args[1]); ok {
						out[k] = shortName(fn) + " at " + p.instrPos(site)
					}
				}
			}
		}
		eachInstr(fn, func(in ssa.Instruction) {
			// html.Attribute{Key: "const", ...} literals and Key == "const" comparisons
			if st, ok := in.(*ssa.Store); ok {
				if fv := fieldVar(st.Addr); fv != nil && fieldIs(fv, "Key") && fv.Pkg() != nil && fv.Pkg().Path() == "golang.org/x/net/html" {
					if k, ok := constString(st.Val); ok {
						out[k] = shortName(fn) + " at " + p.instrPos(st)
					}
				}
			}
			if b, ok := in.(*ssa.BinOp); ok && b.Op == token.EQL {
				if k, ok := constString(b.Y); ok {
					if f := loadedField(b.X); f != nil && fieldIs(f, "Key") {
						out[k] = shortName(fn) + " at " + p.instrPos(b)
					}
				}
			}
		})
	}
	return out
}

func init() {
	register(&Rule{
		ID: "C14.R1", Props: []string{"C14", "C02"}, Min: 12,
		Doc: "directive keys never leak: every constant v-* / data-v-* attribute key that the evaluator reads, writes or compares (HasAttr/GetAttr/SetAttr/..., Attribute{Key: …}, attr.Key == …) is in the set for which the serialiser's shouldIgnoreAttr returns true — reader table and filter table agree",
		Run: func(p *Prog, c *Ctx) {
			ignored := map[string]bool{}
			for _, k := range p.ignoredAttrKeys() {
				ignored[k] = true
			}
			// the filter function must return true exactly on those comparisons: all constant cases lead to `return true`
			keys := p.directiveKeysRead()
			var names []string
			for k := range keys {
				names = append(names, k)
			}
			sort.Strings(names)
			for _, k := range names {
				if !(strings.HasPrefix(k, "v-") || strings.HasPrefix(k, "data-v-")) {
					continue
				}
				if k == "v-slot" || strings.HasPrefix(k, "v-slot:") || k == "v-bind:" {
					// consumed on <template> elements that are never serialised with their attributes
					c.ok("key "+k, "-", "consumed on <template>/<slot>, which are not serialised with attributes")
					continue
				}
				c.check(ignored[k], "key "+k, "-", "filtered by shouldIgnoreAttr; used by "+keys[k], "the directive/internal attribute \""+k+"\" is used by "+keys[k]+" but shouldIgnoreAttr does not filter it: it appears in the output")
			}
			c.ok("filter table", p.pos(p.MustFn("vuego.shouldIgnoreAttr").Pos()), fmt.Sprintf("%d keys filtered", len(ignored)))
		},
	})

	register(&Rule{
		ID: "C14.R2", Props: []string{"C14"}, Min: 3,
		Doc: "bracketed attributes bypass the filter and are unwrapped: shouldIgnoreAttr returns false for a bracketed key before consulting the table, and renderAttrs emits the key with exactly its first and last byte removed",
		Run: func(p *Prog, c *Ctx) {
			ign := p.MustFn("vuego.shouldIgnoreAttr")
			// every way of returning something other than the constant false arises only when isLiteralAttr(key) is false
			okFirst := len(ign.Params) == 1
			nAlt := 0
			for _, ret := range returnsOf(ign) {
				for _, alt := range alternatives(ret.Results[0], ret.Block()) {
					if cst, ok := alt.V.(*ssa.Const); ok && cst.Value != nil && cst.Value.String() == "false" {
						continue
					}
					nAlt++
					if !alt.holdsFor(func(cnd ssa.Value, want bool) bool {
						cl := isCallNamed(cnd, "vuego.isLiteralAttr")
						return cl != nil && !want && len(ign.Params) == 1 && cl.Call.Args[0] == ign.Params[0]
					}) {
						okFirst = false
					}
				}
			}
			if nAlt == 0 {
				okFirst = false
			}
			c.check(okFirst, "shouldIgnoreAttr: literal attributes are never ignored", p.pos(ign.Pos()), "isLiteralAttr(key) → false is tested first", "a bracketed [attr] can be filtered like a directive: shouldIgnoreAttr does not return false for literal attributes before consulting the table")
			ra := p.MustFn("vuego.renderAttrs")
			unwrap := false
			eachInstr(ra, func(in ssa.Instruction) {
				sl, ok := in.(*ssa.Slice)
				if !ok || !isString(sl.Type()) {
					return
				}
				lo, ok1 := constInt(sl.Low)
				hiOK := false
				if b, ok := sl.High.(*ssa.BinOp); ok && b.Op == token.SUB {
					if one, ok := constInt(b.Y); ok && one == 1 && isCallNamed(b.X, "builtin.len") != nil {
						hiOK = true
					}
				}
				if ok1 && lo == 1 && hiOK {
					unwrap = guardedBy(sl.Block(), func(cnd ssa.Value, want bool) bool {
						return want && isCallNamed(cnd, "vuego.isLiteralAttr") != nil
					})
				}
			})
			c.check(unwrap, "renderAttrs: brackets removed", p.pos(ra.Pos()), "key[1:len(key)-1] under isLiteralAttr", "renderAttrs does not unwrap a bracketed key to key[1:len-1]")
			// the literal test precedes the ignore decision in renderAttrs: the `continue` on shouldIgnoreAttr relies on R2a
			lit := p.MustFn("vuego.isLiteralAttr")
			hasPre, hasSuf := false, false
			for _, site := range callsIn(lit) {
				if isCall(site, "strings.HasPrefix") {
					if s, ok := constString(site.Common().Args[1]); ok && s == "[" {
						hasPre = true
					}
				}
				if isCall(site, "strings.HasSuffix") {
					if s, ok := constString(site.Common().Args[1]); ok && s == "]" {
						hasSuf = true
					}
				}
			}
			// ... or the same as byte comparisons: key[0] == '[' and key[len(key)-1] == ']'
			eachInstr(lit, func(in ssa.Instruction) {
				b, ok := in.(*ssa.BinOp)
				if !ok || b.Op != token.EQL {
					return
				}
				for _, pair := range [][2]ssa.Value{{b.X, b.Y}, {b.Y, b.X}} {
					k, isK := constInt(pair[1])
					if !isK {
						continue
					}
					var idx ssa.Value
					switch x := pair[0].(type) {
					case *ssa.Lookup:
						idx = x.Index
					case *ssa.Index:
						idx = x.Index
					case *ssa.UnOp:
						if ia, ok := x.X.(*ssa.IndexAddr); ok {
							idx = ia.Index
						}
					}
					if idx == nil {
						continue
					}
					if i, ok := constInt(idx); ok && i == 0 && k == '[' {
						hasPre = true
					}
					if bo, ok := idx.(*ssa.BinOp); ok && bo.Op == token.SUB && k == ']' {
						if one, ok := constInt(bo.Y); ok && one == 1 && isCallNamed(bo.X, "builtin.len") != nil {
							hasSuf = true
						}
					}
				}
			})
			c.check(hasPre && hasSuf, "isLiteralAttr: [ … ]", p.pos(lit.Pos()), "prefix [ and suffix ]", "isLiteralAttr no longer tests both brackets")
		},
	})

	register(&Rule{
		ID: "C14.R3", Props: []string{"C14", "C03"}, Min: 2,
		Doc: "falsy omits: in the attribute evaluator a bound result is recorded — in the collection that is read back into the element's attributes — only on the IsTruthy(value)==true edge, before any merge with a same-named static attribute; a later append of a bound attribute is guarded by IsTruthy as well (the map of props handed to an include may hold falsy values: :count=\"0\" passes 0)",
		Run: func(p *Prog, c *Ctx) {
			fn := p.MustFn("(*vuego.Vue).evalAttributes")
			n := 0
			eachInstr(fn, func(in ssa.Instruction) {
				mu, ok := in.(*ssa.MapUpdate)
				if !ok {
					return
				}
				// results[boundName] = boundValue, where the value comes from evalBoundAttribute
				fromBound := false
				for _, o := range p.origins(mu.Value, OriginOpts{}) {
					if ex, ok := o.(*ssa.Extract); ok && isCallNamed(ex.Tuple, "(*vuego.Vue).evalBoundAttribute") != nil {
						fromBound = true
					}
				}
				if !fromBound {
					return
				}
				n++
				// A map that only collects the props (written here, handed back to the caller, asked for
				// presence) may hold falsy values: :count="0" is the prop 0. What counts is the map whose
				// values are read back into the element's attributes.
				readBack := false
				for _, mo := range p.origins(mu.Map, OriginOpts{}) {
					mk, ok := mo.(*ssa.MakeMap)
					if !ok || mk.Referrers() == nil {
						readBack = true // not a local collection: assume the worst
						continue
					}
					for _, r := range *mk.Referrers() {
						lk, ok := r.(*ssa.Lookup)
						if !ok || lk.X != ssa.Value(mk) {
							continue
						}
						if !lk.CommaOk {
							readBack = true
							continue
						}
						if lk.Referrers() != nil {
							for _, u := range *lk.Referrers() {
								if ex, ok := u.(*ssa.Extract); ok && ex.Index == 0 && ex.Referrers() != nil && len(*ex.Referrers()) > 0 {
									readBack = true
								}
							}
						}
					}
				}
				if !readBack {
					c.ok(fmt.Sprintf("evalAttributes: bound result recorded#%d", n), p.instrPos(mu), "kept as the value of the prop only; this map is never read back into the attributes")
					return
				}
				guarded := guardedBy(mu.Block(), func(cnd ssa.Value, want bool) bool {
					if cl := isCallNamed(cnd, "helpers.IsTruthy"); cl != nil && want {
						for _, o := range p.origins(cl.Call.Args[0], OriginOpts{}) {
							if ex, ok := o.(*ssa.Extract); ok && isCallNamed(ex.Tuple, "(*vuego.Vue).evalBoundAttribute") != nil {
								return true
							}
						}
					}
					return false
				})
				c.check(guarded, fmt.Sprintf("evalAttributes: bound result recorded#%d", n), p.instrPos(mu), "only when IsTruthy(value)", "a bound attribute value is recorded without the IsTruthy guard: a falsy value is emitted (href=\"\", title=\"false\") or clobbers the static attribute of the same name")
			})
			c.check(n > 0, "evalAttributes: records bound results", p.pos(fn.Pos()), fmt.Sprintf("%d store(s)", n), "bound attribute results are no longer recorded")
		},
	})

	register(&Rule{
		ID: "C14.R6", Props: []string{"C14", "C03"}, Min: 2,
		Doc: "display:none exactly when falsy: the only call that writes a style property in the v-show handler is on the IsTruthy(value)==false edge, and no path with a truthy value reaches a style write",
		Run: func(p *Prog, c *Ctx) {
			fn := p.MustFn("(*vuego.Vue).evalVShow")
			n := 0
			for _, site := range callsIn(fn) {
				nm := calleeName(site.Common())
				if nm != "(*vuego.Vue).setStyleProperty" && nm != "helpers.SetAttr" && nm != "helpers.AppendAttr" {
					continue
				}
				n++
				// `the value is falsy` as a branch outcome: IsTruthy(v) false, or `not found` of a scope lookup
				falsyEdge := func(cnd ssa.Value, want bool) bool {
					if isCallNamed(cnd, "helpers.IsTruthy") != nil && !want {
						return true
					}
					if ex, ok := cnd.(*ssa.Extract); ok && ex.Index == 1 && !want {
						if cl, ok := ex.Tuple.(*ssa.Call); ok {
							switch calleeName(&cl.Call) {
							case "(*vuego.Stack).Resolve", "(*vuego.Stack).Lookup":
								return true
							}
						}
					}
					// the condition's verdict as a value (v-show and v-if share one evaluation): false
					if ex, ok := cnd.(*ssa.Extract); ok && ex.Index == 0 && !want {
						if cl, ok := ex.Tuple.(*ssa.Call); ok && calleeName(&cl.Call) == "(*vuego.Vue).evalConditionExpr" {
							return true
						}
					}
					return false
				}
				// a boolean computed first and tested later (`hidden := …; if hidden`): true only where every
				// way it becomes true says `falsy`
				var saysFalsy func(v ssa.Value, want bool, depth int) bool
				saysFalsy = func(v ssa.Value, want bool, depth int) bool {
					if depth > 6 {
						return false
					}
					if u, ok := v.(*ssa.UnOp); ok && u.Op == token.NOT {
						return saysFalsy(u.X, !want, depth+1)
					}
					if falsyEdge(v, want) {
						return true
					}
					if ph, ok := v.(*ssa.Phi); ok {
						for _, a := range alternatives(ph, ph.Block()) {
							if k, isK := a.V.(*ssa.Const); isK {
								if constant.BoolVal(k.Value) != want {
									continue // this way the test fails: the write is not reached
								}
								if !a.holdsFor(falsyEdge) {
									return false
								}
								continue
							}
							if !saysFalsy(a.V, want, depth+1) {
								return false
							}
						}
						return true
					}
					return false
				}
				guarded := guardedBy(site.Block(), func(cnd ssa.Value, want bool) bool { return saysFalsy(cnd, want, 0) })
				c.check(guarded, fmt.Sprintf("evalVShow: style write#%d", n), p.instrPos(site), "only when !IsTruthy(value)", "the style attribute is written on a path where the v-show value may be truthy")
				if nm == "(*vuego.Vue).setStyleProperty" {
					// (the last two arguments: the helper may have lost its unused receiver)
					as := site.Common().Args
					prop, _ := constString(as[len(as)-2])
					val, _ := constString(as[len(as)-1])
					c.check(prop == "display" && val == "none", "evalVShow: display:none", p.instrPos(site), "display:none", fmt.Sprintf("v-show writes %s:%s instead of display:none", prop, val))
				}
			}
			c.check(n > 0, "evalVShow: hides falsy", p.pos(fn.Pos()), "style write present", "v-show never writes display:none")
		},
	})

	register(&Rule{
		ID: "C15.R1", Props: []string{"C15", "C09", "C07"}, Min: 4,
		Doc: "no partial or failed cache entry: the only update of the template cache is reachable solely after both the load and the parse returned a nil error, stores DOM, front-matter and mtime that come from this call's own load/parse/Stat, and what the function returns on the reload path comes from that same load (never from the old entry)",
		Run: func(p *Prog, c *Ctx) {
			fn := p.MustFn("(*vuego.Vue).loadCachedWithFrontMatter")
			var updates []*ssa.MapUpdate
			for _, f := range p.Funcs {
				eachInstr(f, func(in ssa.Instruction) {
					if mu, ok := in.(*ssa.MapUpdate); ok {
						if fld := loadedField(mu.Map); fld != nil && fieldIs(fld, "templateCache") {
							updates = append(updates, mu)
						}
					}
				})
			}
			c.check(len(updates) == 1 && updates[0].Parent() == fn, "template cache: single writer", p.pos(fn.Pos()), "one MapUpdate, in the loader", fmt.Sprintf("%d updates of the template cache; expected exactly one in %s", len(updates), shortName(fn)))
			if len(updates) == 0 {
				return
			}
			mu := updates[0]
			var load, parse *ssa.Call
			for _, site := range callsIn(mu.Parent()) {
				cv, ok := site.(*ssa.Call)
				if !ok {
					continue
				}
				switch {
				case calleeName(site.Common()) == "(*vuego.Loader).loadFragment":
					load = cv
				case strings.HasSuffix(calleeName(site.Common()), "ParseTemplateBytes"):
					parse = cv
				}
			}
			if load == nil || parse == nil {
				undecided("loadCachedWithFrontMatter: load/parse calls not found")
			}
			errNil := func(call *ssa.Call) bool {
				return guardedBy(mu.Block(), func(cnd ssa.Value, want bool) bool {
					b, ok := cnd.(*ssa.BinOp)
					if !ok || !(isNilConst(b.Y) || isNilConst(b.X)) {
						return false
					}
					other := b.X
					if isNilConst(b.X) {
						other = b.Y
					}
					nilEdge := (b.Op == token.NEQ && !want) || (b.Op == token.EQL && want)
					if ex, ok := other.(*ssa.Extract); ok && ex.Tuple == call {
						return nilEdge
					}
					// one error variable for the sequence (`a, err := load(); if err == nil { b, err = parse(a) }; if err != nil
					// { … return }`): the φ of the steps' errors is nil only if the step that ran last returned nil, and a
					// later step runs only after the earlier ones succeeded
					if ph, ok := other.(*ssa.Phi); ok && nilEdge {
						has := false
						for _, e := range ph.Edges {
							ex, isEx := e.(*ssa.Extract)
							if !isEx || !isErrorType(ex.Type()) {
								return false
							}
							if _, isCall := ex.Tuple.(*ssa.Call); !isCall {
								return false
							}
							if ex.Tuple == call {
								has = true
							}
						}
						return has
					}
					return false
				})
			}
			c.check(errNil(load), "cache store after successful load", p.instrPos(mu), "guarded by load err == nil", "the cache can be updated although loading the file failed")
			c.check(errNil(parse), "cache store after successful parse", p.instrPos(mu), "guarded by parse err == nil", "the cache can be updated although parsing failed: a partial entry is served later")
			// stored fields originate from this call's load / parse / stat
			entry := mu.Value
			fields := map[string]bool{}
			for _, o := range p.origins(entry, OriginOpts{}) {
				al, ok := o.(*ssa.Alloc)
				if !ok {
					continue
				}
				if refs := al.Referrers(); refs != nil {
					for _, r := range *refs {
						fa, ok := r.(*ssa.FieldAddr)
						if !ok {
							continue
						}
						name := fieldName(fa.X.Type(), fa.Field)
						if frefs := fa.Referrers(); frefs != nil {
							for _, fr := range *frefs {
								st, ok := fr.(*ssa.Store)
								if !ok {
									continue
								}
								okSrc := false
								for _, so := range p.origins(st.Val, OriginOpts{}) {
									if ex, ok := so.(*ssa.Extract); ok && (ex.Tuple == load || ex.Tuple == parse) {
										okSrc = true
									}
									if isCallNamed(so, "io/fs.FileInfo.ModTime") != nil {
										okSrc = true
									}
									if _, isC := so.(*ssa.Const); isC {
										okSrc = true
									}
								}
								fields[name] = true
								c.check(okSrc, "cache entry field "+name, p.instrPos(st), "comes from this call's load / parse / Stat", "the cached "+name+" does not come from this call's own load, parse or Stat")
							}
						}
					}
				}
			}
			// results returned after the reload come from the reload
			for i, r := range returnsOf(fn) {
				if !dominates(load, r) || allNilConst(r.Results[0]) && allNilConst(r.Results[1]) {
					continue
				}
				okRet := true
				for idx := 0; idx < 2; idx++ {
					var os []ssa.Value
					for _, rv := range throughCallee(r.Results[idx]) {
						os = append(os, p.origins(rv, OriginOpts{})...)
					}
					for _, o := range os {
						ex, ok := o.(*ssa.Extract)
						if ok && (ex.Tuple == load || ex.Tuple == parse) {
							continue
						}
						if _, isC := o.(*ssa.Const); isC {
							continue
						}
						okRet = false
					}
				}
				c.check(okRet, fmt.Sprintf("reload return#%d uses the fresh load", i+1), p.instrPos(r), "front-matter and DOM come from the reload", "after re-reading a changed file the function returns data that does not come from that read (e.g. the stale entry's front-matter)")
			}
		},
	})

	register(&Rule{
		ID: "C15.R2", Props: []string{"C15", "C10", "C20", "C08"}, Min: 3, // C10: a long-used engine must answer like a fresh one
		Doc: "a cache hit is validated: returning a cached entry is guarded by Time.Equal(stored mtime, mtime of an fs.Stat made in this call) (or by the documented 'filesystem has no mtimes' zero test), and a failed Stat never leads to a hit",
		Run: func(p *Prog, c *Ctx) {
			fn := p.MustFn("(*vuego.Vue).loadCachedWithFrontMatter")
			var stat *ssa.Call
			for _, site := range callsIn(fn) {
				if isCall(site, "io/fs.Stat") {
					stat, _ = site.(*ssa.Call)
				}
			}
			c.check(stat != nil, "cache: Stat in the call", p.pos(fn.Pos()), "fs.Stat made on every lookup", "the cache lookup no longer Stats the file: edits are never noticed")
			if stat == nil {
				return
			}
			n := 0
			for _, r := range returnsOf(fn) {
				// hit returns: results loaded from the cached entry
				hit := false
				for _, o := range p.origins(r.Results[1], OriginOpts{}) {
					if f := loadedField(o); f != nil && fieldIs(f, "dom") {
						hit = true
					}
				}
				if !hit {
					continue
				}
				n++
				eq, after := false, ""
				statOK := false
				for _, g := range guardsOf(r.Block()) {
					cnd, flip := stripNot(g.If.Cond)
					want := g.Branch != flip
					if isBoolCellOrPhi(cnd) && !want {
						statOK = true
					}
				}
				// every path to the hit crosses `stored.Equal(current)` being true or the documented `current.IsZero()` being true
				eq = everyPathCrosses(r.Block(), func(cnd ssa.Value, want bool) bool {
					cl, isCall := cnd.(*ssa.Call)
					if !isCall || !want {
						return false
					}
					n := calleeName(&cl.Call)
					return n == "(time.Time).Equal" || n == "(time.Time).IsZero"
				})
				if !eq {
					after = "there is a path to the hit that passes no mtime equality"
				}
				c.check(eq && after == "", fmt.Sprintf("cache hit#%d validated by mtime equality", n), p.instrPos(r), "Time.Equal(stored, current)", "the cache hit is not decided by equality of the stored and the current mtime ("+after+"): a file replaced by an older version keeps rendering the cached content")
				c.check(statOK, fmt.Sprintf("cache hit#%d requires a successful Stat", n), p.instrPos(r), "a failed Stat is a miss", "a failed Stat can still lead to a cache hit: a deleted or unreadable file keeps being served")
			}
			c.check(n > 0, "cache: hit path exists", p.pos(fn.Pos()), fmt.Sprintf("%d hit return(s)", n), "no cache hit path found")
			// whoever else reads the content of a published cache entry is bound by the same validation
			entryT := p.cacheEntryTypes()
			m := 0
			for _, f := range p.Funcs {
				if p.Dropped[f] {
					continue
				}
				eachInstr(f, func(in ssa.Instruction) {
					ld, ok := in.(*ssa.UnOp)
					if !ok || ld.Op != token.MUL {
						return
					}
					fa, ok := ld.X.(*ssa.FieldAddr)
					if !ok {
						return
					}
					pt, ok := fa.X.Type().Underlying().(*types.Pointer)
					if !ok {
						return
					}
					nt, ok := pt.Elem().(*types.Named)
					if !ok || !entryT[nt] || isNamed(ld.Type(), "time", "Time") {
						return
					}
					published := false
					for _, o := range p.origins(fa.X, OriginOpts{}) {
						if _, fresh := o.(*ssa.Alloc); !fresh {
							published = true
						}
					}
					if !published {
						return
					}
					m++
					valid := everyPathCrosses(ld.Block(), func(cnd ssa.Value, want bool) bool {
						cl, isCall := cnd.(*ssa.Call)
						if !isCall || !want {
							return false
						}
						n := calleeName(&cl.Call)
						return n == "(time.Time).Equal" || n == "(time.Time).IsZero"
					})
					c.check(valid, fmt.Sprintf("%s: read of cached %s.%s#%d validated", shortName(f), nt.Obj().Name(), fieldName(fa.X.Type(), fa.Field), m), p.instrPos(ld), "only after Time.Equal(stored, current)",
						"the content of a cache entry is read without comparing its stored mtime with the file's current one: after an edit this reader still sees the previous revision (while validated readers see the new one)")
				})
			}
		},
	})

	register(&Rule{
		ID: "C09.R7", Props: []string{"C09", "C15"}, Min: 1,
		Doc: "published cache entries are immutable: fields of the structs stored in mutex-guarded cache maps are written only while the struct is being constructed (fresh allocation), never on an entry obtained from the map — readers use the entry after releasing the read lock",
		Run: func(p *Prog, c *Ctx) {
			// entry struct types: element types of guarded maps
			entryT := p.cacheEntryTypes()
			n := 0
			for _, fn := range p.Funcs {
				eachInstr(fn, func(in ssa.Instruction) {
					st, ok := in.(*ssa.Store)
					if !ok {
						return
					}
					fa, ok := st.Addr.(*ssa.FieldAddr)
					if !ok {
						return
					}
					pt, ok := fa.X.Type().Underlying().(*types.Pointer)
					if !ok {
						return
					}
					nt, ok := pt.Elem().(*types.Named)
					if !ok || !entryT[nt] {
						return
					}
					n++
					fresh := true
					for _, o := range p.origins(fa.X, OriginOpts{}) {
						if _, ok := o.(*ssa.Alloc); !ok {
							fresh = false
						}
					}
					c.check(fresh, fmt.Sprintf("%s: store to %s.%s#%d", shortName(fn), nt.Obj().Name(), fieldName(fa.X.Type(), fa.Field), n), p.instrPos(st), "entry under construction", "a cache entry that is already published is modified in place: renders that obtained it before (and read it after releasing the lock) see a mix of the old and the new revision")
				})
			}
			c.ok("entry types", "-", fmt.Sprintf("%d cache entry struct type(s), %d field stores examined", len(entryT), n))
		},
	})

	register(&Rule{
		ID: "C16.R4", Props: []string{"C16"}, Min: 2,
		Doc: "a v-once element is marked as seen at the moment it is first reached: the update of the seen set is controlled only by 'element has v-once' and 'id not seen yet' — no other directive test (v-pre, v-if, v-for, slot, template …) stands between reaching the element and marking it, so elements that take an early path are marked too",
		Run: func(p *Prog, c *Ctx) {
			fn := p.MustFn("(*vuego.Vue).evaluate")
			n := 0
			eachInstr(fn, func(in ssa.Instruction) {
				mu, ok := in.(*ssa.MapUpdate)
				if !ok {
					return
				}
				if f := loadedField(mu.Map); f == nil || !fieldIs(f, "seen") {
					return
				}
				n++
				hasOnce, hasLookup := false, false
				other := ""
				for _, g := range guardsOf(mu.Block()) {
					cnd, _ := stripNot(g.If.Cond)
					if cl := isCallNamed(cnd, "helpers.HasAttr"); cl != nil {
						k, _ := constString(cl.Call.Args[1])
						if k == "v-once" {
							hasOnce = true
						} else {
							other = "HasAttr(" + k + ")"
						}
					}
					if lk, ok := cnd.(*ssa.Lookup); ok {
						if f := loadedField(lk.X); f != nil && fieldIs(f, "seen") {
							hasLookup = true
						}
					}
					if b, ok := cnd.(*ssa.BinOp); ok {
						if s, ok := constString(b.Y); ok && (s == "slot" || s == "template") {
							other = "tag == " + s
						}
					}
				}
				// no evaluator/handler call between the lookup and the update
				between := false
				for _, in2 := range mu.Block().Instrs {
					if in2 == mu {
						break
					}
					if site, ok := in2.(ssa.CallInstruction); ok && (isEvaluatorCall(site.Common()) || strings.HasPrefix(calleeName(site.Common()), "(*vuego.Vue).eval")) {
						between = true
					}
				}
				c.check(hasOnce && hasLookup && other == "" && !between, fmt.Sprintf("evaluate: seen[id] = true#%d", n), p.instrPos(mu), "controlled by v-once ∧ !seen[id] only", "the v-once element is marked as seen only on some paths ("+other+"): an element that also carries v-pre/v-if/v-for or is a template/slot is never recorded and is emitted at every instantiation")
			})
			c.check(n > 0, "evaluate: marks v-once elements", p.pos(fn.Pos()), "seen set is updated", "the evaluator never records a v-once element as seen")
			// the skip: a seen id leads to `continue` before anything is appended
			skip := false
			eachInstr(fn, func(in ssa.Instruction) {
				ifi, ok := in.(*ssa.If)
				if !ok {
					return
				}
				if lk, ok := ifi.Cond.(*ssa.Lookup); ok {
					if f := loadedField(lk.X); f != nil && fieldIs(f, "seen") {
						t := ifi.Block().Succs[0]
						hasCall := false
						for _, i2 := range t.Instrs {
							if _, ok := i2.(ssa.CallInstruction); ok {
								hasCall = true
							}
						}
						skip = !hasCall
					}
				}
			})
			c.check(skip, "evaluate: seen element is skipped", p.pos(fn.Pos()), "seen[id] → continue", "an element whose id was already seen is not skipped immediately")
		},
	})

	register(&Rule{
		ID: "C18.R1", Props: []string{"C18"}, Min: 3,
		Doc: "nil layers are skipped: every call on an element of the overlay's layer slice is guarded by a non-nil test of that element",
		Run: func(p *Prog, c *Ctx) {
			n := 0
			for _, fn := range p.Funcs {
				if typeShort(recvType(fn)) != "*vuego.OverlayFS" {
					continue
				}
				for _, site := range callsIn(fn) {
					cc := site.Common()
					var layer ssa.Value
					if cc.IsInvoke() && isNamed(cc.Value.Type(), "io/fs", "FS") {
						layer = cc.Value
					} else {
						for _, a := range cc.Args {
							if isNamed(a.Type(), "io/fs", "FS") {
								layer = a
							}
						}
					}
					if layer == nil {
						continue
					}
					fromLayers := false
					for _, o := range p.origins(layer, OriginOpts{}) {
						if f := loadedField(o); f != nil && fieldIs(f, "chainFS") {
							fromLayers = true
						}
						if ld, ok := o.(*ssa.UnOp); ok && ld.Op == token.MUL {
							if ia, ok := ld.X.(*ssa.IndexAddr); ok {
								for _, oo := range p.origins(ia.X, OriginOpts{}) {
									if f := loadedField(oo); f != nil && fieldIs(f, "chainFS") {
										fromLayers = true
									}
								}
							}
						}
					}
					if !fromLayers {
						continue
					}
					n++
					guarded := guardedBy(site.Block(), func(cnd ssa.Value, want bool) bool {
						b, ok := cnd.(*ssa.BinOp)
						if !ok || !(isNilConst(b.X) || isNilConst(b.Y)) {
							return false
						}
						other := b.X
						if isNilConst(b.X) {
							other = b.Y
						}
						if !sameValue(other, layer) && other != layer {
							return false
						}
						return (b.Op == token.NEQ && want) || (b.Op == token.EQL && !want)
					})
					c.check(guarded, fmt.Sprintf("%s: use of a layer#%d", shortName(fn), n), p.instrPos(site), "guarded by layer != nil", "a layer is used without a nil test: an overlay built with a nil layer panics")
				}
			}
		},
	})

	register(&Rule{
		ID: "C18.R2", Props: []string{"C18"}, Min: 4,
		Doc: "first layer wins: Open visits layers in ascending order and returns at the first nil-error result, its fall-through error satisfies fs.ErrNotExist; ReadDir stores an entry into the merge map only under the sole condition that the name is not present yet, while layers are visited in ascending order",
		Run: func(p *Prog, c *Ctx) {
			open := p.MustFn("(*vuego.OverlayFS).Open")
			// return of the opened file is guarded by err == nil
			okRet := false
			for _, r := range returnsOf(open) {
				if isNilConst(r.Results[0]) {
					// fall-through: error must be ErrNotExist (or wrap it)
					okErr := false
					for _, o := range p.origins(r.Results[1], OriginOpts{}) {
						if ld, ok := o.(*ssa.UnOp); ok {
							if g, ok := ld.X.(*ssa.Global); ok && g.Name() == "ErrNotExist" {
								okErr = true
							}
						}
						if al, ok := o.(*ssa.Alloc); ok && strings.Contains(typeShort(al.Type()), "PathError") {
							okErr = true
						}
					}
					c.check(okErr, "Open: not-exist when no layer has the path", p.instrPos(r), "fs.ErrNotExist", "the fall-through error of Open does not satisfy fs.ErrNotExist")
					continue
				}
				okRet = guardedBy(r.Block(), func(cnd ssa.Value, want bool) bool {
					b, ok := cnd.(*ssa.BinOp)
					return ok && isNilConst(b.Y) && isErrorType(b.X.Type()) && ((b.Op == token.EQL && want) || (b.Op == token.NEQ && !want))
				})
				c.check(okRet, "Open: first success is returned", p.instrPos(r), "return on err == nil", "Open returns a file although the layer reported an error")
			}
			for _, name := range []string{"(*vuego.OverlayFS).Open", "(*vuego.OverlayFS).ReadDir"} {
				fn := p.MustFn(name)
				asc := rangeAscending(fn)
				c.check(asc, name+": layers visited in ascending order", p.pos(fn.Pos()), "range over the layer slice", "the layers are not visited from the first (upper) to the last")
			}
			rd := p.MustFn("(*vuego.OverlayFS).ReadDir")
			n := 0
			eachInstr(rd, func(in ssa.Instruction) {
				mu, ok := in.(*ssa.MapUpdate)
				if !ok {
					return
				}
				n++
				gs := guardsOf(mu.Block())
				sole := false
				if len(gs) > 0 {
					// innermost guard: the comma-ok of a lookup in the same map, required false
					cnd, flip := stripNot(gs[0].If.Cond)
					want := gs[0].Branch != flip
					if ex, ok := cnd.(*ssa.Extract); ok && ex.Index == 1 {
						if lk, ok := ex.Tuple.(*ssa.Lookup); ok && lk.X == mu.Map && !want {
							sole = true
						}
					}
				}
				c.check(sole, fmt.Sprintf("ReadDir: merge store#%d only when the name is new", n), p.instrPos(mu), "guarded solely by !exists", "an entry can be stored although the name is already present (the guard is not exactly `!exists`): a lower layer's entry can replace the upper one's")
			})
			c.check(n > 0, "ReadDir: merges entries", p.pos(rd.Pos()), "merge map is filled", "ReadDir no longer merges through a map keyed by name")
		},
	})

	register(&Rule{
		ID: "C18.R3", Props: []string{"C18"}, Min: 2,
		Doc: "results are sorted and duplicate-free by construction: ReadDir and Glob build their result by ranging over a map keyed by name (so a name occurs once) and sort it before returning (checked together with C10.R1)",
		Run: func(p *Prog, c *Ctx) {
			for _, name := range []string{"(*vuego.OverlayFS).ReadDir", "(*vuego.OverlayFS).Glob"} {
				fn := p.MustFn(name)
				for i, r := range returnsOf(fn) {
					if isNilConst(r.Results[0]) {
						continue
					}
					// the returned slice is filled inside a range over a map and is passed to a sort call
					fromSet, sorted := false, false
					eachInstr(fn, func(in ssa.Instruction) {
						if rg, ok := in.(*ssa.Range); ok {
							if _, isMap := rg.X.Type().Underlying().(*types.Map); isMap {
								fromSet = true
							}
						}
						if site, ok := in.(ssa.CallInstruction); ok && isSortCall(site.Common()) && dominates(in, r) {
							sorted = true
						}
						// slices.AppendSeq / Collect / Sorted over maps.Keys(m) / maps.Values(m): the same, spelled with iterators
						if cl, ok := in.(*ssa.Call); ok {
							n := calleeName(&cl.Call)
							if strings.HasPrefix(n, "slices.AppendSeq") || strings.HasPrefix(n, "slices.Collect") || strings.HasPrefix(n, "slices.Sorted") {
								for _, a := range cl.Call.Args {
									for _, o := range p.origins(a, OriginOpts{}) {
										if it, ok := o.(*ssa.Call); ok {
											if in := calleeName(&it.Call); (strings.HasPrefix(in, "maps.Keys") || strings.HasPrefix(in, "maps.Values")) && len(it.Call.Args) == 1 {
												if _, isMap := it.Call.Args[0].Type().Underlying().(*types.Map); isMap {
													fromSet = true
												}
											}
										}
									}
								}
								if strings.HasPrefix(n, "slices.Sorted") && dominates(in, r) {
									sorted = true
								}
							}
						}
					})
					// every append into the result must happen inside a range over a map
					okAppend := true
					eachInstr(fn, func(in ssa.Instruction) {
						cl, ok := in.(*ssa.Call)
						if !ok || calleeName(&cl.Call) != "builtin.append" {
							return
						}
						if !types.Identical(cl.Type(), r.Results[0].Type()) {
							return
						}
						h := loopHeaderOf(cl.Block())
						inMapLoop := false
						for ; h != nil; h = loopHeaderOf2(h) {
							for _, i2 := range h.Instrs {
								if nx, ok := i2.(*ssa.Next); ok {
									if rg, ok := nx.Iter.(*ssa.Range); ok {
										if _, isMap := rg.X.Type().Underlying().(*types.Map); isMap {
											inMapLoop = true
										}
									}
								}
							}
						}
						if !inMapLoop {
							okAppend = false
						}
					})
					c.check(fromSet && okAppend, fmt.Sprintf("%s: result#%d built from a set", name, i+1), p.instrPos(r), "elements come from ranging over a map keyed by name", "the result is not built by ranging over a map keyed by name: duplicates across layers are no longer impossible by construction")
					c.check(sorted, fmt.Sprintf("%s: result#%d sorted", name, i+1), p.instrPos(r), "a sort call dominates the return", "the result is returned without being sorted")
				}
			}
		},
	})

	register(&Rule{
		ID: "C18.R4", Props: []string{"C18"}, Min: 1,
		Doc: "existence is decided by the layers' answers, not by the size of the result: ReadDir's error return is control-dependent on a flag recording that no layer answered, not on len(merged)",
		Run: func(p *Prog, c *Ctx) {
			rd := p.MustFn("(*vuego.OverlayFS).ReadDir")
			for i, r := range returnsOf(rd) {
				if !isNilConst(r.Results[0]) || isNilConst(r.Results[1]) {
					continue
				}
				byLen := false
				for _, g := range guardsOf(r.Block()) {
					walkCond(g.If.Cond, func(v ssa.Value) {
						if cl := isCallNamed(v, "builtin.len"); cl != nil {
							if _, isMap := cl.Call.Args[0].Type().Underlying().(*types.Map); isMap {
								byLen = true
							}
						}
					})
				}
				c.check(!byLen, fmt.Sprintf("ReadDir: error return#%d", i+1), p.instrPos(r), "decided by whether any layer answered", "the not-exist error is decided by len(merged) == 0: an empty directory that exists in one layer is reported as missing")
			}
		},
	})

	register(&Rule{
		ID: "C17.R6", Props: []string{"C17", "C13"}, Min: 2,
		Doc: "a path step reports absence only after every resolution strategy was tried: in the step resolver every `return nil` is dominated by the call of the reflective struct/map/slice resolver (no early give-up for numeric-looking segments), and a failed resolver result is what makes it nil",
		Run: func(p *Prog, c *Ctx) {
			fn := p.MustFn("(*vuego.Stack).resolveStep")
			var fb ssa.Instruction
			for _, site := range callsIn(fn) {
				if strings.HasSuffix(calleeName(site.Common()), "reflect.ResolveValue") {
					fb = site
				}
			}
			c.check(fb != nil, "resolveStep: reflective fallback", p.pos(fn.Pos()), "ResolveValue is called", "the step resolver no longer falls back to reflective resolution: structs, typed maps and pointers cannot be traversed")
			if fb == nil {
				return
			}
			for i, r := range returnsOf(fn) {
				if !isNilConst(r.Results[0]) {
					continue
				}
				// inside the arm for an exact map type a missing key is simply absent: no other strategy applies
				if enteredOnlyUnder(r.Block(), func(cnd ssa.Value, want bool) bool {
					ex, ok := cnd.(*ssa.Extract)
					if !ok || ex.Index != 1 || !want {
						return false
					}
					ta, ok := ex.Tuple.(*ssa.TypeAssert)
					if !ok {
						return false
					}
					_, isMap := ta.AssertedType.Underlying().(*types.Map)
					return isMap
				}) {
					c.ok(fmt.Sprintf("resolveStep: return nil#%d", i+1), p.instrPos(r), "a missing key of an exact map type")
					continue
				}
				c.check(dominates(fb, r), fmt.Sprintf("resolveStep: return nil#%d", i+1), p.instrPos(r), "after the reflective fallback", "absence is reported before the reflective fallback was tried: a numeric-looking segment on a pointer-to-slice or a typed map reports absence where Go indexing reaches an element")
			}
		},
	})

	register(&Rule{
		ID: "C13.R4", Props: []string{"C13"}, Min: 2,
		Doc: "documented argument conversion is decimal: every strconv.ParseInt/ParseUint/Atoi used to convert template literals or string arguments parses base 10 (a base-0 parse reads \"010\" as 8 and rejects \"08\")",
		Run: func(p *Prog, c *Ctx) {
			n := 0
			for _, fn := range p.Funcs {
				if pk := funcPkg(fn); pk == nil || pk.Path() != modPath {
					continue
				}
				for _, site := range callsIn(fn) {
					nm := calleeName(site.Common())
					if nm != "strconv.ParseInt" && nm != "strconv.ParseUint" {
						continue
					}
					n++
					base, ok := constInt(site.Common().Args[1])
					c.check(ok && base == 10, fmt.Sprintf("%s: %s#%d", shortName(fn), nm, n), p.instrPos(site), "base 10", fmt.Sprintf("%s parses with base %d: zero-padded decimal strings change value or fail to convert", nm, base))
				}
			}
		},
	})
}

func inModuleType(nt *types.Named) bool {
	return nt.Obj().Pkg() != nil && strings.HasPrefix(nt.Obj().Pkg().Path(), modPath)
}

func loopHeaderOf2(h *ssa.BasicBlock) *ssa.BasicBlock {
	// the next enclosing loop header
	for x := h.Idom(); x != nil; x = x.Idom() {
		for _, pr := range x.Preds {
			if x.Dominates(pr) && loopBlocks(x)[h] {
				return x
			}
		}
	}
	return nil
}

// walkCond visits the operands of a condition expression tree (binops, negations, calls' arguments).
func walkCond(v ssa.Value, f func(ssa.Value)) {
	seen := map[ssa.Value]bool{}
	var w func(v ssa.Value, d int)
	w = func(v ssa.Value, d int) {
		if v == nil || seen[v] || d > 6 {
			return
		}
		seen[v] = true
		f(v)
		switch x := v.(type) {
		case *ssa.BinOp:
			w(x.X, d+1)
			w(x.Y, d+1)
		case *ssa.UnOp:
			w(x.X, d+1)
		case *ssa.Call:
			for _, a := range callArgs(&x.Call) {
				w(a, d+1)
			}
		case *ssa.Phi:
			for _, e := range x.Edges {
				w(e, d+1)
			}
		case *ssa.Extract:
			w(x.Tuple, d+1)
		}
	}
	w(v, 0)
}

// rangeAscending: the function iterates the layer slice with a range loop (index from -1/0 upward).
func rangeAscending(fn *ssa.Function) bool {
	ok := false
	eachInstr(fn, func(in ssa.Instruction) {
		ph, isPhi := in.(*ssa.Phi)
		if !isPhi {
			return
		}
		start, inc := false, false
		for _, e := range ph.Edges {
			if k, isC := constInt(e); isC && (k == -1 || k == 0) {
				start = true
			}
			if b, isB := e.(*ssa.BinOp); isB && b.Op == token.ADD && b.X == ph {
				if k, isC := constInt(b.Y); isC && k == 1 {
					inc = true
				}
			}
		}
		if start && inc {
			ok = true
		}
	})
	return ok
}

func init() {
	register(&Rule{
		ID: "C14.R7", Props: []string{"C14", "C19", "C13"}, Min: 3,
		Doc: "delimiter handling keeps the rest of the value: wherever a declaration or pair is split at a constant `:` the split happens at the first colon only (strings.SplitN(x, \":\", 2), strings.Cut or strings.Index + slicing) so that values containing a colon (url(https://…), data: URIs, times) survive; wherever the closing `}}` of a mustache is searched, the first occurrence is taken (strings.Index), never the last",
		Run: func(p *Prog, c *Ctx) {
			n := 0
			// only where declarations / pairs / mustaches are parsed: the attribute and v-show handlers, the
			// interpolator and the formatter's text escaper, with their helpers (a `host:port` split elsewhere is not this rule's business)
			scope := p.Cone(p.MustFn("(*vuego.Vue).evalAttributes"), p.MustFn("(*vuego.Vue).evalVShow"), p.MustFn("(*vuego.Vue).interpolate"), p.MustFn("formatter.escapeText"), p.MustFn("(*formatter.Formatter).renderOpenTag"))
			for _, fn := range p.Funcs {
				if !scope[fn] {
					continue
				}
				for _, site := range callsIn(fn) {
					cc := site.Common()
					nm := calleeName(cc)
					if !strings.HasPrefix(nm, "strings.") || len(cc.Args) < 2 {
						continue
					}
					sep, ok := constString(cc.Args[1])
					if !ok {
						continue
					}
					switch {
					case sep == ":":
						n++
						key := fmt.Sprintf("%s: %s(_, \":\")#%d", shortName(fn), nm, n)
						switch nm {
						case "strings.SplitN":
							lim, _ := constInt(cc.Args[2])
							c.check(lim == 2, key, p.instrPos(site), "split at the first colon", fmt.Sprintf("SplitN with limit %d cuts the value at a later colon", lim))
						case "strings.Index", "strings.Cut", "strings.IndexByte", "strings.Contains", "strings.HasPrefix", "strings.HasSuffix", "strings.TrimPrefix", "strings.TrimSuffix":
							c.ok(key, p.instrPos(site), "first colon")
						case "strings.Split", "strings.LastIndex", "strings.SplitAfter":
							c.fail(key, p.instrPos(site), nm+" on \":\" does not keep the remainder of the value together: a declaration whose value contains a colon (url(https://…), data: URI) is dropped or truncated when styles are merged")
						default:
							c.ok(key, p.instrPos(site), nm)
						}
					case sep == "}}":
						n++
						key := fmt.Sprintf("%s: %s(_, \"}}\")#%d", shortName(fn), nm, n)
						c.check(nm != "strings.LastIndex", key, p.instrPos(site), "first closing delimiter", "the closing `}}` is searched from the end: everything between the first `{{` and the last `}}` of a text — including ordinary text and escaped markup between two expressions — is treated as one expression and copied unescaped")
					}
				}
			}
		},
	})

	register(&Rule{
		ID: "C20.R5", Props: []string{"C20"}, Min: 3,
		Doc: "the Markdown source is read only through goldmark's segments: no function of the markdown renderer slices or indexes the source byte slice itself; text, code and raw HTML are obtained by Segment.Value / Lines().At(i).Value per line, which is what excludes container prefixes (`> `, list indentation, fence indentation) from block content",
		Run: func(p *Prog, c *Ctx) {
			n, reads := 0, 0
			for _, fn := range p.Funcs {
				if pk := funcPkg(fn); pk == nil || pk.Path() != markdownPkg {
					continue
				}
				var src *ssa.Parameter
				for _, prm := range fn.Params {
					if sl, ok := prm.Type().Underlying().(*types.Slice); ok && prm.Name() == "src" {
						if b, ok := sl.Elem().Underlying().(*types.Basic); ok && b.Kind() == types.Byte {
							src = prm
						}
					}
				}
				if src == nil {
					continue
				}
				n++
				bad := ""
				if refs := src.Referrers(); refs != nil {
					for _, r := range *refs {
						switch x := r.(type) {
						case *ssa.Slice:
							bad = "slices the source directly at " + p.instrPos(x)
						case *ssa.IndexAddr:
							bad = "indexes the source directly at " + p.instrPos(x)
						case ssa.CallInstruction:
							if strings.HasSuffix(calleeName(x.Common()), "Segment).Value") {
								reads++
							}
						}
					}
				}
				c.check(bad == "", shortName(fn)+": source access", p.pos(fn.Pos()), "only passed on or read through Segment.Value", shortName(fn)+" "+bad+": a source range spanning several lines includes the container prefixes between the line segments (blockquote markers, list/fence indentation end up inside <code>)")
			}
			c.check(reads >= 3, "segment reads", "-", fmt.Sprintf("%d Segment.Value(src) reads in %d functions holding the source", reads, n), "the renderer no longer reads source text through segments")
		},
	})
}

func init() {
	register(&Rule{
		ID: "C18.R5", Props: []string{"C18"}, Min: 1,
		Doc: "the overlay owns its layer list: the constructor stores a slice it allocated itself (upper first, then a copy of the lower layers) — never the caller's variadic slice or an append onto it, which would let one overlay overwrite another's layers or the caller's list",
		Run: func(p *Prog, c *Ctx) {
			fn := p.MustFn("vuego.NewOverlayFS")
			found := false
			eachInstr(fn, func(in ssa.Instruction) {
				st, ok := in.(*ssa.Store)
				if !ok {
					return
				}
				fv := fieldVar(st.Addr)
				if fv == nil || !fieldIs(fv, "chainFS") {
					return
				}
				found = true
				okFresh := true
				why := ""
				// the stored slice: result of append(base, …) where base is a literal built here; or make+copy
				var check func(v ssa.Value, d int)
				check = func(v ssa.Value, d int) {
					if d > 4 {
						return
					}
					for _, o := range p.origins(v, OriginOpts{}) {
						switch x := o.(type) {
						case *ssa.Alloc, *ssa.MakeSlice:
						case *ssa.Call:
							if calleeName(&x.Call) == "builtin.append" {
								check(x.Call.Args[0], d+1) // the base decides whose backing array is written
							} else {
								okFresh, why = false, "result of "+calleeName(&x.Call)
							}
						case *ssa.Parameter:
							okFresh, why = false, "the caller's slice `"+x.Name()+"` (its backing array is reused when it has spare capacity)"
						default:
							okFresh, why = false, describeValue(o)
						}
					}
				}
				check(st.Val, 0)
				// in-place writes into a parameter slice
				eachInstr(fn, func(in2 ssa.Instruction) {
					if cl, ok := in2.(*ssa.Call); ok && calleeName(&cl.Call) == "builtin.copy" {
						for _, o := range p.origins(cl.Call.Args[0], OriginOpts{}) {
							if ap, ok := o.(*ssa.Call); ok && calleeName(&ap.Call) == "builtin.append" {
								for _, oo := range p.origins(ap.Call.Args[0], OriginOpts{}) {
									if prm, ok := oo.(*ssa.Parameter); ok {
										okFresh, why = false, "copy() into an append onto the caller's slice `"+prm.Name()+"`"
									}
								}
							}
						}
					}
				})
				c.check(okFresh, "NewOverlayFS: layer list is a fresh slice", p.instrPos(st), "append([]fs.FS{upper}, lower...)", "the overlay's layer list is built on "+why+": a second overlay built from the same list, or the caller itself, overwrites this overlay's layers (wrong upper layer, last layer lost)")
			})
			c.check(found, "NewOverlayFS: stores the layer list", p.pos(fn.Pos()), "chainFS assigned", "the constructor no longer stores the layer list")
		},
	})

	register(&Rule{
		ID: "C17.R7", Props: []string{"C17", "C08", "C03", "C04", "C02"}, Min: 2,
		Doc: "struct fields are addressed by exact name or exact JSON tag: in the struct resolver the requested name is compared by string equality with the tag's name part (or used for FieldByName), never by prefix/substring/case-folding tests, so that `user` cannot resolve to `user_id` and a non-existent name stays absent",
		Run: func(p *Prog, c *Ctx) {
			fn := p.MustFn("reflect.resolveStruct")
			name := paramOf(fn, "fieldName", 1, 2)
			eq := 0
			for _, site := range callsIn(fn) {
				n := calleeName(site.Common())
				if !strings.HasPrefix(n, "strings.") {
					continue
				}
				for _, a := range site.Common().Args {
					if a == name {
						switch n {
						case "strings.HasPrefix", "strings.HasSuffix", "strings.Contains", "strings.EqualFold", "strings.Index":
							c.fail("resolveStruct: "+n+" on the requested name", p.instrPos(site), "the requested field name is matched with "+n+" instead of equality: a name that is a prefix/substring of another field's JSON tag resolves to that field, and absent names resolve to something")
						}
					}
				}
			}
			eachInstr(fn, func(in ssa.Instruction) {
				if b, ok := in.(*ssa.BinOp); ok && (b.Op == token.EQL || b.Op == token.NEQ) && (b.X == name || b.Y == name) {
					eq++
					c.ok(fmt.Sprintf("resolveStruct: tag == name#%d", eq), p.instrPos(b), "string equality")
				}
			})
			byName := false
			for _, site := range callsIn(fn) {
				if calleeName(site.Common()) == "reflect.Type.FieldByName" && site.Common().Args[0] == name {
					byName = true
				}
			}
			c.check(byName, "resolveStruct: FieldByName(name)", p.pos(fn.Pos()), "exact field name lookup", "the struct resolver no longer looks the field up by its exact name")
			c.check(eq > 0, "resolveStruct: JSON tag compared by equality", p.pos(fn.Pos()), fmt.Sprintf("%d equality test(s)", eq), "the JSON tag is no longer compared with the requested name by equality")
		},
	})
}

// cacheEntryTypes returns the struct types whose pointers are stored in mutex-guarded cache maps.
func (p *Prog) cacheEntryTypes() map[*types.Named]bool {
	entryT := map[*types.Named]bool{}
	for _, a := range p.collectSharedAccesses() {
		if mu, ok := a.at.(*ssa.MapUpdate); ok {
			t := mu.Value.Type()
			if pt, ok := t.Underlying().(*types.Pointer); ok {
				if nt, ok := pt.Elem().(*types.Named); ok && inModuleType(nt) {
					entryT[nt] = true
				}
			}
		}
	}
	return entryT
}
