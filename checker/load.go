package main

import (
	"fmt"
	"go/ast"
	"go/token"
	"go/types"
	"os"
	"path/filepath"
	"sort"
	"strings"

	"golang.org/x/tools/go/callgraph"
	"golang.org/x/tools/go/callgraph/cha"
	"golang.org/x/tools/go/callgraph/vta"
	"golang.org/x/tools/go/packages"
	"golang.org/x/tools/go/ssa"
	"golang.org/x/tools/go/ssa/ssautil"
)

const modPath = "github.com/titpetric/vuego"

// Prog is the resolved program every rule works on: type-checked syntax, SSA and a VTA call graph.
type Prog struct {
	Repo       string
	Fset       *token.FileSet
	Pkgs       []*packages.Package // packages of the module, sorted by path
	PkgBy      map[string]*packages.Package
	SSA        *ssa.Program
	Funcs      []*ssa.Function        // every function of the module (methods, closures), sorted by name
	Inits      []*ssa.Function        // synthetic package initialisers of the module packages
	Renamed    []string               // roles that were bound to a differently named function (see roles.go)
	Inlined    []string               // helper calls replaced by the helper's body (see inline.go)
	NotInlined []string               // new functions that stay calls, with the reason
	Dropped    map[*ssa.Function]bool // helpers whose every call was replaced by their body: not part of the program any more
	byName     map[string]*ssa.Function
	CG         *callgraph.Graph
	astDecl    map[*ssa.Function]*ast.FuncDecl
	Opaque     []opaqueRange // functions with a shape the normaliser cannot look through (opaque.go)
}

// UndecidedError aborts a run without a verdict (exit 2, never a VIOLATION).
type UndecidedError struct{ Msg string }

func (e UndecidedError) Error() string { return e.Msg }

func undecided(format string, a ...any) { panic(UndecidedError{fmt.Sprintf(format, a...)}) }

func loadProg(repo string) *Prog {
	abs, err := filepath.Abs(repo)
	if err != nil {
		undecided("repo path: %v", err)
	}
	fset := token.NewFileSet()
	cfg := &packages.Config{
		Mode:  packages.LoadAllSyntax,
		Dir:   abs,
		Fset:  fset,
		Tests: false,
		Env: append(os.Environ(),
			"GOFLAGS=-mod=mod", "GOPROXY=off", "GOWORK=off", "GOTOOLCHAIN=local", "CGO_ENABLED=0"),
	}
	initial, err := packages.Load(cfg, "./...")
	if err != nil {
		undecided("packages.Load: %v", err)
	}
	p := &Prog{Repo: abs, Fset: fset, PkgBy: map[string]*packages.Package{}, byName: map[string]*ssa.Function{},
		astDecl: map[*ssa.Function]*ast.FuncDecl{}}
	var errs []string
	packages.Visit(initial, nil, func(pk *packages.Package) {
		if strings.HasPrefix(pk.PkgPath, modPath) {
			for _, e := range pk.Errors {
				errs = append(errs, e.Error())
			}
		}
	})
	if len(errs) > 0 {
		undecided("type errors in module: %s", strings.Join(errs, "; "))
	}
	for _, pk := range initial {
		if strings.HasPrefix(pk.PkgPath, modPath) {
			p.Pkgs = append(p.Pkgs, pk)
			p.PkgBy[pk.PkgPath] = pk
		}
	}
	sort.Slice(p.Pkgs, func(i, j int) bool { return p.Pkgs[i].PkgPath < p.Pkgs[j].PkgPath })
	if len(p.Pkgs) < 8 {
		undecided("only %d module packages loaded (need >= 8)", len(p.Pkgs))
	}
	prog, _ := ssautil.AllPackages(initial, ssa.InstantiateGenerics)
	prog.Build()
	p.SSA = prog
	all := ssautil.AllFunctions(prog)
	for fn := range all {
		if fn.Pkg == nil && fn.Parent() == nil {
			// wrappers / instantiated generics: keep if origin is in the module
			if o := fn.Origin(); o == nil || o.Pkg == nil || !strings.HasPrefix(o.Pkg.Pkg.Path(), modPath) {
				continue
			}
		}
		pkg := funcPkg(fn)
		if pkg == nil || !strings.HasPrefix(pkg.Path(), modPath) {
			continue
		}
		if len(fn.Blocks) == 0 {
			continue
		}
		if fn.Synthetic != "" && fn.Syntax() == nil {
			if fn.Name() == "init" && fn.Synthetic == "package initializer" {
				p.Inits = append(p.Inits, fn)
			}
			continue
		}
		p.Funcs = append(p.Funcs, fn)
	}
	sort.Slice(p.Funcs, func(i, j int) bool { return p.Funcs[i].String() < p.Funcs[j].String() })
	sort.Slice(p.Inits, func(i, j int) bool { return p.Inits[i].String() < p.Inits[j].String() })
	for _, fn := range p.Funcs {
		p.byName[shortName(fn)] = fn
		if d, ok := fn.Syntax().(*ast.FuncDecl); ok {
			p.astDecl[fn] = d
		}
	}
	p.resolveRoles()
	theProg = p
	p.resolveFields()
	p.Opaque = p.computeOpaque()
	p.inlineHelpers()
	p.CG = vta.CallGraph(all, cha.CallGraph(prog))
	return p
}

func funcPkg(fn *ssa.Function) *types.Package {
	for f := fn; f != nil; f = f.Parent() {
		if f.Pkg != nil {
			return f.Pkg.Pkg
		}
		if o := f.Origin(); o != nil && o.Pkg != nil {
			return o.Pkg.Pkg
		}
	}
	return nil
}

// shortName renders a function as "vuego.(*Vue).evaluate", "helpers.IsTruthy", "vuego.(*Vue).evalFor$1".
func shortName(fn *ssa.Function) string {
	if c, ok := canonicalName[fn]; ok {
		return c
	}
	s := fn.String()
	s = strings.ReplaceAll(s, modPath+"/internal/", "")
	s = strings.ReplaceAll(s, modPath+"/", "")
	s = strings.ReplaceAll(s, modPath, "vuego")
	return s
}

// Fn returns a module function by its short name, or nil.
func (p *Prog) Fn(name string) *ssa.Function { return p.byName[name] }

// MustFn returns the function or aborts the run as undecided: the rule's anchor is gone.
func (p *Prog) MustFn(name string) *ssa.Function {
	if f := p.byName[name]; f != nil {
		return f
	}
	undecided("anchor function %s not found in the module (renamed or removed): the rule cannot be decided", name)
	return nil
}

func (p *Prog) pos(pos token.Pos) string {
	if !pos.IsValid() {
		return "-"
	}
	ps := p.Fset.Position(pos)
	rel, err := filepath.Rel(p.Repo, ps.Filename)
	if err != nil {
		rel = ps.Filename
	}
	return fmt.Sprintf("%s:%d", rel, ps.Line)
}

func (p *Prog) instrPos(in ssa.Instruction) string {
	if in.Pos().IsValid() {
		return p.pos(in.Pos())
	}
	// fall back to the nearest positioned instruction in the block, then the function
	if b := in.Block(); b != nil {
		for _, x := range b.Instrs {
			if x.Pos().IsValid() {
				return p.pos(x.Pos())
			}
		}
		return p.pos(b.Parent().Pos())
	}
	return "-"
}

// Cone returns the module functions reachable from the roots in the call graph (roots included),
// following closures created inside reachable functions as well.
func (p *Prog) Cone(roots ...*ssa.Function) map[*ssa.Function]bool {
	seen := map[*ssa.Function]bool{}
	var work []*ssa.Function
	push := func(f *ssa.Function) {
		if f != nil && p.Dropped[rootFunc(f)] {
			return
		}
		if f != nil && !seen[f] {
			seen[f] = true
			work = append(work, f)
		}
	}
	for _, r := range roots {
		push(r)
	}
	for len(work) > 0 {
		f := work[len(work)-1]
		work = work[:len(work)-1]
		if n := p.CG.Nodes[f]; n != nil {
			for _, e := range n.Out {
				push(e.Callee.Func)
			}
		}
		for _, af := range f.AnonFuncs {
			push(af)
		}
	}
	out := map[*ssa.Function]bool{}
	for f := range seen {
		if pk := funcPkg(f); pk != nil && strings.HasPrefix(pk.Path(), modPath) && len(f.Blocks) > 0 {
			out[f] = true
		}
	}
	return out
}

// Callees resolves the possible module-or-external callees of a call instruction via the call graph.
func (p *Prog) Callees(site ssa.CallInstruction) []*ssa.Function {
	if c := site.Common().StaticCallee(); c != nil {
		return []*ssa.Function{c}
	}
	var out []*ssa.Function
	if n := p.CG.Nodes[site.Parent()]; n != nil {
		for _, e := range n.Out {
			if e.Site == site {
				out = append(out, e.Callee.Func)
			}
		}
	}
	sort.SliceStable(out, func(i, j int) bool { return out[i].String() < out[j].String() })
	return out
}

// Callers returns the call sites (in module functions) that may call fn.
func (p *Prog) Callers(fn *ssa.Function) []ssa.CallInstruction {
	var out []ssa.CallInstruction
	if n := p.CG.Nodes[fn]; n != nil {
		for _, e := range n.In {
			if e.Site == nil {
				continue
			}
			if p.Dropped[rootFunc(e.Caller.Func)] {
				continue // a fully inlined helper: its body lives on in its callers
			}
			if pk := funcPkg(e.Caller.Func); pk != nil && strings.HasPrefix(pk.Path(), modPath) {
				out = append(out, e.Site)
			}
		}
	}
	// by file name and offset, not by token.Pos: the files of a package are parsed concurrently, so the
	// bases the file set hands out — and with them the order of positions in different files — change from run to run
	type k struct {
		file string
		off  int
		fn   string
	}
	key := func(s ssa.CallInstruction) k {
		ps := p.Fset.Position(s.Pos())
		name := ""
		if s.Parent() != nil {
			name = s.Parent().String()
		}
		return k{ps.Filename, ps.Offset, name}
	}
	sort.SliceStable(out, func(i, j int) bool {
		a, b := key(out[i]), key(out[j])
		if a.file != b.file {
			return a.file < b.file
		}
		if a.off != b.off {
			return a.off < b.off
		}
		return a.fn < b.fn
	})
	return out
}

// FuncsAndInits is every source function plus the package initialisers.
func (p *Prog) FuncsAndInits() []*ssa.Function {
	return append(append([]*ssa.Function(nil), p.Funcs...), p.Inits...)
}

func sortedFuncs(m map[*ssa.Function]bool) []*ssa.Function {
	var out []*ssa.Function
	for f := range m {
		out = append(out, f)
	}
	sort.Slice(out, func(i, j int) bool { return out[i].String() < out[j].String() })
	return out
}
