package main

import (
	"fmt"
	"go/ast"
	"go/token"
	"go/types"
	"strings"

	"golang.org/x/tools/go/ssa"
)

var numericKinds = []string{"int", "int8", "int16", "int32", "int64", "uint", "uint8", "uint16", "uint32", "uint64", "uintptr", "float32", "float64"}

// elementTypeGuard: cond tests `N.Type == html.ElementNode` for node value n; returns polarity under which N is an element.
func elementTypeGuard(cnd ssa.Value, n ssa.Value) (isGuard bool, elemWhenTrue bool) {
	b, ok := cnd.(*ssa.BinOp)
	if !ok || (b.Op != token.EQL && b.Op != token.NEQ) {
		return false, false
	}
	k, ok := constInt(b.Y)
	if !ok || k != 3 { // html.ElementNode == 3
		return false, false
	}
	ld, ok := b.X.(*ssa.UnOp)
	if !ok || ld.Op != token.MUL {
		return false, false
	}
	fa, ok := ld.X.(*ssa.FieldAddr)
	if !ok || fieldName(fa.X.Type(), fa.Field) != "Type" || !sameNodeValue(fa.X, n) {
		return false, false
	}
	return true, b.Op == token.EQL
}

func sameNodeValue(a, b ssa.Value) bool {
	if a == b {
		return true
	}
	return sameValue(a, b)
}

func init() {
	register(&Rule{
		ID: "C03.R1", Props: []string{"C03", "C14"}, Min: 16,
		Doc: "the truthiness table is exhaustive over Go's basic kinds: IsTruthy's type switch has a case with a genuine zero test for every signed/unsigned/float width, plus bool, string and nil; a zero test written `b != 0` only counts in a single-type case (in a multi-type case b is an interface and the comparison is always true for other widths), multi-type cases must use a value-based idiom (formatting, reflect IsZero)",
		Run: func(p *Prog, c *Ctx) {
			fn := p.MustFn("helpers.IsTruthy")
			decl := p.astDecl[fn]
			pkg := p.PkgBy[modPath+"/internal/helpers"]
			if decl == nil || pkg == nil {
				undecided("IsTruthy has no syntax")
			}
			var ts *ast.TypeSwitchStmt
			ast.Inspect(decl, func(n ast.Node) bool {
				if t, ok := n.(*ast.TypeSwitchStmt); ok && ts == nil {
					ts = t
				}
				return true
			})
			if ts == nil {
				// a reflect-based implementation: accept when it tests IsZero on the reflected value
				usesIsZero := false
				for _, site := range callsIn(fn) {
					if isCall(site, "(reflect.Value).IsZero") {
						usesIsZero = true
					}
				}
				c.check(usesIsZero, "IsTruthy: zero test", p.pos(fn.Pos()), "reflect IsZero covers every kind", "IsTruthy has neither a type switch nor a reflect IsZero test: numeric zero values cannot be recognised")
				return
			}
			covered := map[string]string{} // type name -> how
			bad := map[string]string{}
			for _, st := range ts.Body.List {
				cc := st.(*ast.CaseClause)
				var names []string
				for _, e := range cc.List {
					tv := pkg.TypesInfo.Types[e]
					if tv.IsNil() {
						names = append(names, "nil")
						continue
					}
					if tv.Type != nil {
						names = append(names, types.TypeString(tv.Type, nil))
					}
				}
				if cc.List == nil {
					continue // default
				}
				how := classifyZeroTest(cc, len(names) == 1)
				for _, n := range names {
					switch {
					case n == "nil" || n == "bool" || n == "string":
						covered[n] = "case present"
					case how == "typed-compare" || how == "value-idiom":
						covered[n] = how
					default:
						bad[n] = how
					}
				}
			}
			for _, k := range append([]string{"bool", "string", "nil"}, numericKinds...) {
				key := "IsTruthy: " + k
				switch {
				case covered[k] != "":
					c.ok(key, p.pos(ts.Pos()), covered[k])
				case bad[k] != "":
					c.fail(key, p.pos(ts.Pos()), fmt.Sprintf("the case listing %s has no valid zero test (%s): %s(0) is truthy, so v-if/v-show/:attr/:class treat a zero of this width as true", k, bad[k], k))
				default:
					c.fail(key, p.pos(ts.Pos()), fmt.Sprintf("no case for %s: it falls to the default (truthy), so %s(0) is truthy", k, k))
				}
			}
		},
	})

	register(&Rule{
		ID: "C03.R2", Props: []string{"C03", "C14"}, Min: 8,
		Doc: "one truthiness table, applied to the value itself: every condition position (v-if/v-else-if, v-show, bound-attribute omission, :class objects) decides through helpers.IsTruthy; its argument originates from the evaluated value, never from a value re-parsed out of a string (strconv parsing of a formatted value); the boolean returned by the condition evaluator is always IsTruthy(...) (or its negation) or a constant",
		Run: func(p *Prog, c *Ctx) {
			it := p.MustFn("helpers.IsTruthy")
			perFn := map[string]int{}
			for _, site := range p.Callers(it) {
				fn := site.Parent()
				perFn[shortName(fn)]++
				key := fmt.Sprintf("%s: IsTruthy#%d", shortName(fn), perFn[shortName(fn)])
				bad := ""
				for _, o := range p.origins(site.Common().Args[0], OriginOpts{Depth: 1}) {
					if cl, ok := o.(*ssa.Call); ok {
						n := calleeName(&cl.Call)
						if strings.HasPrefix(n, "strconv.") {
							bad = n
						}
					}
					if ex, ok := o.(*ssa.Extract); ok {
						if cl, ok := ex.Tuple.(*ssa.Call); ok && strings.HasPrefix(calleeName(&cl.Call), "strconv.") {
							bad = calleeName(&cl.Call)
						}
					}
				}
				c.check(bad == "", key, p.instrPos(site), "applied to the evaluated value", "truthiness is decided on a value that went through a string round trip ("+bad+"): nil prints as \"<nil>\", typed zeros and strings containing ':' change meaning, so this position disagrees with v-if")
			}
			for _, name := range []string{"(*vuego.Vue).evalConditionExpr", "(*vuego.Vue).evalVShow", "(*vuego.Vue).evalAttributes", "(*vuego.Vue).buildClassString"} {
				fn := p.MustFn(name)
				// a position that hands its condition to evalConditionExpr decides through the table there
				if perFn[shortName(fn)] == 0 && name != "(*vuego.Vue).evalConditionExpr" {
					for _, site := range callsIn(fn) {
						if calleeName(site.Common()) == "(*vuego.Vue).evalConditionExpr" {
							perFn[shortName(fn)] = perFn[shortName(p.MustFn("(*vuego.Vue).evalConditionExpr"))]
						}
					}
				}
				c.check(perFn[shortName(fn)] > 0, name+": uses the table", p.pos(fn.Pos()), fmt.Sprintf("%d IsTruthy decision(s)", perFn[shortName(fn)]), "this condition position no longer decides through helpers.IsTruthy: the same value can be truthy here and falsy in v-if")
			}
			ce := p.MustFn("(*vuego.Vue).evalConditionExpr")
			for i, r := range returnsOf(ce) {
				okR := true
				for _, o := range p.origins(r.Results[0], OriginOpts{}) {
					switch x := o.(type) {
					case *ssa.Const:
					case *ssa.Call:
						if calleeName(&x.Call) != "helpers.IsTruthy" {
							okR = false
						}
					case *ssa.UnOp:
						if x.Op == token.NOT {
							if isCallNamed(x.X, "helpers.IsTruthy") == nil {
								okR = false
							}
						} else {
							okR = false
						}
					default:
						okR = false
					}
				}
				c.check(okR, fmt.Sprintf("evalConditionExpr: return#%d", i+1), p.instrPos(r), "constant or IsTruthy(...)", "the condition evaluator returns a boolean that does not come from the truthiness table")
			}
		},
	})

	register(&Rule{
		ID: "C03.R3", Props: []string{"C03", "C04"}, Min: 2,
		Doc: "orphan v-else-if / v-else are dropped before anything renders them: in the evaluator both unconditional rendering paths — the generic element handling and the <template> handling — are only reachable when the element carries neither v-else-if nor v-else (the chain walker and the v-for look-ahead skip only up to the member they rendered and rely on this to drop the rest, also when a later member is a <template>)",
		Run: func(p *Prog, c *Ctx) {
			fn := p.MustFn("(*vuego.Vue).evaluate")
			n := 0
			for _, site := range callsIn(fn) {
				// the generic clone path and the <template> path both render the element unconditionally
				if nm := calleeName(site.Common()); nm != "(*vuego.Vue).evalAttributes" && nm != "(*vuego.Vue).evalTemplate" {
					continue
				}
				n++
				need := map[string]bool{"v-else-if": false, "v-else": false}
				var note func(cnd ssa.Value, want bool)
				note = func(cnd ssa.Value, want bool) {
					// (the test kept in a boolean local: `stray := HasAttr(…) || HasAttr(…); if !pre && stray { continue }`)
					if alts, isOr, ok := shortCircuitAlternatives(cnd); ok && want != isOr {
						for _, a := range alts {
							ac, aflip := stripNot(a)
							note(ac, want != aflip)
						}
						return
					}
					if cl := isCallNamed(cnd, "helpers.HasAttr"); cl != nil && !want {
						if k, ok := constString(cl.Call.Args[1]); ok {
							if _, has := need[k]; has {
								need[k] = true
							}
						}
					}
				}
				for _, g := range guardsOf(site.Block()) {
					cnd, flip := stripNot(g.If.Cond)
					note(cnd, g.Branch != flip)
				}
				// ... or the same tests lie on every feasible way to the call (an element with v-pre leaves the
				// loop round before it gets here)
				if facts, ok := pathFacts(site.Block()); ok {
					for _, f := range facts {
						note(f.Cond, f.Want)
					}
				}
				c.check(need["v-else-if"] && need["v-else"], fmt.Sprintf("evaluate: generic element path#%d", n), p.instrPos(site), "guarded by !HasAttr(v-else-if) && !HasAttr(v-else)", "an element with v-else-if / v-else that is not selected by a chain reaches an unconditional rendering path ("+calleeName(site.Common())+"): the leftover branch is rendered although another branch (or the loop) already was")
			}
		},
	})

	register(&Rule{
		ID: "C03.R4", Props: []string{"C03"}, Min: 1, // one per call that renders a member: v-if and the else members (two calls today, one when v-else-if and v-else share their tail)
		Doc: "at most one branch per chain: in the chain walker every call that evaluates a chain member is followed by a return on all paths — no path leads from one such call to another member's evaluation or condition",
		Run: func(p *Prog, c *Ctx) {
			fn := p.MustFn("(*vuego.Vue).evalElseIfChain")
			isMember := func(in ssa.Instruction) bool {
				site, ok := in.(ssa.CallInstruction)
				if !ok {
					return false
				}
				n := calleeName(site.Common())
				return n == "(*vuego.Vue).evaluateNodeAsElement" || n == "(*vuego.Vue).evalCondition" || n == "(*vuego.Vue).evalConditionExpr"
			}
			n := 0
			for _, site := range callsIn(fn) {
				if calleeName(site.Common()) != "(*vuego.Vue).evaluateNodeAsElement" {
					continue
				}
				n++
				next := pathAvoiding(site, isMember, nil)
				msg := ""
				if next != nil {
					msg = "after this branch was rendered, " + calleeName(callOf(next)) + " at " + p.instrPos(next) + " is still reachable: a second branch of the same chain can be rendered"
				}
				c.check(next == nil, fmt.Sprintf("evalElseIfChain: branch evaluation#%d", n), p.instrPos(site), "returns on every path", msg)
			}
		},
	})

	register(&Rule{
		ID: "C03.R5", Props: []string{"C03", "C04"}, Min: 4,
		Doc: "sibling scans skip every non-element node: wherever the chain walker or the v-for/v-else look-ahead inspects the directives of a following sibling, that inspection is guarded by `Type == ElementNode` of that sibling (comments and text between members never break or join a chain); the v-for look-ahead stops at the first element sibling",
		Run: func(p *Prog, c *Ctx) {
			n := 0
			for _, name := range []string{"(*vuego.Vue).evalElseIfChain", "(*vuego.Vue).evalVFor"} {
				fn := p.MustFn(name)
				nodesParam := paramOf(fn, "nodes", 3, 5)
				for _, site := range callsIn(fn) {
					nm := calleeName(site.Common())
					if nm != "helpers.HasAttr" && nm != "helpers.GetAttr" {
						continue
					}
					node := site.Common().Args[0]
					// only siblings loaded from the nodes slice at a loop index
					fromSlice := false
					if ld, ok := node.(*ssa.UnOp); ok && ld.Op == token.MUL {
						if ia, ok := ld.X.(*ssa.IndexAddr); ok && ia.X == nodesParam {
							fromSlice = true
						}
					}
					if !fromSlice {
						continue
					}
					n++
					guarded := guardedBy(site.Block(), func(cnd ssa.Value, want bool) bool {
						isG, elemWhenTrue := elementTypeGuard(cnd, node)
						return isG && want == elemWhenTrue
					})
					if !guarded {
						// the test may lie on every feasible way here without dominating (a scan loop that stops
						// at the first element, followed by a bounds test that short-circuits)
						if facts, ok := pathFacts(site.Block()); ok {
							for _, f := range facts {
								if isG, elemWhenTrue := elementTypeGuard(f.Cond, node); isG && f.Want == elemWhenTrue {
									guarded = true
								}
							}
						}
					}
					c.check(guarded, fmt.Sprintf("%s: directive test on a sibling#%d", strings.TrimPrefix(name, "(*vuego.Vue)."), n), p.instrPos(site), "guarded by Type == ElementNode", "a following sibling's directives are inspected without first requiring it to be an element: a comment or stray text between chain members ends the chain (the later v-else-if / v-else is never rendered)")
				}
			}
			// v-for look-ahead: stop at the first element
			fn := p.MustFn("(*vuego.Vue).evalVFor")
			eachInstr(fn, func(in ssa.Instruction) {
				ifi, ok := in.(*ssa.If)
				if !ok {
					return
				}
				b, ok := ifi.Cond.(*ssa.BinOp)
				if !ok {
					return
				}
				ld, ok := b.X.(*ssa.UnOp)
				if !ok {
					return
				}
				fa, ok := ld.X.(*ssa.FieldAddr)
				if !ok || fieldName(fa.X.Type(), fa.Field) != "Type" {
					return
				}
				isG, elemWhenTrue := elementTypeGuard(ifi.Cond, fa.X)
				if !isG {
					return
				}
				elem := ifi.Block().Succs[0]
				if !elemWhenTrue {
					elem = ifi.Block().Succs[1]
				}
				h := loopHeaderOf(ifi.Block())
				if h == nil {
					return
				}
				back := elem == h || blocksAfterWithin(elem, h)
				c.check(!back, "evalVFor: look-ahead stops at the first element", p.instrPos(ifi), "the element edge leaves the loop", "after seeing an element sibling that is not v-else the look-ahead keeps scanning: a later, unrelated v-else is rendered at the loop's position and the siblings in between are skipped")
			})
		},
	})
}

// blocksAfterWithin: can control flow from b reach header h again (i.e. continue the loop)?
func blocksAfterWithin(b, h *ssa.BasicBlock) bool {
	if b == h {
		return true
	}
	return blocksAfter(b)[h]
}

// classifyZeroTest inspects a case clause of the truthiness switch.
func classifyZeroTest(cc *ast.CaseClause, single bool) string {
	res := "no zero test"
	ast.Inspect(cc, func(n ast.Node) bool {
		be, ok := n.(*ast.BinaryExpr)
		if !ok || (be.Op != token.NEQ && be.Op != token.EQL) {
			return true
		}
		if call, ok := be.X.(*ast.CallExpr); ok {
			if sel, ok := call.Fun.(*ast.SelectorExpr); ok && strings.HasPrefix(sel.Sel.Name, "Sprint") {
				if lit, ok := be.Y.(*ast.BasicLit); ok && strings.Trim(lit.Value, "\"`") == "0" {
					res = "value-idiom"
					return false
				}
			}
		}
		if _, ok := be.X.(*ast.Ident); ok {
			if lit, ok := be.Y.(*ast.BasicLit); ok && (lit.Value == "0" || lit.Value == "0.0") {
				if single {
					res = "typed-compare"
				} else if res != "value-idiom" {
					res = "`b != 0` in a multi-type case compares an interface with int(0), which only matches int"
				}
			}
		}
		return true
	})
	ast.Inspect(cc, func(n ast.Node) bool {
		if call, ok := n.(*ast.CallExpr); ok {
			if sel, ok := call.Fun.(*ast.SelectorExpr); ok && sel.Sel.Name == "IsZero" {
				res = "value-idiom"
			}
		}
		return true
	})
	return res
}
