package main

import (
	"fmt"
	"go/token"
	"go/types"
	"sort"
	"strings"

	"golang.org/x/tools/go/ssa"
)

// Rules added after the second round of independently seeded changes (DESIGN §6.6). Each states a
// structural necessary condition over the resolved program; none matches text or positions.

// ---------- G1: loop progress ----------

// loopsOf returns the natural-loop headers of fn.
func loopsOf(fn *ssa.Function) []*ssa.BasicBlock {
	var out []*ssa.BasicBlock
	for _, b := range fn.Blocks {
		for _, pr := range b.Preds {
			if b.Dominates(pr) {
				out = append(out, b)
				break
			}
		}
	}
	return out
}

// dependsOnPhi: v is computed (within the function) from phi ph.
func dependsOnPhi(v ssa.Value, ph *ssa.Phi, seen map[ssa.Value]bool, d int) bool {
	if v == nil || seen[v] || d > 10 {
		return false
	}
	seen[v] = true
	if v == ph {
		return true
	}
	switch x := v.(type) {
	case *ssa.BinOp:
		return dependsOnPhi(x.X, ph, seen, d+1) || dependsOnPhi(x.Y, ph, seen, d+1)
	case *ssa.UnOp:
		return dependsOnPhi(x.X, ph, seen, d+1)
	case *ssa.Call:
		for _, a := range callArgs(&x.Call) {
			if dependsOnPhi(a, ph, seen, d+1) {
				return true
			}
		}
	case *ssa.Slice:
		return dependsOnPhi(x.X, ph, seen, d+1) || dependsOnPhi(x.Low, ph, seen, d+1) || dependsOnPhi(x.High, ph, seen, d+1)
	case *ssa.Convert:
		return dependsOnPhi(x.X, ph, seen, d+1)
	case *ssa.ChangeType:
		return dependsOnPhi(x.X, ph, seen, d+1)
	case *ssa.Extract:
		return dependsOnPhi(x.Tuple, ph, seen, d+1)
	case *ssa.Phi:
		for _, e := range x.Edges {
			if dependsOnPhi(e, ph, seen, d+1) {
				return true
			}
		}
	case *ssa.IndexAddr:
		return dependsOnPhi(x.X, ph, seen, d+1) || dependsOnPhi(x.Index, ph, seen, d+1)
	case *ssa.Index:
		return dependsOnPhi(x.X, ph, seen, d+1) || dependsOnPhi(x.Index, ph, seen, d+1)
	case *ssa.Lookup:
		return dependsOnPhi(x.X, ph, seen, d+1) || dependsOnPhi(x.Index, ph, seen, d+1)
	}
	return false
}

func init() {
	register(&Rule{
		ID: "C11.R6", Props: []string{"C11"}, Min: 10,
		Doc: "every scanning loop makes progress: in each loop of the module whose exits are decided by loop-carried variables (scan positions, counters, cursor nodes), no path around the loop leaves all of those variables unchanged — a `continue` taken before the position is advanced would spin forever on the same input",
		Run: func(p *Prog, c *Ctx) {
			for _, fn := range p.Funcs {
				for li, h := range loopsOf(fn) {
					loop := loopBlocks(h)
					var phis []*ssa.Phi
					for _, in := range h.Instrs {
						if ph, ok := in.(*ssa.Phi); ok {
							phis = append(phis, ph)
						}
					}
					if len(phis) == 0 {
						continue
					}
					// exit conditions
					var conds []ssa.Value
					for b := range loop {
						if ifi, ok := b.Instrs[len(b.Instrs)-1].(*ssa.If); ok {
							if !loop[b.Succs[0]] || !loop[b.Succs[1]] {
								conds = append(conds, ifi.Cond)
							}
						}
					}
					var control []*ssa.Phi
					for _, ph := range phis {
						for _, cnd := range conds {
							if dependsOnPhi(cnd, ph, map[ssa.Value]bool{}, 0) {
								control = append(control, ph)
								break
							}
						}
					}
					if len(control) == 0 {
						continue // exits decided by something else (iterator, channel, callee): not this rule's business
					}
					// range-over-map/iterator loops progress through the iterator
					isIter := false
					for _, in := range h.Instrs {
						if _, ok := in.(*ssa.Next); ok {
							isIter = true
						}
					}
					if isIter {
						continue
					}
					key := fmt.Sprintf("%s: loop#%d", shortName(fn), li+1)
					bad := ""
					for i, pr := range h.Preds {
						if !h.Dominates(pr) {
							continue
						}
						stuck := true
						for _, ph := range control {
							if ph.Edges[i] != ph {
								stuck = false
							}
						}
						if stuck {
							bad = fmt.Sprintf("the back edge from block %d (%s) carries every loop-control variable unchanged", pr.Index, p.instrPos(pr.Instrs[len(pr.Instrs)-1]))
						}
					}
					c.check(bad == "", key, p.instrPos(h.Instrs[0]), fmt.Sprintf("%d control variable(s) advance on every path around the loop", len(control)), bad+": the loop re-examines the same position forever and the render never returns")
				}
			}
		},
	})

	// ---------- G3: mandatory actions and their allowed guards ----------

	register(&Rule{
		ID: "C08.R5", Props: []string{"C08", "C17", "C13"}, Min: 2,
		Doc: "struct data is converted field by field without holes: in the struct→map conversions (StructToMap's worker and PopulateStructFields) the store of a field's value into the result is skipped only for unexported fields — no other condition (zero value, tag option, kind) may leave an exported field out, since a value passed through Fill must win over config data for every key it defines",
		Run: func(p *Prog, c *Ctx) {
			for _, name := range []string{"reflect.structToMap", "reflect.PopulateStructFields"} {
				fn := p.MustFn(name)
				n := 0
				eachInstr(fn, func(in ssa.Instruction) {
					mu, ok := in.(*ssa.MapUpdate)
					if !ok {
						return
					}
					h := loopHeaderOf(mu.Block())
					if h == nil {
						return
					}
					// only stores into the conversion's result map (returned map / the map parameter being populated)
					isResult := false
					for _, r := range returnsOf(fn) {
						if len(r.Results) == 0 {
							continue
						}
						// with a defer in the function go/ssa spills the result: compare origins, not values
						for _, ro := range p.origins(r.Results[0], OriginOpts{}) {
							for _, mo := range p.origins(mu.Map, OriginOpts{}) {
								if ro == mo {
									isResult = true
								}
							}
						}
					}
					for _, prm := range fn.Params {
						if prm == mu.Map && isNamedMapStringAny(prm.Type()) {
							isResult = true
						}
					}
					if !isResult {
						return // book-keeping (visited set)
					}
					n++
					other := ""
					for _, g := range guardsOf(mu.Block()) {
						if !loopBlocks(h)[g.If.Block()] || g.If.Block() == h {
							continue // loop condition and guards before the loop
						}
						cnd, _ := stripNot(g.If.Cond)
						if isCallNamed(cnd, "(reflect.StructField).IsExported") != nil {
							continue
						}
						// value preparation branches (nested struct → recurse, tag name non-empty) rejoin before the store:
						// they do not dominate it. Anything that does dominate is a skip condition.
						other = describeCond(p, cnd)
					}
					if other == "" {
						// the store must be reached on every path of the iteration once the field is known to be exported
						eachInstr(fn, func(in2 ssa.Instruction) {
							ifi, ok := in2.(*ssa.If)
							if !ok || !loopBlocks(h)[ifi.Block()] {
								return
							}
							cnd, flip := stripNot(ifi.Cond)
							if isCallNamed(cnd, "(reflect.StructField).IsExported") == nil {
								return
							}
							exp := ifi.Block().Succs[0]
							if flip {
								exp = ifi.Block().Succs[1]
							}
							if len(exp.Instrs) == 0 {
								return
							}
							back := pathAvoiding(exp.Instrs[0], func(x ssa.Instruction) bool { return x.Block() == h }, func(x ssa.Instruction) bool { return x == ssa.Instruction(mu) })
							if back != nil {
								other = "a path of the loop iteration reaches the next field without storing this one"
							}
						})
					}
					c.check(other == "", fmt.Sprintf("%s: field store#%d", name, n), p.instrPos(mu), "skipped only for unexported fields", "an exported field can be left out of the converted data by a further condition ("+other+"): a struct value passed through Fill no longer overrides config/front-matter for that key although the same data as a map does")
				})
				c.check(n > 0, name+": stores fields", p.pos(fn.Pos()), fmt.Sprintf("%d store(s) in the field loop", n), "the conversion no longer stores fields")
			}
		},
	})

	register(&Rule{
		ID: "C08.R6", Props: []string{"C08"}, Min: 2,
		Doc: "config files are loaded for every way of constructing a renderer: the constructor calls loadConfig unconditionally after the options were applied, and loadConfig's own 'no filesystem' test reads the engine's filesystem field (which WithFS may have set), not a constructor argument",
		Run: func(p *Prog, c *Ctx) {
			nf := p.MustFn("vuego.NewFS")
			var call ssa.Instruction
			for _, site := range callsIn(nf) {
				if calleeName(site.Common()) == "vuego.loadConfig" {
					call = site
				}
			}
			c.check(call != nil, "NewFS: loads config", p.pos(nf.Pos()), "loadConfig is called", "the constructor no longer loads theme.yml / data/*.yml")
			if call != nil {
				// the only thing that may decide whether loadConfig runs is the engine's own filesystem field being set
				// (the test loadConfig makes itself may have been moved to the caller)
				uncond := true
				fieldTestInCaller := false
				_ = fieldTestInCaller
				for _, g := range controllingIfs(call) {
					okCond := false
					if b, ok := g.If.Cond.(*ssa.BinOp); ok && (isNilConst(b.X) || isNilConst(b.Y)) {
						other := b.X
						if isNilConst(b.X) {
							other = b.Y
						}
						if f := loadedField(other); f != nil && fieldIs(f, "templateFS") {
							okCond = true
							fieldTestInCaller = true
						}
					}
					if !okCond {
						uncond = false
					}
				}
				// after the options loop: some dynamic call of an option func precedes it
				afterOpts := false
				for _, site := range callsIn(nf) {
					if site.Common().StaticCallee() == nil && !site.Common().IsInvoke() {
						if _, isB := site.Common().Value.(*ssa.Builtin); !isB && canFollow(site, call) && !canFollow(call, site) {
							afterOpts = true
						}
					}
				}
				c.check(uncond, "NewFS: loadConfig on every path", p.instrPos(call), "unconditional", "loadConfig is only called under a condition of the constructor's arguments: a renderer built with New(WithFS(fs)) never loads theme.yml / data/*.yml, so keys defined only there no longer fall through")
				c.check(afterOpts, "NewFS: loadConfig after the options", p.instrPos(call), "options are applied first", "loadConfig runs before the options are applied: WithFS has not set the filesystem yet")
			}
			lc := p.MustFn("vuego.loadConfig")
			okField := false
			eachInstr(lc, func(in ssa.Instruction) {
				if b, ok := in.(*ssa.BinOp); ok && (isNilConst(b.X) || isNilConst(b.Y)) {
					other := b.X
					if isNilConst(b.X) {
						other = b.Y
					}
					if f := loadedField(other); f != nil && fieldIs(f, "templateFS") {
						okField = true
					}
				}
			})
			if !okField && call != nil {
				for _, g := range controllingIfs(call) {
					if b, ok := g.If.Cond.(*ssa.BinOp); ok && (isNilConst(b.X) || isNilConst(b.Y)) {
						other := b.X
						if isNilConst(b.X) {
							other = b.Y
						}
						if f := loadedField(other); f != nil && fieldIs(f, "templateFS") {
							okField = true // the test was moved to the only caller
						}
					}
				}
			}
			c.check(okField, "loadConfig: tests the engine's filesystem", p.pos(lc.Pos()), "vue.templateFS == nil → return", "loadConfig does not test the engine's own filesystem field before reading")
		},
	})

	// ---------- G4: layering (who may call) ----------

	register(&Rule{
		ID: "C02.R4", Props: []string{"C02", "C14", "C19", "C13"}, Min: 2,
		Doc: "source-formatting helpers stay in the formatter: the attribute whitespace normaliser (helpers.FormatAttr) and the formatter's whitespace filter are never reachable from the render entry points, and inside the formatter the whitespace-dropping child filter is not reachable from the <pre>/raw-text renderers — rendering passes attribute values through unchanged, and <pre> content keeps every text node",
		Run: func(p *Prog, c *Ctx) {
			fa := p.MustFn("helpers.FormatAttr")
			for i, site := range p.Callers(fa) {
				pk := funcPkg(site.Parent())
				c.check(pk != nil && pk.Path() == formatterPkg, fmt.Sprintf("FormatAttr caller#%d", i+1), p.instrPos(site), "called from the formatter", "the formatter's attribute normaliser (trim, newline→space, collapse runs) is applied by "+shortName(site.Parent())+": attribute values with inner whitespace runs, newlines or tabs — static or from data — are altered while rendering")
			}
			renderCone := p.Cone(p.renderEntries()...)
			c.check(!renderCone[fa], "FormatAttr not reachable from rendering", p.pos(fa.Pos()), "outside the render cone", "helpers.FormatAttr is reachable from a render entry point")
			// (when the small predicate was inlined and deleted, the functions it was inlined into stand for it)
			filters, _ := p.hostsOf("(*formatter.Formatter).isIgnorableWhitespace")
			if len(filters) == 0 {
				undecided("anchor function (*formatter.Formatter).isIgnorableWhitespace not found, nor its former callers")
			}
			for _, name := range []string{"(*formatter.Formatter).renderPreContent", "(*formatter.Formatter).formatRawTextElement"} {
				fn := p.MustFn(name)
				reach := false
				for _, filter := range filters {
					if p.Cone(fn)[filter] {
						reach = true
					}
				}
				c.check(!reach, name+": keeps whitespace text nodes", p.pos(fn.Pos()), "whitespace filter not reachable", "the whitespace-dropping child filter is reachable from "+name+": whitespace-only text nodes inside <pre> / raw text (the separators a syntax highlighter emits) are dropped, altering the content")
			}
		},
	})

	// ---------- G5: aliasing ----------

	register(&Rule{
		ID: "C14.R8", Props: []string{"C14", "C10", "C06", "C04"}, Min: 2,
		Doc: "directive handlers only mutate nodes that own their attribute list: in the generic element path of the evaluators, the node handed to evalVHtml/evalVText/evalVShow/evalAttributes comes from a cloner that copies the attribute slice (recognised structurally: the clone's Attr is a fresh append-copy, not the source's slice) — otherwise a handler's in-place attribute write (display:none, carriers) lands in the source node, which is evaluated again for the next slot use / loop row",
		Run: func(p *Prog, c *Ctx) {
			handlers := map[string]bool{"(*vuego.Vue).evalVHtml": true, "(*vuego.Vue).evalVText": true, "(*vuego.Vue).evalVShow": true, "(*vuego.Vue).evalAttributes": true}
			n := 0
			for _, name := range []string{"(*vuego.Vue).evaluate", "(*vuego.Vue).evaluateNodeAsElement"} {
				fn := p.MustFn(name)
				for _, site := range callsIn(fn) {
					if !handlers[calleeName(site.Common())] {
						continue
					}
					n++
					node := site.Common().Args[2]
					bad := ""
					for _, o := range p.origins(node, OriginOpts{}) {
						cl, ok := o.(*ssa.Call)
						if !ok {
							bad = "the handler receives " + describeValue(o) + ", not a private clone"
							continue
						}
						callee := cl.Call.StaticCallee()
						if callee == nil || !copiesAttrs(p, callee, map[*ssa.Function]bool{}) {
							bad = "the handler receives the result of " + calleeName(&cl.Call) + ", whose attribute slice is shared with the source node"
						}
					}
					c.check(bad == "", fmt.Sprintf("%s: %s#%d", strings.TrimPrefix(name, "(*vuego.Vue)."), strings.TrimPrefix(calleeName(site.Common()), "(*vuego.Vue)."), n), p.instrPos(site), "node comes from an attribute-copying cloner", bad+": an in-place attribute write (v-show's display:none, a carrier) modifies the source node, so later evaluations of the same source (scoped slot content per row) inherit it")
				}
			}
		},
	})

	register(&Rule{
		ID: "C15.R3", Props: []string{"C15", "C07", "C10"}, Min: 1,
		Doc: "no unvalidated memo of filesystem state: inside the cone of the render entry points, what a Stat / file read / loader call returned is never stored into engine or package-level state, except into the template cache whose every hit is validated by mtime (C15.R2) — in particular not under sync.Once, which has no invalidation",
		Run: func(p *Prog, c *Ctx) {
			cone := p.Cone(append(p.renderEntries(), p.concurrentEntries()...)...)
			t := newTaint(p)
			t.FollowField = func(*types.Var) bool { return false }
			t.Scope = func(fn *ssa.Function) bool { return cone[fn] }
			srcs := 0
			for _, fn := range sortedFuncs(cone) {
				for _, site := range callsIn(fn) {
					n := calleeName(site.Common())
					if n == "io/fs.Stat" || n == "io/fs.ReadFile" || n == "io/fs.ReadDir" || n == "(*vuego.Loader).Stat" || n == "(*vuego.Loader).loadFragment" || n == "io/fs.FS.Open" {
						if cv, ok := site.(*ssa.Call); ok {
							srcs++
							t.Seed(cv, n+" at "+p.instrPos(site))
							if refs := cv.Referrers(); refs != nil {
								for _, r := range *refs {
									if ex, ok := r.(*ssa.Extract); ok {
										t.Seed(ex, n+" at "+p.instrPos(site))
									}
								}
							}
						}
					}
				}
			}
			t.Sink = func(u ssa.Instruction, v ssa.Value) string {
				// m[k] = v where m is a map held in a field of an engine object (or a package-level map)
				if mu, ok := u.(*ssa.MapUpdate); ok && (mu.Value == v || mu.Key == v) {
					// a memo of a filesystem answer: the function that stores is the one that asked. (Template text
					// read from a file travels everywhere — into the expression cache as key and compiled program,
					// for instance; that is a pure function of its key, C10.R6.)
					asks := false
					for _, site := range callsIn(mu.Parent()) {
						switch calleeName(site.Common()) {
						case "io/fs.Stat", "io/fs.ReadFile", "io/fs.ReadDir", "(*vuego.Loader).Stat", "(*vuego.Loader).loadFragment", "io/fs.FS.Open", "io/fs.Glob":
							asks = true
						}
					}
					if !asks {
						return ""
					}
					for _, o := range p.origins(mu.Map, OriginOpts{}) {
						ld, ok := o.(*ssa.UnOp)
						if !ok || ld.Op != token.MUL {
							continue
						}
						if _, isG := ld.X.(*ssa.Global); isG {
							return "stored in package-level map " + accessPath(ld.X)
						}
						if fa, ok := ld.X.(*ssa.FieldAddr); ok && engineType(fa.X.Type()) {
							name := fieldName(fa.X.Type(), fa.Field)
							if name == "templateCache" {
								continue // validated by mtime: C15.R2
							}
							return "stored in the map held in engine field " + name
						}
					}
					return ""
				}
				st, ok := u.(*ssa.Store)
				if !ok || st.Val != v {
					return ""
				}
				path := accessPath(st.Addr)
				root := path
				if i := strings.IndexAny(path, ".["); i >= 0 {
					root = path[:i]
				}
				if strings.HasPrefix(root, "global:") {
					return "stored in package-level " + path
				}
				// a store through a pointer to an engine object that was not allocated here — reached through a
				// parameter, a field of another long-lived object (t.vue.x = …), or a captured variable of a
				// closure (Once.Do(func(){ v.x = … }))
				base := st.Addr
				fld := ""
				for depth := 0; depth < 6; depth++ {
					switch a := base.(type) {
					case *ssa.FieldAddr:
						if fld == "" {
							fld = fieldName(a.X.Type(), a.Field)
						}
						if engineType(a.X.Type()) {
							fresh := true
							for _, o := range p.origins(a.X, OriginOpts{}) {
								if _, isAlloc := o.(*ssa.Alloc); !isAlloc {
									fresh = false
								}
							}
							if !fresh {
								return "stored in engine field " + fieldName(a.X.Type(), a.Field)
							}
							return ""
						}
						base = a.X
						continue
					case *ssa.IndexAddr:
						base = a.X
						continue
					case *ssa.UnOp:
						if a.Op == token.MUL {
							base = a.X
							continue
						}
					}
					break
				}
				return ""
			}
			t.Run()
			c.ok("sources", "-", fmt.Sprintf("%d filesystem reads in the render cone followed", srcs))
			for _, h := range t.Hits {
				c.fail(shortName(h.At.Parent())+": "+h.What, p.instrPos(h.At), "a filesystem answer is memoised in long-lived state without validation ("+h.What+"): "+shortWhy(h.Why)+" — after the file is created, deleted or edited, the long-lived engine keeps answering from the memo while a fresh engine sees the current files")
			}
		},
	})

	// ---------- G6: tables that must agree ----------

	register(&Rule{
		ID: "C20.R6", Props: []string{"C20"}, Min: 10,
		Doc: "each template variable is fed from the AST accessor of the same meaning: in the Markdown renderer the data literal's keys take their values from the matching goldmark accessor — link/image destination → href/src, title → title, autolink URL → href and label → label, fenced-code language → language, heading level → level, list ordered/start, task checked, cell alignment → align — so destinations, titles, starts and alignment agree with the reference",
		Run: func(p *Prog, c *Ctx) {
			// template name → key → accepted source (callee suffix or field name)
			want := map[string]map[string][]string{
				"link":          {"href": {"Destination"}, "title": {"Title"}},
				"image":         {"src": {"Destination"}, "title": {"Title"}},
				"autolink":      {"href": {"AutoLink).URL"}, "label": {"AutoLink).Label"}},
				"code_block":    {"language": {"FencedCodeBlock).Language", ""}},
				"heading":       {"level": {"Level"}},
				"emphasis":      {"level": {"Level"}},
				"list":          {"ordered": {"List).IsOrdered"}, "start": {"Start"}},
				"task_checkbox": {"checked": {"IsChecked"}},
			}
			rt := p.MustFn("(*markdown.Markdown).renderTemplate")
			for _, site := range p.Callers(rt) {
				name, ok := constString(site.Common().Args[2])
				if !ok || want[name] == nil {
					continue
				}
				for _, o := range p.origins(site.Common().Args[3], OriginOpts{}) {
					mk, ok := o.(*ssa.MakeMap)
					if !ok {
						continue
					}
					if refs := mk.Referrers(); refs != nil {
						for _, r := range *refs {
							mu, ok := r.(*ssa.MapUpdate)
							if !ok {
								continue
							}
							k, ok := constString(unwrapIface(mu.Key))
							if !ok || want[name][k] == nil {
								continue
							}
							srcs := valueSources(p, mu.Value)
							okSrc := false
							for _, w := range want[name][k] {
								for _, s := range srcs {
									if w != "" && strings.HasSuffix(s, w) {
										okSrc = true
									}
									if w == "" && s == "const" {
										okSrc = true
									}
								}
							}
							c.check(okSrc, fmt.Sprintf("%s.%s (%s)", name, k, shortName(site.Parent())), p.instrPos(mu), "fed by "+strings.Join(want[name][k], "/"), fmt.Sprintf("template variable %s.%s is fed by %s instead of %s: the rendered %s differs from the reference rendering", name, k, strings.Join(srcs, ", "), strings.Join(want[name][k], "/"), k))
						}
					}
				}
			}
			// table cell alignment
			cc := p.MustFn("(*markdown.Markdown).collectCells")
			alignOK := false
			for _, site := range callsIn(cc) {
				if calleeName(site.Common()) == "markdown.alignString" {
					if f := loadedField(site.Common().Args[0]); f != nil && fieldIs(f, "Alignment") {
						alignOK = true
					}
				}
			}
			c.check(alignOK, "table cell align", p.pos(cc.Pos()), "alignString(cell.Alignment)", "table cell alignment is not taken from the cell's Alignment")
		},
	})

	register(&Rule{
		ID: "C20.R7", Props: []string{"C20"}, Min: 1,
		Doc: "line breaks are never skipped: in the inline text arm the break flags of the node (hard / soft line break) are consulted on every path that returns without an error — goldmark encodes a break that follows an inline element as an *empty* text node carrying only the flag, so an early return for empty text loses the <br> or the newline",
		Run: func(p *Prog, c *Ctx) {
			fn := p.MustFn("(*markdown.Markdown).renderInlineNode")
			var hard *ssa.Call
			for _, site := range callsIn(fn) {
				if strings.HasSuffix(calleeName(site.Common()), "ast.Text).HardLineBreak") {
					hard, _ = site.(*ssa.Call)
				}
			}
			c.check(hard != nil, "renderInlineNode: hard break flag consulted", p.pos(fn.Pos()), "HardLineBreak() is called", "the inline renderer no longer consults the hard-line-break flag")
			if hard == nil {
				return
			}
			// the text arm: blocks guarded by the *ast.Text type test
			n := 0
			for _, r := range returnsOf(fn) {
				inArm := false
				for _, ec := range allGuards(r.Block()) {
					if ex, ok := ec.cond.(*ssa.Extract); ok && ec.want {
						if ta, ok := ex.Tuple.(*ssa.TypeAssert); ok && strings.HasSuffix(typeShort(ta.AssertedType), "ast.Text") {
							inArm = true
						}
					}
				}
				if !inArm || !isNilConst(r.Results[0]) {
					continue
				}
				n++
				c.check(dominates(hard, r), fmt.Sprintf("renderInlineNode: text arm return#%d", n), p.instrPos(r), "after the break flags were consulted", "the text arm returns successfully on a path that never looks at the line-break flags: a hard break (or soft break) carried by an empty text node after a code span / emphasis / link / raw HTML is lost")
			}
		},
	})

	register(&Rule{
		ID: "C19.R6", Props: []string{"C19"}, Min: 1,
		Doc: "tag-name delimiters agree with HTML: where the formatter decides which fragment context a leading table-scoped tag needs, the characters accepted after the tag name include every HTML tag-name terminator it can meet in a template — space, tab, newline, `>` and `/` — so that a tag whose attributes start on the next line is still parsed in table context",
		Run: func(p *Prog, c *Ctx) {
			fn := p.MustFn("formatter.fragmentContext")
			// the characters the function compares the byte after the tag name with — as `==` on the accepting
			// way or `!=` on the rejecting one, one by one or as a constant set
			have := map[byte]bool{}
			for r := range comparedChars(fn) {
				if r > 0 && r < 128 {
					have[byte(r)] = true
				}
			}
			var missing []string
			for _, ch := range []byte{' ', '\t', '\n', '>', '/'} {
				if !have[ch] {
					missing = append(missing, fmt.Sprintf("%q", string(ch)))
				}
			}
			c.check(len(missing) == 0, "fragmentContext: tag-name terminators", p.pos(fn.Pos()), "space, tab, newline, > and / accepted", "the tag-name terminator set lacks "+strings.Join(missing, ", ")+": a fragment starting with e.g. `<tr` followed by that character is parsed in <body> context, where the HTML5 parser discards the table elements and their attributes")
		},
	})

	// ---------- G7: one stringification, no position-specific transformation ----------

	register(&Rule{
		ID: "C13.R5", Props: []string{"C13", "C03", "C02", "C11"}, Min: 4, // C02: "the value's string form" is one form, fmt.Sprint, in every position
		Doc: "one value, one string form, one truthiness: every expression position converts an evaluated value to its output string with fmt.Sprint (never a position-specific strconv fast path, whose float/large-number format differs), and the value handed to the truthiness table or returned as a bound value is what the scope / evaluator / pipe produced — not a reflect-transformed copy made in one position only",
		Run: func(p *Prog, c *Ctx) {
			positions := []string{"(*vuego.Vue).interpolateToWriter", "(*vuego.Vue).evalAttributes", "(*vuego.Vue).evalBoundAttribute", "(*vuego.Vue).evalVHtml", "(*vuego.Vue).evalVText", "(*vuego.Vue).evalVShow", "(*vuego.Vue).evalConditionExpr"}
			for _, name := range positions {
				fn := p.MustFn(name)
				bad := ""
				for _, site := range callsIn(fn) {
					n := calleeName(site.Common())
					if strings.HasPrefix(n, "strconv.Format") || n == "strconv.Itoa" || n == "strconv.Quote" {
						bad = n + " at " + p.instrPos(site)
					}
				}
				c.check(bad == "", strings.TrimPrefix(name, "(*vuego.Vue).")+": string form via fmt.Sprint only", p.pos(fn.Pos()), "no strconv formatting of values", "this position formats values with "+bad+" while the other positions use fmt.Sprint: the same expression (a float64 ≥ 1e6 or < 1e-4, …) prints differently in {{ }} and in a bound attribute or `| string`")
			}
			// producers of bound values / truthiness arguments
			allowed := func(o ssa.Value) bool {
				switch x := o.(type) {
				case *ssa.Const, *ssa.Parameter, *ssa.Lookup, *ssa.MakeMap, *ssa.Alloc:
					return true
				case *ssa.Extract:
					if cl, ok := x.Tuple.(*ssa.Call); ok {
						return allowedProducer(calleeName(&cl.Call))
					}
					return true
				case *ssa.Call:
					return allowedProducer(calleeName(&x.Call))
				case *ssa.UnOp, *ssa.Field, *ssa.BinOp:
					return true
				}
				return true
			}
			eb := p.MustFn("(*vuego.Vue).evalBoundAttribute")
			for i, r := range returnsOf(eb) {
				bad := ""
				for _, o := range p.origins(r.Results[0], OriginOpts{Depth: 2, StopAt: func(f *ssa.Function) bool { return allowedProducer(shortName(f)) }}) {
					if !allowed(o) {
						bad = describeValue(o)
					}
				}
				c.check(bad == "", fmt.Sprintf("evalBoundAttribute: return#%d", i+1), p.instrPos(r), "the evaluated value itself", "a bound attribute's value is transformed by "+bad+" before it is tested and emitted: the same variable is then falsy in :attr but truthy in v-if/v-show/:class (e.g. a non-nil pointer to false/0/\"\")")
			}
		},
	})

	// ---------- specific structural clauses ----------

	register(&Rule{
		ID: "C06.R7", Props: []string{"C06", "C03"}, Min: 1,
		Doc: "supplied slot content is evaluated as one sibling list: the helper that evaluates a slot's nodes clones all of them first and makes a single evaluator call on the whole list (v-if/v-else-if/v-else chains and v-for/v-else pairs among the supplied top-level nodes are resolved by looking at following siblings; evaluating nodes one by one turns the partners into orphans that are dropped)",
		Run: func(p *Prog, c *Ctx) {
			fn := p.MustFn("(*vuego.Vue).evaluateSlotNodes")
			n := 0
			for _, site := range callsIn(fn) {
				if calleeName(site.Common()) != "(*vuego.Vue).evaluate" {
					continue
				}
				n++
				inLoop := loopHeaderOf(site.Block()) != nil
				c.check(!inLoop, fmt.Sprintf("evaluateSlotNodes: evaluate#%d", n), p.instrPos(site), "one call on the whole list", "the supplied nodes are evaluated one at a time inside a loop: a top-level v-else / v-else-if among them is evaluated without its v-if sibling and dropped as an orphan, so the slot renders nothing when the head condition is false")
			}
			c.check(n == 1, "evaluateSlotNodes: single evaluation", p.pos(fn.Pos()), "exactly one evaluator call", fmt.Sprintf("%d evaluator calls", n))
		},
	})
}

func allowedProducer(n string) bool {
	switch n {
	case "(*vuego.Stack).Resolve", "(*vuego.Stack).Lookup", "(*vuego.ExprEvaluator).Eval", "(*vuego.Vue).evalPipe", "(*vuego.Vue).evalObjectBinding", "(*vuego.Vue).interpolate",
		"(*vuego.Vue).buildClassString", "(*vuego.Vue).buildStyleString", "(*vuego.Vue).evalSegment", "(*vuego.Vue).evalFilter", "(*vuego.Vue).callFunc", "(*strings.Builder).String":
		return true
	}
	if strings.HasPrefix(n, "strings.") || strings.HasPrefix(n, "fmt.Sprint") {
		return true
	}
	return false
}

// copiesAttrs: fn returns a fresh node whose Attr field is assigned a copy (append onto a nil/fresh
// slice) of the source's attributes — directly or by delegating to such a function and then
// re-assigning Attr from a copy.
// fnStoresBoth: some single store of an Attr field may hold the source's own list or a copy (a φ of both).
func fnStoresBoth(fn *ssa.Function) bool {
	both := false
	eachInstr(fn, func(in ssa.Instruction) {
		st, ok := in.(*ssa.Store)
		if !ok {
			return
		}
		fv := fieldVar(st.Addr)
		if fv == nil || !fieldIs(fv, "Attr") {
			return
		}
		ph, ok := st.Val.(*ssa.Phi)
		if !ok {
			return
		}
		sh, cp := false, false
		for _, e := range ph.Edges {
			if f := loadedField(e); f != nil && fieldIs(f, "Attr") {
				sh = true
			} else {
				cp = true
			}
		}
		if sh && cp {
			both = true
		}
	})
	return both
}

func copiesAttrs(p *Prog, fn *ssa.Function, seen map[*ssa.Function]bool) bool {
	if seen[fn] || !inModule(fn) || len(fn.Blocks) == 0 {
		return false
	}
	seen[fn] = true
	if len(fn.Params) != 1 || !isNamed(fn.Params[0].Type(), "golang.org/x/net/html", "Node") {
		return false
	}
	src := fn.Params[0]
	shares, copies := false, false
	eachInstr(fn, func(in ssa.Instruction) {
		st, ok := in.(*ssa.Store)
		if !ok {
			return
		}
		fv := fieldVar(st.Addr)
		if fv == nil || !fieldIs(fv, "Attr") {
			return
		}
		// value: load of src.Attr (shared) or append(nil/fresh, src.Attr...) (copy); a helper such as
		// `copyAttrs` (copy when non-empty, else nil) arrives inlined as a φ of both
		leaves := []ssa.Value{st.Val}
		if _, isPhi := st.Val.(*ssa.Phi); isPhi {
			leaves = p.origins(st.Val, OriginOpts{})
		}
		for _, val := range leaves {
			if f := loadedField(val); f != nil && fieldIs(f, "Attr") {
				if ld, ok := val.(*ssa.UnOp); ok {
					if fa, ok := ld.X.(*ssa.FieldAddr); ok && fa.X == src {
						shares = true
						continue
					}
				}
			}
			if cl, ok := val.(*ssa.Call); ok && strings.HasPrefix(calleeName(&cl.Call), "slices.Clone") {
				copies = true // slices.Clone(src.Attr): a fresh backing array
				continue
			}
			if cl := isCallNamed(val, "builtin.append"); cl != nil {
				base := cl.Call.Args[0]
				if isNilConst(base) {
					copies = true
					continue
				}
				for _, o := range p.origins(base, OriginOpts{}) {
					switch o.(type) {
					case *ssa.Const, *ssa.MakeSlice, *ssa.Alloc:
						copies = true
					}
				}
			}
		}
	})
	if copies && shares {
		// (one store that may hold either: not a private list on every path)
		if fnStoresBoth(fn) {
			return false
		}
	}
	if copies {
		return true // a later copy overrides an earlier share (ShallowCloneWithAttrs = CloneNode + copy)
	}
	if shares {
		return false
	}
	// delegation
	for _, r := range returnsOf(fn) {
		for _, o := range p.origins(r.Results[0], OriginOpts{}) {
			if cl, ok := o.(*ssa.Call); ok {
				if callee := cl.Call.StaticCallee(); callee != nil && copiesAttrs(p, callee, seen) {
					return true
				}
			}
		}
	}
	return false
}

// valueSources: names of the calls / fields a value is computed from (for the accessor table).
func valueSources(p *Prog, v ssa.Value) []string {
	set := map[string]bool{}
	seen := map[ssa.Value]bool{}
	var walk func(v ssa.Value, d int)
	walk = func(v ssa.Value, d int) {
		if v == nil || seen[v] || d > 8 {
			return
		}
		seen[v] = true
		for _, o := range p.originsThroughCallers(v, OriginOpts{}, 2) {
			switch x := o.(type) {
			case *ssa.Const:
				set["const"] = true
			case *ssa.Call:
				n := calleeName(&x.Call)
				if strings.Contains(n, "goldmark/util.") {
					// text utilities (URLEscape, UnescapePunctuations, Resolve…) transform their argument: the source is what they are given
					for _, a := range callArgs(&x.Call) {
						walk(a, d+1)
					}
				} else if strings.Contains(n, "goldmark") {
					set[n] = true
				} else {
					for _, a := range callArgs(&x.Call) {
						walk(a, d+1)
					}
				}
			case *ssa.UnOp:
				if f := loadedField(x); f != nil {
					set[f.Name()] = true
				} else {
					walk(x.X, d+1)
				}
			case *ssa.Field:
				if f := fieldVar(x); f != nil {
					set[f.Name()] = true
				}
			case *ssa.BinOp:
				walk(x.X, d+1)
				walk(x.Y, d+1)
			case *ssa.Phi:
				for _, e := range x.Edges {
					walk(e, d+1)
				}
			}
		}
	}
	walk(v, 0)
	var out []string
	for s := range set {
		out = append(out, s)
	}
	sort.Strings(out)
	return out
}

func describeCond(p *Prog, cnd ssa.Value) string {
	var parts []string
	walkCond(cnd, func(v ssa.Value) {
		if cl, ok := v.(*ssa.Call); ok {
			parts = append(parts, calleeName(&cl.Call))
		}
	})
	if len(parts) == 0 {
		return fmt.Sprintf("%T", cnd)
	}
	return strings.Join(parts, ", ")
}
