package main

import (
	"fmt"
	"go/ast"
	"go/types"
	"path/filepath"
	"strconv"
	"strings"
)

// Shapes the normaliser cannot look through.
//
// The rules read a function's SSA form: loops are loops of its control-flow graph, local state is SSA values.
// Two rewrites move exactly that out of reach without changing behaviour:
//
//   - `for x := range myIter(...)` over an iterator *defined in the module*: the loop body becomes a synthetic
//     closure handed to the iterator, and the loop itself lives in another function;
//   - state that used to be local variables becomes the fields of a new struct type with methods.
//
// A rule that reports a violation inside such a function has usually lost its footing rather than found a
// defect. Those reports are withdrawn and the rule is UNDECIDED for that construct (exit 2, never a
// VIOLATION): the honest answer of this technique for a shape it cannot analyse. The unchanged tree contains
// neither shape, so nothing is withdrawn there (the evidence lists the opaque functions, normally none).
type opaqueRange struct {
	file     string
	from, to int
	fn, why  string
}

func (p *Prog) computeOpaque() []opaqueRange {
	var out []opaqueRange
	for _, pk := range p.Pkgs {
		info := pk.TypesInfo
		if info == nil {
			continue
		}
		newType := func(obj types.Object) (string, bool) {
			tn, ok := obj.(*types.TypeName)
			if !ok || tn.Pkg() == nil || !strings.HasPrefix(tn.Pkg().Path(), modPath) || tn.IsAlias() {
				return "", false
			}
			st, isStruct := tn.Type().Underlying().(*types.Struct)
			if !isStruct || st.NumFields() == 0 {
				return "", false // not a struct, or one that can hold no state
			}
			if tn.Parent() != tn.Pkg().Scope() {
				return "", false // a type local to a function is part of that function's own text
			}
			if _, known := fieldTable[tn.Pkg().Path()+"."+tn.Name()]; known {
				return "", false
			}
			if _, renamed := typeAlias[tn.Pkg().Path()+"."+tn.Name()]; renamed {
				return "", false
			}
			return tn.Name(), true
		}
		// iterator functions of the module: functions whose result is a func taking a yield func
		isIter := func(t types.Type) bool {
			sig, ok := t.Underlying().(*types.Signature)
			if !ok || sig.Params().Len() != 1 || sig.Results().Len() != 0 {
				return false
			}
			y, ok := sig.Params().At(0).Type().Underlying().(*types.Signature)
			return ok && y.Results().Len() == 1
		}
		for _, f := range pk.Syntax {
			name := p.Fset.Position(f.Pos()).Filename
			rel, err := filepath.Rel(p.Repo, name)
			if err != nil {
				rel = name
			}
			for _, d := range f.Decls {
				fd, ok := d.(*ast.FuncDecl)
				if !ok || fd.Body == nil {
					continue
				}
				why := ""
				// the function is itself a module-defined iterator
				if obj, ok := info.Defs[fd.Name].(*types.Func); ok {
					if sig := obj.Type().(*types.Signature); sig.Results().Len() == 1 && isIter(sig.Results().At(0).Type()) {
						why = "it is an iterator (range-over-func) defined in the module"
					}
					if sig := obj.Type().(*types.Signature); sig.Recv() != nil {
						t := sig.Recv().Type()
						if pt, ok := t.(*types.Pointer); ok {
							t = pt.Elem()
						}
						if nt, ok := t.(*types.Named); ok {
							if n, isNew := newType(nt.Obj()); isNew {
								why = "it is a method of the new struct type " + n
							}
						}
					}
				}
				ast.Inspect(fd, func(n ast.Node) bool {
					if why != "" {
						return false
					}
					switch x := n.(type) {
					case *ast.RangeStmt:
						if t := info.TypeOf(x.X); t != nil && isIter(t) {
							if call, ok := x.X.(*ast.CallExpr); ok {
								var callee types.Object
								switch fun := call.Fun.(type) {
								case *ast.Ident:
									callee = info.Uses[fun]
								case *ast.SelectorExpr:
									callee = info.Uses[fun.Sel]
								}
								if callee != nil && callee.Pkg() != nil && strings.HasPrefix(callee.Pkg().Path(), modPath) {
									why = "it ranges over the module-defined iterator " + callee.Name()
								}
							}
						}
					case *ast.Ident:
						if obj := info.Uses[x]; obj != nil {
							if n, isNew := newType(obj); isNew {
								why = "it keeps state in the new struct type " + n
							}
						}
					}
					// a directive test written as a search of a table with a predicate closure:
					// slices.ContainsFunc(elseDirectives, func(d string) bool { return helpers.HasAttr(node, d) })
					if call, ok := n.(*ast.CallExpr); ok && why == "" {
						if sel, ok := call.Fun.(*ast.SelectorExpr); ok && len(call.Args) == 2 {
							if pk, ok := sel.X.(*ast.Ident); ok && pk.Name == "slices" && (sel.Sel.Name == "ContainsFunc" || sel.Sel.Name == "IndexFunc") {
								if lit, ok := call.Args[1].(*ast.FuncLit); ok && lit.Type.Params != nil && len(lit.Type.Params.List) == 1 && len(lit.Type.Params.List[0].Names) == 1 {
									prm := info.Defs[lit.Type.Params.List[0].Names[0]]
									ast.Inspect(lit.Body, func(m ast.Node) bool {
										inner, ok := m.(*ast.CallExpr)
										if !ok {
											return true
										}
										isel, ok := inner.Fun.(*ast.SelectorExpr)
										if !ok || (isel.Sel.Name != "HasAttr" && isel.Sel.Name != "GetAttr") || len(inner.Args) != 2 {
											return true
										}
										if id, ok := inner.Args[1].(*ast.Ident); ok && prm != nil && info.Uses[id] == prm {
											why = "it tests an element's directives by searching a table of names with a predicate closure"
										}
										return true
									})
								}
							}
						}
					}
					if why == "" {
						if e, ok := n.(ast.Expr); ok {
							if t := info.TypeOf(e); t != nil {
								if pt, ok := t.(*types.Pointer); ok {
									t = pt.Elem()
								}
								if nt, ok := t.(*types.Named); ok {
									if nm, isNew := newType(nt.Obj()); isNew {
										why = "it works on a value of the new struct type " + nm
									}
								}
								// a table of function values that is iterated or indexed and called
								switch u := t.Underlying().(type) {
								case *types.Slice:
									if _, isFn := u.Elem().Underlying().(*types.Signature); isFn {
										if _, isLit := e.(*ast.CompositeLit); isLit {
											why = "it dispatches through a table of function values"
										}
									}
								case *types.Map:
									if _, isFn := u.Elem().Underlying().(*types.Signature); isFn {
										if _, isLit := e.(*ast.CompositeLit); isLit {
											why = "it dispatches through a table of function values"
										}
									}
								}
							}
						}
					}
					return true
				})
				if why != "" {
					out = append(out, opaqueRange{file: filepath.ToSlash(rel), from: p.Fset.Position(fd.Pos()).Line, to: p.Fset.Position(fd.End()).Line, fn: fd.Name.Name, why: why})
				}
			}
		}
	}
	// roles whose interface changed (same name, different signature): the function and everyone who calls it
	changed := map[types.Object]string{}
	for name, want := range roleTable {
		fn := p.byName[name]
		if fn == nil || fn.Object() == nil {
			continue
		}
		recv, sig := sigString(fn)
		if recv == want.Recv && (sig == want.Sig || sigShape(sig) == sigShape(want.Sig)) {
			continue
		}
		// what the callers consume is the results: a parameter that was added or dropped (the usual way a
		// change threads one more value in) leaves the shape of every caller as it was
		res := func(sg string) string {
			if i := strings.LastIndex(sg, ")("); i >= 0 {
				return sg[i+1:]
			}
			if i := strings.LastIndex(sg, ") "); i >= 0 {
				return sg[i+1:]
			}
			return ""
		}
		noErr := func(r string) string {
			r = strings.TrimSuffix(strings.TrimPrefix(r, "("), ")")
			var keep []string
			for _, t := range strings.Split(r, ",") {
				if t != "error" && t != "" {
					keep = append(keep, t)
				}
			}
			return strings.Join(keep, ",")
		}
		if recv == want.Recv && noErr(sigShape(res(sig))) == noErr(sigShape(res(want.Sig))) {
			continue // the same values come back (an error result more or less is not a different interface)
		}
		changed[fn.Object()] = name
	}
	if len(changed) > 0 {
		for _, pk := range p.Pkgs {
			info := pk.TypesInfo
			if info == nil {
				continue
			}
			for _, f := range pk.Syntax {
				name := p.Fset.Position(f.Pos()).Filename
				rel, err := filepath.Rel(p.Repo, name)
				if err != nil {
					rel = name
				}
				for _, d := range f.Decls {
					fd, ok := d.(*ast.FuncDecl)
					if !ok || fd.Body == nil {
						continue
					}
					why := ""
					if role, ok := changed[info.Defs[fd.Name]]; ok {
						why = "the interface (parameters / results) of " + role + " changed"
					}
					ast.Inspect(fd.Body, func(n ast.Node) bool {
						if id, ok := n.(*ast.Ident); ok && why == "" {
							if role, ok := changed[info.Uses[id]]; ok {
								why = "it uses " + role + ", whose interface (parameters / results) changed"
							}
						}
						return true
					})
					if why != "" {
						out = append(out, opaqueRange{file: filepath.ToSlash(rel), from: p.Fset.Position(fd.Pos()).Line, to: p.Fset.Position(fd.End()).Line, fn: fd.Name.Name, why: why})
					}
				}
			}
		}
	}
	return out
}

// opaqueAt reports whether a position "file:line" lies in a function with a shape the normaliser cannot
// look through.
func (p *Prog) opaqueAt(pos string) (string, bool) {
	i := strings.LastIndex(pos, ":")
	if i < 0 {
		return "", false
	}
	line, err := strconv.Atoi(pos[i+1:])
	if err != nil {
		return "", false
	}
	file := pos[:i]
	for _, r := range p.Opaque {
		if r.file == file && r.from <= line && line <= r.to {
			return fmt.Sprintf("%s (%s:%d): %s", r.fn, r.file, r.from, r.why), true
		}
	}
	return "", false
}
