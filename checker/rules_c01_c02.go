package main

import (
	"fmt"
	"go/token"
	"go/types"
	"sort"
	"strings"

	"golang.org/x/tools/go/ssa"
)

const (
	carrierHTML = "data-v-html-content"
	carrierText = "data-v-text-content"
)

var escapeSet = "&<>\"'"

// coversEscapeSet: the constant lists every byte html.EscapeString rewrites.
func coversEscapeSet(s string) bool {
	for _, ch := range escapeSet {
		if !strings.ContainsRune(s, ch) {
			return false
		}
	}
	return true
}

// identityGuardOn: cond (with the polarity `want` required to reach the raw emission) implies
// Escape(x) == x, i.e. x contains none of & < > " '. Recognised forms:
//
//	strings.ContainsAny(x, set)  == false
//	strings.IndexAny(x, set) < 0 / == -1  (true)   or   >= 0 / != -1 (false)
//	pred(x) == false  where pred is an identity predicate (see identityPredicate)
func (p *Prog) identityGuardOn(cnd ssa.Value, want bool, x ssa.Value) bool {
	same := func(v ssa.Value) bool { return v == x || sameValue(v, x) || valueIdentity(v) == valueIdentity(x) }
	if cl, ok := cnd.(*ssa.Call); ok {
		n := calleeName(&cl.Call)
		if n == "strings.ContainsAny" && !want && same(cl.Call.Args[0]) {
			if set, ok := constString(cl.Call.Args[1]); ok && coversEscapeSet(set) {
				return true
			}
		}
		if callee := cl.Call.StaticCallee(); callee != nil && inModule(callee) && !want && len(cl.Call.Args) == 1 && same(cl.Call.Args[0]) {
			return p.identityPredicate(callee)
		}
	}
	if b, ok := cnd.(*ssa.BinOp); ok {
		if cl := isCallNamed(b.X, "strings.IndexAny"); cl != nil && same(cl.Call.Args[0]) {
			set, ok := constString(cl.Call.Args[1])
			k, ok2 := constInt(b.Y)
			if ok && ok2 && coversEscapeSet(set) {
				switch {
				case b.Op == token.LSS && k == 0 && want, b.Op == token.EQL && k == -1 && want,
					b.Op == token.GEQ && k == 0 && !want, b.Op == token.NEQ && k == -1 && !want, b.Op == token.GTR && k == -1 && !want:
					return true
				}
			}
		}
	}
	return false
}

// identityPredicate: a func(string) bool that is false only for strings without any of & < > " ':
// every return is ContainsAny(param, ⊇set) / a byte loop returning true on at least those bytes and
// false only after the loop.
func (p *Prog) identityPredicate(fn *ssa.Function) bool {
	if len(fn.Params) != 1 || !isString(fn.Params[0].Type()) {
		return false
	}
	prm := fn.Params[0]
	rets := returnsOf(fn)
	if len(rets) == 0 {
		return false
	}
	bytesTrue := map[int64]bool{}
	loopFalse := false
	for _, r := range rets {
		v := r.Results[0]
		if cl := isCallNamed(v, "strings.ContainsAny"); cl != nil {
			if set, ok := constString(cl.Call.Args[1]); ok && coversEscapeSet(set) && cl.Call.Args[0] == prm {
				continue
			}
			return false
		}
		// `strings.IndexAny(x, set) >= 0` / `!= -1` / `> -1` is the same predicate
		if b, ok := v.(*ssa.BinOp); ok {
			if cl := isCallNamed(b.X, "strings.IndexAny"); cl != nil && cl.Call.Args[0] == prm {
				set, ok1 := constString(cl.Call.Args[1])
				k, ok2 := constInt(b.Y)
				if ok1 && ok2 && coversEscapeSet(set) && ((b.Op == token.GEQ && k == 0) || (b.Op == token.NEQ && k == -1) || (b.Op == token.GTR && k == -1)) {
					continue
				}
			}
			return false
		}
		if cst, ok := v.(*ssa.Const); ok && cst.Value != nil {
			if cst.Value.String() == "true" {
				// must be guarded by a byte comparison of param[i]
				for _, g := range guardsOf(r.Block()) {
					if b := eqOnEdge(g.If.Cond, g.Branch); b != nil {
						if k, ok := constInt(b.Y); ok {
							bytesTrue[k] = true
						}
					}
				}
				// switch with several cases jumping to one block: collect from predecessors
				for _, pr := range r.Block().Preds {
					if ifi, ok := pr.Instrs[len(pr.Instrs)-1].(*ssa.If); ok {
						if b, ok := ifi.Cond.(*ssa.BinOp); ok && b.Op == token.EQL && pr.Succs[0] == r.Block() {
							if k, ok := constInt(b.Y); ok {
								bytesTrue[k] = true
							}
						}
					}
				}
				continue
			}
			// `return false`: only acceptable at the end of the scanning loop (not an early exit on content)
			early := false
			for _, g := range guardsOf(r.Block()) {
				walkCond(g.If.Cond, func(x ssa.Value) {
					if cl, ok := x.(*ssa.Call); ok && strings.HasPrefix(calleeName(&cl.Call), "strings.") {
						early = true // a content test leading to `false`: sniffing
					}
				})
			}
			if early {
				return false
			}
			loopFalse = true
			continue
		}
		return false
	}
	if loopFalse || len(bytesTrue) > 0 {
		for _, ch := range escapeSet {
			if !bytesTrue[int64(ch)] {
				return false
			}
		}
	}
	return true
}

// enteringConds lists, for a block reached through a short-circuit condition, the (condition,
// polarity) of every conditional edge entering it (following unconditional jumps backwards).
type edgeCond struct {
	cond ssa.Value
	want bool
}

func enteringConds(b *ssa.BasicBlock) []edgeCond {
	var out []edgeCond
	seen := map[*ssa.BasicBlock]bool{}
	var walk func(b *ssa.BasicBlock, d int)
	walk = func(b *ssa.BasicBlock, d int) {
		if seen[b] || d > 5 {
			return
		}
		seen[b] = true
		for _, pr := range b.Preds {
			ifi, ok := pr.Instrs[len(pr.Instrs)-1].(*ssa.If)
			if !ok {
				// only trivial forwarding blocks (a lone jump) are looked through; never a loop latch or a merge with work in it
				if len(pr.Instrs) == 1 && len(pr.Preds) == 1 {
					walk(pr, d+1)
				} else {
					out = append(out, edgeCond{nil, true})
				}
				continue
			}
			want := pr.Succs[0] == b
			cnd, flip := stripNot(ifi.Cond)
			if flip {
				want = !want
			}
			out = append(out, edgeCond{cnd, want})
		}
	}
	walk(b, 0)
	return out
}

// eqConstCond: the condition with this polarity means `x == "s"` (x == s taken, or x != s not taken).
func eqConstCond(cond ssa.Value, want bool) (x ssa.Value, s string, ok bool) {
	bo, isB := cond.(*ssa.BinOp)
	if !isB {
		return nil, "", false
	}
	if !((bo.Op == token.EQL && want) || (bo.Op == token.NEQ && !want)) {
		return nil, "", false
	}
	if k, ok := constString(bo.Y); ok {
		return bo.X, k, true
	}
	if k, ok := constString(bo.X); ok {
		return bo.Y, k, true
	}
	return nil, "", false
}

// rawTextCond: the condition (with polarity) says a tag name is "script" or "style" — directly or
// through a module predicate whose constants are within {script, style}. why names what else it accepts.
//
// In the engine's serialiser the set is {script, style}: these two are written raw although they may hold
// data, by design; every other element is escaped. The formatter holds no data: there the set is what the
// HTML parser itself reads as raw text (script, style, xmp, iframe, noembed, noframes) — content the parser
// did not decode must not be escaped (C19.R14).
func (p *Prog) rawTextCond(cond ssa.Value, want bool) (ok bool, why string) {
	if cond == nil {
		return false, ""
	}
	raw := func(s string) bool { return s == "script" || s == "style" }
	if in, isInstr := cond.(ssa.Instruction); isInstr && in.Parent() != nil {
		if pk := funcPkg(in.Parent()); pk != nil && pk.Path() == formatterPkg {
			raw = func(s string) bool {
				switch s {
				case "script", "style", "xmp", "iframe", "noembed", "noframes":
					return true
				}
				return false
			}
		}
	}
	if _, s, isEq := eqConstCond(cond, want); isEq {
		if raw(s) {
			return true, ""
		}
		return false, "tag \"" + s + "\""
	}
	if _, set, member, isM := inSetOnEdge(cond, want); isM && member && len(set) > 0 {
		for _, s := range set {
			if !raw(s) {
				return false, "tag \"" + s + "\""
			}
		}
		return true, ""
	}
	if cl, isCall := cond.(*ssa.Call); isCall && want {
		if callee := cl.Call.StaticCallee(); callee != nil && inModule(callee) && len(callee.Params) == 1 {
			cs := constsComparedWithParam(callee, 0)
			within := len(cs) > 0
			for _, s := range cs {
				if !raw(s) {
					within = false
					why = "helper " + shortName(callee) + " also accepts \"" + s + "\""
				}
			}
			return within, why
		}
	}
	return false, ""
}

// enteredOnlyUnder: some dominator of b (or b itself) is entered exclusively through conditional edges
// that accept() holds for — a single guard, or the edges of a short-circuit `a || b`.
func enteredOnlyUnder(b *ssa.BasicBlock, accept func(cond ssa.Value, want bool) bool) bool {
	for x := b; x != nil; x = x.Idom() {
		ecs := enteringConds(x)
		if len(ecs) == 0 {
			continue
		}
		all := true
		for _, ec := range ecs {
			if ec.cond == nil || !accept(ec.cond, ec.want) {
				all = false
			}
		}
		if all {
			return true
		}
	}
	return false
}

// rawTextBranch: the block is entered only when a tag name equals "script" or "style".
func (p *Prog) rawTextBranch(b *ssa.BasicBlock) (bool, string) {
	why := ""
	ok := enteredOnlyUnder(b, func(cond ssa.Value, want bool) bool {
		r, w := p.rawTextCond(cond, want)
		if w != "" && why == "" {
			why = w
		}
		return r
	})
	if ok {
		return true, ""
	}
	return false, why
}

// isEscapeCall: html.EscapeString of the standard library or of x/net/html (same function).
func isEscapeCall(cc *ssa.CallCommon) bool {
	n := calleeName(cc)
	return n == "html.EscapeString" || n == "golang.org/x/net/html.EscapeString"
}

func escapeCallOf(v ssa.Value) *ssa.Call {
	if cl, ok := v.(*ssa.Call); ok && isEscapeCall(&cl.Call) {
		return cl
	}
	return nil
}

func init() {
	register(&Rule{
		ID: "C01.R2", Props: []string{"C01", "C02"}, Min: 6,
		Doc: "escaping at serialisation, without content sniffing: every text (Node.Data of a text node) and attribute value (Attribute.Val) the serialiser emits passes html.EscapeString, except (a) under an identity guard — a condition that is false only when escaping would not change the string (ContainsAny/IndexAny over a set ⊇ & < > \" ', or a predicate made of exactly that), (b) inside the script/style branch, (c) the two internal v-html/v-text carrier attributes; escaper helpers return either Escape(x) or x under an identity guard",
		Run: func(p *Prog, c *Ctx) {
			// the serialiser: everything below the node writer (the small (*Vue).render loop over the roots may have been inlined)
			roots := []*ssa.Function{p.MustFn("vuego.renderNodeWithContext"), p.MustFn("(*vuego.htmlRenderer).Render")}
			if r := p.Fn("(*vuego.Vue).render"); r != nil {
				roots = append(roots, r)
			}
			cone := p.Cone(roots...)
			// 1. escaper helpers in the serialiser cone
			escapers := map[*ssa.Function]bool{}
			for _, fn := range sortedFuncs(cone) {
				if len(fn.Params) != 1 || !isString(fn.Params[0].Type()) || fn.Signature.Results().Len() != 1 || !isString(fn.Signature.Results().At(0).Type()) {
					continue
				}
				calls := false
				for _, site := range callsIn(fn) {
					if isEscapeCall(site.Common()) {
						calls = true
					}
				}
				if !calls {
					continue
				}
				prm := fn.Params[0]
				okAll := true
				for i, r := range returnsOf(fn) {
					v := r.Results[0]
					switch {
					case escapeCallOf(v) != nil && escapeCallOf(v).Call.Args[0] == prm:
						c.ok(fmt.Sprintf("%s: return#%d", shortName(fn), i+1), p.instrPos(r), "Escape(x)")
					case v == prm:
						g := guardedBy(r.Block(), func(cnd ssa.Value, want bool) bool { return p.identityGuardOn(cnd, want, prm) })
						if !g {
							okAll = false
						}
						c.check(g, fmt.Sprintf("%s: return#%d", shortName(fn), i+1), p.instrPos(r), "x under an identity guard", "the escaper returns its argument unescaped under a condition that does not guarantee Escape(x) == x (content sniffing / off-by-one): a value shaped to satisfy the condition is emitted raw and can break out of the attribute or text")
					default:
						okAll = false
						c.fail(fmt.Sprintf("%s: return#%d", shortName(fn), i+1), p.instrPos(r), "the escaper returns a value that is neither Escape(x) nor x")
					}
				}
				if okAll {
					escapers[fn] = true
				}
			}
			// 2. every emission of text / attribute values
			t := newTaint(p)
			t.FollowField = func(fv *types.Var) bool { return false }
			t.Sanitizer = func(site ssa.CallInstruction, arg ssa.Value) bool {
				if isEscapeCall(site.Common()) {
					return true
				}
				if callee := site.Common().StaticCallee(); callee != nil && escapers[callee] {
					return true
				}
				return false
			}
			// the serialiser proper: functions of the root package in its cone that hold the writer or build its strings
			ser := map[*ssa.Function]bool{}
			for fn := range cone {
				if pk := funcPkg(fn); pk != nil && pk.Path() == modPath {
					ser[fn] = true
				}
			}
			t.Scope = func(fn *ssa.Function) bool { return ser[fn] }
			d := p.destTaint()
			t.Sink = func(u ssa.Instruction, v ssa.Value) string {
				site, ok := u.(ssa.CallInstruction)
				if !ok || !cone[u.Parent()] {
					return ""
				}
				if p.destArg(site, d) != nil && isWriteLike(calleeName(site.Common()), site.Common()) {
					return "raw write"
				}
				return ""
			}
			// a raw value that reaches a merge (`text := x; if … { text = Escape(x) }`) only along edges taken
			// under an exempting condition is harmless past the merge
			merged := 0
			type phiEdge struct {
				phi *ssa.Phi
				i   int
			}
			mergedSeen := map[phiEdge]bool{}
			t.PhiEdge = func(phi *ssa.Phi, i int, v ssa.Value) bool {
				pr := phi.Block().Preds[i]
				accept := func(cond ssa.Value, want bool) bool {
					if r, _ := p.rawTextCond(cond, want); r {
						return true
					}
					return p.identityGuardOn(cond, want, v)
				}
				exempt := enteredOnlyUnder(pr, accept)
				if ifi, ok := pr.Instrs[len(pr.Instrs)-1].(*ssa.If); ok && !exempt {
					cnd, flip := stripNot(ifi.Cond)
					want := (pr.Succs[0] == phi.Block()) != flip
					if pr.Succs[0] != pr.Succs[1] && accept(cnd, want) {
						exempt = true
					}
				}
				if exempt && mergedSeen[phiEdge{phi, i}] {
					return false
				}
				if exempt {
					mergedSeen[phiEdge{phi, i}] = true
					merged++
					c.ok(fmt.Sprintf("%s: raw value merged under an exempting condition#%d", shortName(phi.Parent()), merged), p.instrPos(phi), "edge taken only in the script/style branch or under an identity guard")
					return false
				}
				return true
			}
			seeds := map[ssa.Value]seedInfo{}
			for _, fn := range sortedFuncs(ser) {
				eachInstr(fn, func(in ssa.Instruction) {
					ld, ok := in.(*ssa.UnOp)
					if !ok || ld.Op != token.MUL {
						return
					}
					fv := fieldVar(ld.X)
					if fv == nil || fv.Pkg() == nil || fv.Pkg().Path() != "golang.org/x/net/html" {
						return
					}
					switch fv.Name() {
					case "Val":
						seeds[ld] = seedInfo{"attribute value", ld}
					case "Data":
						// tag names: Data of an element. Text: guarded by Type == TextNode, or Data of a child tested to be a text node.
						fa := ld.X.(*ssa.FieldAddr)
						isText := false
						for _, ec := range allGuards(ld.Block()) {
							if b := eqOnEdge(ec.cond, ec.want); b != nil {
								if k, ok := constInt(b.Y); ok && k == 1 { // html.TextNode
									if tl, ok := b.X.(*ssa.UnOp); ok {
										if tfa, ok := tl.X.(*ssa.FieldAddr); ok && fieldName(tfa.X.Type(), tfa.Field) == "Type" && sameNodeValue(tfa.X, fa.X) {
											isText = true
										}
									}
								}
							}
						}
						if isText {
							seeds[ld] = seedInfo{"text", ld}
						}
					}
				})
			}
			// (in source order: the order of seeding decides which seed a merged value is attributed to)
			var seedOrder []ssa.Value
			for v := range seeds {
				seedOrder = append(seedOrder, v)
			}
			sort.Slice(seedOrder, func(a, b int) bool {
				ia, ib := seedOrder[a].(ssa.Instruction), seedOrder[b].(ssa.Instruction)
				if ia.Parent() != ib.Parent() {
					return ia.Parent().String() < ib.Parent().String()
				}
				if ia.Block().Index != ib.Block().Index {
					return ia.Block().Index < ib.Block().Index
				}
				return instrIndex(ia) < instrIndex(ib)
			})
			for _, v := range seedOrder {
				si := seeds[v]
				t.Seed(v, si.kind+" loaded at "+p.instrPos(v.(ssa.Instruction)))
			}
			t.Run()
			raw := 0
			for _, h := range t.Hits {
				raw++
				fn := h.At.Parent()
				key := fmt.Sprintf("%s: raw emission#%d", shortName(fn), raw)
				// which seed? re-derive the emitted value's seed by walking back
				site := h.At.(ssa.CallInstruction)
				var x ssa.Value
				kind := ""
				for _, a := range callArgs(site.Common()) {
					for _, o := range p.origins(a, OriginOpts{ThroughCall: func(cl *ssa.Call) []ssa.Value { return nil }}) {
						if si, ok := seeds[o]; ok {
							x, kind = si.x, si.kind
						}
					}
				}
				switch {
				case x == nil:
					// value reached the writer through a local (content := vhtmlContent …): use the flow description
					if strings.Contains(h.Why, "attribute value") {
						kind = "attribute value"
					} else {
						kind = "text"
					}
				}
				// (c) carriers: the loaded Val is under a Key == carrier guard
				exempt := ""
				if kind == "attribute value" {
					carrier := p.carrierGuarded(h, seeds)
					if carrier != "" {
						exempt = "internal carrier " + carrier + " (documented raw content)"
					}
				}
				if exempt == "" {
					if okRaw, _ := p.rawTextBranch(h.At.Block()); okRaw {
						exempt = "script/style branch"
					}
				}
				if exempt == "" {
					// doctype name / identifiers: produced by the parser from the declaration, not a text or attribute sink of the property
					for _, ec := range allGuards(h.At.Block()) {
						if b := eqOnEdge(ec.cond, ec.want); b != nil {
							if k, ok := constInt(b.Y); ok && k == 5 {
								if ld, ok := b.X.(*ssa.UnOp); ok {
									if fa, ok := ld.X.(*ssa.FieldAddr); ok && fieldName(fa.X.Type(), fa.Field) == "Type" {
										exempt = "doctype declaration"
									}
								}
							}
						}
					}
				}
				if exempt == "" && x != nil {
					if guardedBy(h.At.Block(), func(cnd ssa.Value, want bool) bool { return p.identityGuardOn(cnd, want, x) }) {
						exempt = "identity guard: escaping would not change the string"
					}
				}
				if exempt == "" && x != nil {
					// `if !raw && needsEscape(s) { escaped } else { as it is }`: the raw write is entered from two edges —
					// the raw-text element, or the identity guard — and each of them is an exemption
					if enteredOnlyUnder(h.At.Block(), func(cnd ssa.Value, want bool) bool {
						if r, _ := p.rawTextCond(cnd, want); r {
							return true
						}
						return p.identityGuardOn(cnd, want, x)
					}) {
						exempt = "raw-text element, or identity guard: every way in is one of the two"
					}
				}
				if exempt != "" {
					c.ok(key, p.instrPos(h.At), kind+" written raw: "+exempt)
					continue
				}
				_, why := p.rawTextBranch(h.At.Block())
				if why != "" {
					why = " (raw-text branch widened: " + why + ")"
				}
				c.fail(key, p.instrPos(h.At), kind+" is written without html.EscapeString and without an identity guard"+why+": "+shortWhy(h.Why)+" — markup or character references in a value (or in static template text the parser already decoded) arrive as live markup")
			}
			c.ok("seeds", "-", fmt.Sprintf("%d loads of text / attribute values in the serialiser followed; %d reach the writer unescaped, all classified", len(seeds), raw))
		},
	})

	register(&Rule{
		ID: "C01.R3", Props: []string{"C01"}, Min: 3,
		Doc: "the only attribute values the serialiser writes raw are the two internal carriers, and the v-text carrier is escaped when it is stored: every store of an attribute under the v-text carrier key takes its value from html.EscapeString; v-html is the documented exemption",
		Run: func(p *Prog, c *Ctx) {
			// constants compared with attr.Key in the serialiser that lead to a raw write
			ser := p.MustFn("vuego.renderNodeWithContext")
			var rawKeys []string
			// the serialiser and the helpers extracted from it (root-package functions in its cone)
			for _, f := range sortedFuncs(p.Cone(ser)) {
				if pk := funcPkg(f); pk == nil || pk.Path() != modPath || f.Name() == "shouldIgnoreAttr" {
					continue
				}
				eachInstr(f, func(in ssa.Instruction) {
					if b, ok := in.(*ssa.BinOp); ok && b.Op == token.EQL {
						if fl := loadedField(b.X); fl != nil && fieldIs(fl, "Key") {
							if s, ok := constString(b.Y); ok && keyTestTakesValue(b) {
								rawKeys = append(rawKeys, s)
							}
						}
					}
				})
			}
			sort.Strings(rawKeys)
			for _, k := range rawKeys {
				c.check(k == carrierHTML || k == carrierText, "serialiser: raw content key "+k, p.pos(ser.Pos()), "internal carrier", "the serialiser treats attribute \""+k+"\" as raw content: a new unescaped channel into the output")
			}
			n := 0
			for _, fn := range p.Funcs {
				eachInstr(fn, func(in ssa.Instruction) {
					st, ok := in.(*ssa.Store)
					if !ok {
						return
					}
					fv := fieldVar(st.Addr)
					if fv == nil || !fieldIs(fv, "Key") {
						return
					}
					k, ok := constString(st.Val)
					if !ok || k != carrierText {
						return
					}
					// the sibling Val store of the same composite literal
					fa := st.Addr.(*ssa.FieldAddr)
					if refs := fa.X.Referrers(); refs != nil {
						for _, r := range *refs {
							vfa, ok := r.(*ssa.FieldAddr)
							if !ok || fieldName(vfa.X.Type(), vfa.Field) != "Val" {
								continue
							}
							if vrefs := vfa.Referrers(); vrefs != nil {
								for _, vr := range *vrefs {
									vst, ok := vr.(*ssa.Store)
									if !ok {
										continue
									}
									n++
									esc := true
									for _, o := range p.origins(vst.Val, OriginOpts{}) {
										okO := false
										if escapeCallOf(o) != nil {
											okO = true
										}
										// pass-through of an existing carrier attribute (trimmed copy)
										if cl, ok := o.(*ssa.Call); ok && strings.HasPrefix(calleeName(&cl.Call), "strings.Trim") {
											for _, oo := range p.origins(cl.Call.Args[0], OriginOpts{}) {
												if f := loadedField(oo); f != nil && fieldIs(f, "Val") {
													okO = true
												}
											}
										}
										if cst, ok := o.(*ssa.Const); ok && cst.Value != nil {
											okO = true // a constant (the empty string of an unset variable)
										}
										if !okO {
											esc = false // on some path the stored value did not pass the escaper
										}
									}
									c.check(esc, fmt.Sprintf("%s: v-text carrier value#%d", shortName(fn), n), p.instrPos(vst), "html.EscapeString(value)", "on some path a value is stored under the v-text carrier, which the serialiser writes raw, without having passed html.EscapeString (e.g. only the plain-variable branch escapes, the filter/expression branch does not): v-text becomes v-html there")
								}
							}
						}
					}
				})
			}
			// evalVText specifically
			vt := p.MustFn("(*vuego.Vue).evalVText")
			esc := false
			for _, site := range callsIn(vt) {
				if isEscapeCall(site.Common()) {
					esc = true
				}
			}
			c.check(esc, "evalVText: escapes", p.pos(vt.Pos()), "calls html.EscapeString", "evalVText no longer escapes the value")
		},
	})

	register(&Rule{
		ID: "C01.R1", Props: []string{"C01", "C20"}, Min: 10,
		Doc: "no re-evaluation (typestate raw → evaluated): a node list returned by an evaluator already contains data in its text and attributes; it (or an element of it) is never passed to an evaluator, a directive handler or the interpolator again; and the attribute handler, which runs after v-html/v-text on the same node, passes the two carrier attributes through without interpolating them",
		Run: func(p *Prog, c *Ctx) {
			cone := p.evaluatorCone()
			isEvalFn := func(fn *ssa.Function) bool {
				if !cone[fn] || fn.Signature.Results().Len() == 0 {
					return false
				}
				return isNodeSlice(fn.Signature.Results().At(0).Type()) && strings.HasPrefix(typeShort(recvType(fn)), "*vuego.Vue")
			}
			t := newTaint(p)
			t.FollowField = func(fv *types.Var) bool { return false }
			handlers := map[string]bool{"(*vuego.Vue).evalVHtml": true, "(*vuego.Vue).evalVText": true, "(*vuego.Vue).evalVShow": true, "(*vuego.Vue).evalAttributes": true,
				"(*vuego.Vue).evaluate": true, "(*vuego.Vue).evaluateChildren": true, "(*vuego.Vue).evalTemplate": true, "(*vuego.Vue).evaluateNodeAsElement": true,
				"(*vuego.Vue).evalVFor": true, "(*vuego.Vue).evalFor": true, "(*vuego.Vue).evalElseIfChain": true, "(*vuego.Vue).evalSlot": true, "(*vuego.Vue).evalInclude": true, "(*vuego.Vue).evaluateSlotNodes": true}
			t.StopCall = func(site ssa.CallInstruction, arg ssa.Value) bool {
				n := calleeName(site.Common())
				// post-processing and serialisation legitimately receive evaluated nodes
				// (append is followed: a list that has evaluated nodes appended to it is evaluated output too)
				return n == "(*vuego.Vue).postProcessNodes" || n == "(*vuego.Vue).render" || (strings.HasPrefix(n, "builtin.") && n != "builtin.append")
			}
			t.Sink = func(u ssa.Instruction, v ssa.Value) string {
				site, ok := u.(ssa.CallInstruction)
				if !ok {
					return ""
				}
				n := calleeName(site.Common())
				if !handlers[n] {
					return ""
				}
				for i, a := range site.Common().Args {
					if a == v && i > 0 && hasNodeType(a.Type(), 0) {
						return "evaluated nodes passed to " + n
					}
				}
				return ""
			}
			seeds := 0
			for _, fn := range p.Funcs {
				for _, site := range callsIn(fn) {
					cv, ok := site.(*ssa.Call)
					if !ok {
						continue
					}
					for _, callee := range p.Callees(site) {
						if !isEvalFn(callee) {
							continue
						}
						// evalTemplate hands back its input untouched when the first node is not a <template>:
						// its result is only "evaluated" for template roots; callers branch on that (see below)
						var res ssa.Value
						if callee.Signature.Results().Len() == 1 {
							res = cv
						} else if refs := cv.Referrers(); refs != nil {
							for _, r := range *refs {
								if ex, ok := r.(*ssa.Extract); ok && ex.Index == 0 {
									res = ex
								}
							}
						}
						if res != nil {
							seeds++
							t.Seed(res, "result of "+shortName(callee)+" at "+p.instrPos(site))
							c.ok(fmt.Sprintf("%s: result of %s#%d", shortName(fn), strings.TrimPrefix(shortName(callee), "(*vuego.Vue)."), seeds), p.instrPos(site), "followed: never re-enters evaluation")
						}
					}
				}
			}
			t.Run()
			for _, h := range t.Hits {
				c.fail(shortName(h.At.Parent())+": "+h.What, p.instrPos(h.At), h.What+": "+shortWhy(h.Why)+" — text and attribute values that came from data are interpreted as template code on the second pass ({{ }} inside a value is evaluated)")
			}
			// carriers are skipped by the attribute handler
			ea := p.MustFn("(*vuego.Vue).evalAttributes")
			n := 0
			for _, site := range callsIn(ea) {
				nm := calleeName(site.Common())
				if nm != "(*vuego.Vue).interpolate" && nm != "(*vuego.Vue).evalBoundAttribute" {
					continue
				}
				n++
				skipped := map[string]bool{}
				for _, g := range guardsOf(site.Block()) {
					// the edge implies key ∉ set: `key == K` not taken, `key != K` taken, `slices.Contains(carriers, key)` false …
					if _, set, member, ok := inSetOnEdge(g.If.Cond, g.Branch); ok && !member {
						for _, s := range set {
							skipped[s] = true
						}
					}
				}
				c.check(skipped[carrierHTML] && skipped[carrierText], fmt.Sprintf("evalAttributes: %s#%d skips the carriers", strings.TrimPrefix(nm, "(*vuego.Vue)."), n), p.instrPos(site), "not reached for data-v-html-content / data-v-text-content", "the attribute handler interpolates the internal v-html/v-text carrier, which holds evaluated data: v-text=\"x\" with x = \"{{ secret }}\" prints the secret")
			}
		},
	})

	register(&Rule{
		ID: "C01.R4", Props: []string{"C01"}, Min: 8,
		Doc: "data never reaches a code position by value flow: no value obtained from the scope or from expression/function evaluation (Stack.Resolve/Lookup, ExprEvaluator.Eval, evalPipe, callFunc, ForEach items), nor a string derived from one, is passed as the template/expression argument of interpolate, interpolateToWriter, ExprEvaluator.Eval, parsePipeExpr or a condition evaluator (flows through html.Node fields are C01.R1's business)",
		Run: func(p *Prog, c *Ctx) {
			t := newTaint(p)
			t.FollowField = func(fv *types.Var) bool {
				// node fields are covered by the typestate rule; scope storage is data → data
				if fv.Pkg() != nil && fv.Pkg().Path() == "golang.org/x/net/html" {
					return false
				}
				return false
			}
			code := map[string]int{ // callee → index of the code argument
				"(*vuego.Vue).interpolate": 2, "(*vuego.Vue).interpolateToWriter": 3, "(*vuego.ExprEvaluator).Eval": 1,
				"vuego.parsePipeExpr": 0, "(*vuego.Vue).evalCondition": 2, "(*vuego.Vue).evalConditionExpr": 2,
				"(*vuego.ExprEvaluator).getProgram": 1, "vuego.parseFor": 0,
			}
			sites := 0
			for _, fn := range p.Funcs {
				for _, site := range callsIn(fn) {
					if idx, ok := code[calleeName(site.Common())]; ok && idx < len(site.Common().Args) {
						sites++
						c.ok(fmt.Sprintf("%s: code position %s#%d", shortName(fn), calleeName(site.Common()), sites), p.instrPos(site), "fed by template text")
					}
				}
			}
			t.StopCall = func(site ssa.CallInstruction, arg ssa.Value) bool {
				n := calleeName(site.Common())
				// data handed back to the scope or to functions stays data
				if strings.HasPrefix(n, "io/fs.") || strings.HasPrefix(n, "os.") || strings.HasPrefix(n, "(*vuego.Loader).") || strings.HasPrefix(n, "path") {
					return true // a data value may name a file; the file's content is template text, not the value
				}
				return strings.HasPrefix(n, "(*vuego.Stack).") || n == "(*vuego.Vue).callFunc" || n == "helpers.IsTruthy"
			}
			t.Sink = func(u ssa.Instruction, v ssa.Value) string {
				site, ok := u.(ssa.CallInstruction)
				if !ok {
					return ""
				}
				if idx, ok := code[calleeName(site.Common())]; ok && idx < len(site.Common().Args) && site.Common().Args[idx] == v {
					return "data value used as template/expression text of " + calleeName(site.Common())
				}
				return ""
			}
			srcs := 0
			for _, fn := range p.Funcs {
				if pk := funcPkg(fn); pk == nil || pk.Path() != modPath {
					continue
				}
				for _, site := range callsIn(fn) {
					cv, ok := site.(*ssa.Call)
					if !ok {
						continue
					}
					switch calleeName(site.Common()) {
					case "(*vuego.Stack).Resolve", "(*vuego.Stack).Lookup", "(*vuego.ExprEvaluator).Eval", "(*vuego.Vue).evalPipe", "(*vuego.Vue).callFunc", "(*vuego.Vue).evalFilter", "(*vuego.Vue).evalSegment", "(*vuego.Vue).resolveArgument":
						if refs := cv.Referrers(); refs != nil {
							for _, r := range *refs {
								if ex, ok := r.(*ssa.Extract); ok && ex.Index == 0 {
									srcs++
									t.Seed(ex, "value of "+calleeName(site.Common())+" at "+p.instrPos(site))
								}
							}
						}
						if site.Common().Signature().Results().Len() == 1 {
							srcs++
							t.Seed(cv, "value of "+calleeName(site.Common())+" at "+p.instrPos(site))
						}
					}
				}
			}
			t.Run()
			c.note("%d data sources, %d code positions", srcs, sites)
			for _, h := range t.Hits {
				c.fail(shortName(h.At.Parent())+": "+h.What, p.instrPos(h.At), h.What+": "+shortWhy(h.Why))
			}
		},
	})

	register(&Rule{
		ID: "C02.R1", Props: []string{"C02"}, Min: 3,
		Doc: "node-type exhaustiveness of the serialiser: every html.NodeType that can reach it — text, element and doctype (comments aside, documents are unwrapped by the parser helper) — has a case in its type switch",
		Run: func(p *Prog, c *Ctx) {
			ser := p.MustFn("vuego.renderNodeWithContext")
			handled := map[int64]bool{}
			eachInstr(ser, func(in ssa.Instruction) {
				if b, ok := in.(*ssa.BinOp); ok && b.Op == token.EQL {
					if ld, ok := b.X.(*ssa.UnOp); ok {
						if fa, ok := ld.X.(*ssa.FieldAddr); ok && fieldName(fa.X.Type(), fa.Field) == "Type" && fa.X == ssa.Value(paramOf(ser, "node", 2, 4)) {
							if k, ok := constInt(b.Y); ok {
								handled[k] = true
							}
						}
					}
				}
			})
			for _, nt := range []struct {
				k    int64
				name string
			}{{1, "TextNode"}, {3, "ElementNode"}, {5, "DoctypeNode"}} {
				c.check(handled[nt.k], "serialiser handles "+nt.name, p.pos(ser.Pos()), "case present", "the serialiser has no case for "+nt.name+": such nodes are silently dropped from the output")
			}
			// a doctype carries its legacy identifiers as attributes `public` / `system`; each needs its keyword:
			// PUBLIC "…" ["…"]   |   SYSTEM "…"   (a system identifier without a keyword is a bogus doctype)
			if dt := p.Fn("vuego.renderDoctype"); dt != nil {
				kw := map[string]bool{}
				eachInstr(dt, func(in ssa.Instruction) {
					for _, op := range in.Operands(nil) {
						if op != nil && *op != nil {
							if s, ok := constString(*op); ok {
								if strings.Contains(s, "PUBLIC") {
									kw["PUBLIC"] = true
								}
								if strings.Contains(s, "SYSTEM") {
									kw["SYSTEM"] = true
								}
							}
						}
					}
				})
				reads := map[string]bool{}
				for _, site := range callsIn(dt) {
					if n := calleeName(site.Common()); n == "helpers.GetAttr" || n == "helpers.HasAttr" {
						if k, ok := constString(site.Common().Args[1]); ok {
							reads[k] = true
						}
					}
				}
				eachInstr(dt, func(in ssa.Instruction) {
					if b, ok := in.(*ssa.BinOp); ok && b.Op == token.EQL {
						if s, ok := constString(b.Y); ok {
							reads[s] = true
						}
					}
				})
				c.check(!reads["public"] || kw["PUBLIC"], "doctype: PUBLIC keyword", p.pos(dt.Pos()), "written with the public identifier", "the public identifier is written without the PUBLIC keyword")
				c.check(!reads["system"] || kw["SYSTEM"], "doctype: SYSTEM keyword", p.pos(dt.Pos()), "a system-only doctype gets the SYSTEM keyword", "a doctype with only a system identifier is written without the SYSTEM keyword (<!DOCTYPE html \"about:legacy-compat\">): the parser treats it as bogus, the identifier is lost and the page renders in quirks mode")
			}
		},
	})

	register(&Rule{
		ID: "C02.R2", Props: []string{"C02", "C20"}, Min: 1,
		Doc: "void awareness: the serialiser does not emit an end tag for void elements — every write of `</tag>` is controlled by a void-element test (table containing at least br) — because `</br>` is parsed as a second <br> element",
		Run: func(p *Prog, c *Ctx) {
			ser := p.MustFn("vuego.renderNodeWithContext")
			voidAware := false
			for _, site := range callsIn(ser) {
				n := strings.ToLower(calleeName(site.Common()))
				if strings.Contains(n, "void") {
					voidAware = true
				}
			}
			eachInstr(ser, func(in ssa.Instruction) {
				if b, ok := in.(*ssa.BinOp); ok && b.Op == token.EQL {
					if s, ok := constString(b.Y); ok && s == "br" {
						voidAware = true
					}
				}
			})
			c.check(voidAware, "renderNodeWithContext: end tags of void elements", p.pos(ser.Pos()), "a void-element test controls the end tag", "every element gets an explicit end tag, also void ones: `a<br>b` is rendered as `<br></br>`, which an HTML5 parser reads as two <br> elements, so void elements do not survive a round trip")
		},
	})
}

type seedInfo struct {
	kind string
	x    ssa.Value
}

// allGuards: edge guards of the block (dominance-based) as (cond, polarity) pairs.
func allGuards(b *ssa.BasicBlock) []edgeCond {
	var out []edgeCond
	for _, g := range guardsOf(b) {
		cnd, flip := stripNot(g.If.Cond)
		out = append(out, edgeCond{cnd, g.Branch != flip})
	}
	return out
}

// carrierPredicate: the function answers true only for an attribute whose key is one of the two carrier names.
func carrierPredicate(pred *ssa.Function) bool {
	names, other := 0, false
	eachInstr(pred, func(in ssa.Instruction) {
		switch x := in.(type) {
		case *ssa.BinOp:
			if x.Op == token.EQL {
				if f := loadedField(x.X); f != nil && fieldIs(f, "Key") {
					if s, ok := constString(x.Y); ok && (s == carrierHTML || s == carrierText) {
						names++
						return
					}
				}
				if f, ok := x.X.(*ssa.Field); ok && fieldNameStruct(f.X.Type(), f.Field) == "Key" {
					if s, ok := constString(x.Y); ok && (s == carrierHTML || s == carrierText) {
						names++
						return
					}
				}
			}
			other = true
		case ssa.CallInstruction:
			other = true
		case *ssa.Return:
			for _, r := range x.Results {
				if k, ok := r.(*ssa.Const); ok && k.Value != nil && k.Value.String() == "true" {
					other = true
				}
			}
		}
	})
	return names > 0 && !other
}

// foundByCarrierSearch: addr is a field address inside S[i] where i is the result of slices.IndexFunc(S, pred)
// and pred answers true only for keys equal to one of the two carrier names (its every comparison of a Key with
// a constant names a carrier, and it returns nothing but those comparisons).
func (p *Prog) foundByCarrierSearch(addr ssa.Value) string {
	fa, ok := addr.(*ssa.FieldAddr)
	if !ok {
		return ""
	}
	var idx ssa.Value
	for _, o := range append(p.origins(fa.X, OriginOpts{}), fa.X) {
		switch x := o.(type) {
		case *ssa.IndexAddr:
			idx = x.Index
		case *ssa.UnOp:
			if ia, ok := x.X.(*ssa.IndexAddr); ok {
				idx = ia.Index
			}
		case *ssa.Alloc:
			// attr := S[i]: a local copy of the element
			for _, st := range storesToCell(x) {
				if ld, ok := st.Val.(*ssa.UnOp); ok {
					if ia, ok := ld.X.(*ssa.IndexAddr); ok {
						idx = ia.Index
					}
				}
			}
		}
	}
	if idx == nil {
		return ""
	}
	for _, o := range append(p.origins(idx, OriginOpts{}), idx) {
		cl, ok := o.(*ssa.Call)
		if !ok || !strings.HasPrefix(calleeName(&cl.Call), "slices.IndexFunc") || len(cl.Call.Args) < 2 {
			continue
		}
		pred := funcValue(cl.Call.Args[1])
		if pred == nil {
			continue
		}
		if carrierPredicate(pred) {
			return carrierHTML + " / " + carrierText
		}
	}
	return ""
}

// carrierGuarded: the raw-written attribute value was loaded under a `Key == carrier` comparison.
func (p *Prog) carrierGuarded(h TaintHit, seeds map[ssa.Value]seedInfo) string {
	found := ""
	for v, si := range seeds {
		if si.kind != "attribute value" {
			continue
		}
		in := v.(ssa.Instruction)
		if !strings.Contains(h.Why, p.instrPos(in)) {
			continue
		}
		carrier := ""
		// the element a carrier search found: node.Attr[slices.IndexFunc(node.Attr, isCarrier)] where the
		// predicate compares the key with the carrier names only
		if ld, ok := v.(*ssa.UnOp); ok {
			if c := p.foundByCarrierSearch(ld.X); c != "" {
				found = c
				continue
			}
		}
		if enteredOnlyUnder(in.Block(), func(cond ssa.Value, want bool) bool {
			// found by a search whose predicate names the carriers only (slices.IndexFunc, inlined)
			if cl, isCall := cond.(*ssa.Call); isCall && want {
				if pf := funcValue(cl.Call.Value); pf != nil && inModule(pf) && len(cl.Call.Args) == 1 && isNamed(cl.Call.Args[0].Type(), "golang.org/x/net/html", "Attribute") && carrierPredicate(pf) {
					carrier = carrierHTML + " / " + carrierText
					return true
				}
			}
			x, s, ok := eqConstCond(cond, want)
			if !ok || (s != carrierHTML && s != carrierText) {
				return false
			}
			if f := loadedField(x); f == nil || !fieldIs(f, "Key") {
				return false
			}
			carrier = s
			return true
		}) {
			found = carrier
		}
	}
	return found
}

// keyTestTakesValue: the branch taken when the key comparison holds does something with the attribute —
// it loads a Val field or calls something — before the enclosing loop moves on to the next attribute.  A
// test whose true branch only skips the attribute (continue / return true of an inlined predicate) selects
// nothing to be written.
func keyTestTakesValue(cmp *ssa.BinOp) bool {
	refs := cmp.Referrers()
	if refs == nil {
		return true
	}
	decided := false
	for _, r := range *refs {
		ifi, ok := r.(*ssa.If)
		if !ok {
			return true // the result is stored or combined: not a plain skip test
		}
		decided = true
		blk := ifi.Block()
		hdr := loopHeaderOf(blk)
		seen := map[*ssa.BasicBlock]bool{}
		var work []*ssa.BasicBlock
		work = append(work, blk.Succs[0])
		for len(work) > 0 {
			b := work[len(work)-1]
			work = work[:len(work)-1]
			if seen[b] || b == hdr || b == blk {
				continue
			}
			seen[b] = true
			for _, in := range b.Instrs {
				switch x := in.(type) {
				case *ssa.FieldAddr:
					if fieldName(x.X.Type(), x.Field) == "Val" {
						return true
					}
				case *ssa.Field:
					if fieldName(x.X.Type(), x.Field) == "Val" {
						return true
					}
				case ssa.CallInstruction:
					return true
				case *ssa.Store, *ssa.MapUpdate, *ssa.Phi:
					return true
				}
			}
			work = append(work, b.Succs...)
		}
	}
	return !decided
}
