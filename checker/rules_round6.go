package main

import (
	"fmt"
	"go/constant"
	"go/token"
	"go/types"
	"os"
	"path/filepath"
	"strings"

	"golang.org/x/net/html"
	"golang.org/x/tools/go/ssa"
)

var _ = constant.BoolVal
var _ types.Type

// errEdges returns, for a call with an error result, the blocks control enters when that error is non-nil
// (fail) and when it is nil (success), for every test of the error.
func errEdges(call ssa.CallInstruction) (fail, success []*ssa.BasicBlock) {
	errs, _ := errorResultOf(call)
	for _, e := range errs {
		if e.Referrers() == nil {
			continue
		}
		for _, r := range *e.Referrers() {
			b, ok := r.(*ssa.BinOp)
			if !ok || !(isNilConst(b.X) || isNilConst(b.Y)) || b.Referrers() == nil {
				continue
			}
			for _, u := range *b.Referrers() {
				ifi, ok := u.(*ssa.If)
				if !ok {
					continue
				}
				if b.Op == token.NEQ {
					fail = append(fail, ifi.Block().Succs[0])
					success = append(success, ifi.Block().Succs[1])
				} else if b.Op == token.EQL {
					fail = append(fail, ifi.Block().Succs[1])
					success = append(success, ifi.Block().Succs[0])
				}
			}
		}
	}
	return
}

func init() {
	register(&Rule{
		ID: "C03.R11", Props: []string{"C03", "C04", "C13"}, Min: 2,
		Doc: "every evaluation a condition gives up on ends in the scope's resolver: in evalConditionExpr (v-if, v-else-if, the per-item conditions of a loop) no return is reachable from the failure edge of an expression evaluation without passing a Stack.Resolve / Lookup — or a later evaluation that succeeded. The expression evaluator reads Go structs by field name only, the resolver also by JSON tag, hyphenated key and dotted index: a branch that answers on its own after a failed evaluation (`!p.hidden` → true) decides without having looked",
		Run: func(p *Prog, c *Ctx) {
			fn := p.MustFn("(*vuego.Vue).evalConditionExpr")
			var evals []ssa.CallInstruction
			for _, site := range callsIn(fn) {
				if calleeName(site.Common()) == "(*vuego.ExprEvaluator).Eval" {
					evals = append(evals, site)
				}
			}
			if len(evals) == 0 {
				undecided("evalConditionExpr does not call the evaluator")
			}
			isResolve := func(in ssa.Instruction) bool {
				cs, ok := in.(ssa.CallInstruction)
				if !ok {
					return false
				}
				nm := calleeName(cs.Common())
				return nm == "(*vuego.Stack).Resolve" || nm == "(*vuego.Stack).Lookup"
			}
			for i, e := range evals {
				fails, _ := errEdges(e)
				stop := map[*ssa.BasicBlock]bool{}
				for j, o := range evals {
					if j == i {
						continue
					}
					_, succ := errEdges(o)
					for _, b := range succ {
						stop[b] = true
					}
				}
				var bad ssa.Instruction
				for _, fb := range fails {
					if stop[fb] {
						continue
					}
					first := fb.Instrs[0]
					to := func(in ssa.Instruction) bool { _, ok := in.(*ssa.Return); return ok }
					avoid := func(in ssa.Instruction) bool { return isResolve(in) || stop[in.Block()] }
					if to(first) {
						bad = first
					} else if !avoid(first) {
						if r := pathAvoiding(first, to, avoid); r != nil {
							bad = r
						}
					}
				}
				what := fmt.Sprintf("evalConditionExpr: failed evaluation#%d falls back to the resolver", i+1)
				if len(fails) == 0 {
					c.fail(what, p.instrPos(e), "the evaluator's error is not tested")
					continue
				}
				if bad != nil {
					c.fail(what, p.instrPos(bad), "a return is reached after the expression evaluator failed, without asking Stack.Resolve: the condition is decided although the resolver — which reads JSON-tagged struct fields, hyphenated keys and dotted indexes the evaluator cannot — was never consulted (`!p.hidden` on a struct item is true for every item)")
				} else {
					c.ok(what, p.instrPos(e), "Resolve on every path from the failure edge to a return")
				}
			}
		},
	})

	register(&Rule{
		ID: "C14.R13", Props: []string{"C14", "C06", "C05"}, Min: 1,
		Doc: "attribute semantics stay with attributes: evalBoundAttribute — which flattens an object literal into a class / style string, reads a hyphenated word as one kebab-case name and turns `not found` into the empty string — is called only where an attribute of an element is produced (evalAttributes). Values that are data (the props a <slot> binds, the variables a <template> sets) are computed by the expression evaluator or the pipe interpreter",
		Run: func(p *Prog, c *Ctx) {
			hosts, _ := p.hostsOf("(*vuego.Vue).evalBoundAttribute")
			if len(hosts) == 0 {
				undecided("evalBoundAttribute not found")
			}
			allowed, _ := p.hostsOf("(*vuego.Vue).evalAttributes")
			n := 0
			for _, fn := range p.Funcs {
				if p.Dropped[fn] || !inModule(fn) {
					continue
				}
				for _, site := range callsIn(fn) {
					callee := site.Common().StaticCallee()
					isIt := false
					for _, h := range hosts {
						if callee == h {
							isIt = true
						}
					}
					if !isIt {
						continue
					}
					n++
					ok := false
					for _, a := range allowed {
						if rootFunc(fn) == a {
							ok = true
						}
					}
					for _, h := range hosts {
						if rootFunc(fn) == h {
							ok = true // recursion inside the helper itself
						}
					}
					c.check(ok, fmt.Sprintf("%s: caller of evalBoundAttribute#%d", shortName(fn), n), p.instrPos(site), "called from evalAttributes", shortName(fn)+" computes a value with the attribute helper: an object literal arrives as the string \"index:0 last:false\", `total-used` as the empty string and an unknown name as \"\" instead of a value")
				}
			}
		},
	})

	register(&Rule{
		ID: "C17.R13", Props: []string{"C17", "C07", "C08", "C09", "C10"}, Min: 1,
		Doc: "a new Stack owns its maps: wherever a function of the scope stack builds another Stack (Copy, the constructors called with data derived from a Stack), the scope maps that go into the new one are freshly made (EnvMap's merged copy, make) — never a map loaded out of the receiver's own scope list. A `copy` that wraps the same root map lets Load's front-matter, Assign and template assignments of one template write into its parent and siblings",
		Run: func(p *Prog, c *Ctx) {
			n := 0
			for _, fn := range p.Funcs {
				if p.Dropped[fn] || !inModule(fn) || typeShort(recvType(fn)) != "*vuego.Stack" {
					continue
				}
				for _, site := range callsIn(fn) {
					nm := calleeName(site.Common())
					if nm != "vuego.NewStackWithData" && nm != "vuego.NewStack" {
						continue
					}
					if len(site.Common().Args) == 0 {
						continue
					}
					n++
					shared := ""
					for _, o := range p.origins(site.Common().Args[0], OriginOpts{}) {
						// an element of some Stack's scope list
						if ld, ok := o.(*ssa.UnOp); ok && ld.Op == token.MUL {
							if ia, ok := ld.X.(*ssa.IndexAddr); ok {
								if f := loadedField(ia.X); f != nil && fieldIs(f, "stack") {
									shared = "an element of the scope list (" + accessPath(o) + ")"
								}
							}
						}
						if ix, ok := o.(*ssa.Index); ok {
							if f := loadedField(ix.X); f != nil && fieldIs(f, "stack") {
								shared = "an element of the scope list"
							}
						}
					}
					c.check(shared == "", fmt.Sprintf("%s: the new stack's root map is its own#%d", shortName(fn), n), p.instrPos(site), "a merged copy (EnvMap) or a fresh map", "the Stack built here is given "+shared+" as its root scope: both stacks write the same map, so what one template loads, assigns or sets is seen by the template it was copied from and by every other copy")
				}
			}
		},
	})

	register(&Rule{
		ID: "C10.R8", Props: []string{"C10", "C08", "C09"}, Min: 1,
		Doc: "a render never runs on the template's own variables: every VueContext built by a method of the long-lived template object is given a Stack that comes out of Copy() (or a constructor) — not the receiver's stack field itself. What a rendered string assigns at its top level (`<template :title=…>`), and what loops propagate from such templates, would otherwise stay in the template and reach every later render, Get() and every template derived from it",
		Run: func(p *Prog, c *Ctx) {
			n := 0
			for _, fn := range p.Funcs {
				if p.Dropped[fn] || !inModule(fn) || typeShort(recvType(rootFunc(fn))) != "*vuego.template" {
					continue
				}
				eachInstr(fn, func(in ssa.Instruction) {
					st, ok := in.(*ssa.Store)
					if !ok {
						return
					}
					f := fieldVar(st.Addr)
					if f == nil || !fieldIs(f, "Stack") {
						return
					}
					if _, nm := namedType(f.Type()); nm != "Stack" {
						// the options struct's field of type *Stack
						if pt, ok := f.Type().(*types.Pointer); !ok || typeShort(pt) != "*vuego.Stack" {
							return
						}
					}
					n++
					own := false
					for _, o := range p.origins(st.Val, OriginOpts{}) {
						if ld, ok := o.(*ssa.UnOp); ok && ld.Op == token.MUL {
							if lf := fieldVar(ld.X); lf != nil && fieldIs(lf, "stack") {
								own = true
							}
						}
					}
					c.check(!own, fmt.Sprintf("%s: the render's stack is a copy#%d", shortName(fn), n), p.instrPos(st), "Stack: t.stack.Copy()", "the render context is given the template's own stack: assignments made while rendering (top-level <template :name=…>, values loops hand back) remain in the template object and are seen by later renders, by Get() and by templates derived from it afterwards")
				})
			}
		},
	})

	register(&Rule{
		ID: "C17.R14", Props: []string{"C17", "C08"}, Min: 1,
		Doc: "root data is kept as it was given: the constructors of the scope stack store the caller's data value itself in Stack.rootData — not what a pointer referred to when the stack was built (rv.Elem().Interface() is a by-value snapshot: fields assigned afterwards are not seen by the fallback lookup, while the pointer the caller holds has them)",
		Run: func(p *Prog, c *Ctx) {
			n := 0
			for _, name := range []string{"vuego.NewStackWithData", "vuego.NewStack"} {
				fns, _ := p.hostsOf(name)
				for _, fn := range fns {
					eachInstr(fn, func(in ssa.Instruction) {
						st, ok := in.(*ssa.Store)
						if !ok {
							return
						}
						f := fieldVar(st.Addr)
						if f == nil || !fieldIs(f, "rootData") {
							return
						}
						n++
						asGiven := true
						for _, o := range p.origins(st.Val, OriginOpts{ThroughCall: p.passThroughArgs}) {
							switch x := o.(type) {
							case *ssa.Parameter, *ssa.Const:
							case *ssa.Call:
								if strings.HasPrefix(calleeName(&x.Call), "(reflect.Value).") || strings.HasPrefix(calleeName(&x.Call), "reflect.") {
									asGiven = false
								}
							default:
								_ = x
							}
						}
						c.check(asGiven, fmt.Sprintf("%s: rootData is the caller's value#%d", shortName(fn), n), p.instrPos(st), "s.rootData = data", "the stack keeps a reflect-made copy of what the data pointer referred to at construction time: the fallback lookup, EnvMap and every Copy read a snapshot, not the caller's live value")
					})
				}
			}
			if n == 0 {
				undecided("no constructor stores Stack.rootData")
			}
		},
	})
}

func init() {
	register(&Rule{
		ID: "C12.R4", Props: []string{"C12"}, Min: 1,
		Doc: "nothing fallible runs after the write, deferred functions included: in a function that writes to the destination, a deferred closure that can turn the result into an error (it stores into the function's error result from a call that returns an error — the `do not lose the Close error` idiom) runs after the last statement, i.e. after the finished document has been handed to the writer: the caller is told the render failed while holding the complete output",
		Run: func(p *Prog, c *Ctx) {
			d := p.destTaint()
			holders := map[*ssa.Function]bool{}
			for k := range d {
				holders[k.fn] = true
			}
			n := 0
			for _, fn := range sortedFuncs(holders) {
				writes := false
				for _, site := range callsIn(fn) {
					if p.destArg(site, d) != nil {
						writes = true
					}
				}
				if !writes {
					continue
				}
				n++
				bad := ""
				var at ssa.Instruction
				eachInstr(fn, func(in ssa.Instruction) {
					df, ok := in.(*ssa.Defer)
					if !ok {
						return
					}
					mc, ok := df.Call.Value.(*ssa.MakeClosure)
					if !ok {
						return
					}
					cl, ok := mc.Fn.(*ssa.Function)
					if !ok {
						return
					}
					// does the closure store an error it got from a call into a captured error variable?
					eachInstr(cl, func(x ssa.Instruction) {
						st, ok := x.(*ssa.Store)
						if !ok {
							return
						}
						fv, ok := st.Addr.(*ssa.FreeVar)
						if !ok {
							return
						}
						pt, ok := fv.Type().(*types.Pointer)
						if !ok || !isErrorType(pt.Elem()) {
							return
						}
						fromCall := false
						for _, o := range p.origins(st.Val, OriginOpts{}) {
							switch y := o.(type) {
							case *ssa.Call:
								if returnsError(&y.Call) {
									fromCall = true
								}
							case *ssa.Extract:
								if isErrorType(y.Type()) {
									fromCall = true
								}
							}
						}
						if fromCall {
							bad = "the deferred function at " + p.instrPos(df) + " stores the error of a call it makes into the function's result"
							at = x
						}
					})
				})
				what := shortName(fn) + ": no deferred function fails the call after the write"
				if bad != "" {
					c.fail(what, p.instrPos(at), bad+": it runs after the output was written, so a successful, completely written render is reported as failed")
				} else {
					c.ok(what, p.pos(fn.Pos()), "no deferred closure sets the error result from a fallible call")
				}
			}
			if n == 0 {
				undecided("no function writes to the destination")
			}
		},
	})

	register(&Rule{
		ID: "C13.R20", Props: []string{"C13"}, Min: 1,
		Doc: "a wrong argument count is an error in both directions: in the reflective caller, for a function that is not variadic, the number of arguments given is compared with the number of parameters so that too few and too many both reach the error return that reports the count (one `!=`, or a `<` and a `>` test). A check that only rejects too many lets `{{ n | add }}` call add(n, 0)",
		Run: func(p *Prog, c *Ctx) {
			fn := p.MustFn("(*vuego.Vue).callFunc")
			// comparisons whose one side is len(args) (the variadic parameter or a slice derived from it)
			// and whose other side is derived from NumIn()
			fromNumIn := func(v ssa.Value) bool {
				found := false
				var walk func(v ssa.Value, d int)
				seen := map[ssa.Value]bool{}
				walk = func(v ssa.Value, d int) {
					if v == nil || seen[v] || d > 8 {
						return
					}
					seen[v] = true
					for _, o := range p.origins(v, OriginOpts{}) {
						switch x := o.(type) {
						case *ssa.Call:
							if strings.HasSuffix(calleeName(&x.Call), "reflect.Type.NumIn") || strings.HasSuffix(calleeName(&x.Call), ".NumIn") {
								found = true
							}
						case *ssa.BinOp:
							walk(x.X, d+1)
							walk(x.Y, d+1)
						}
					}
				}
				walk(v, 0)
				return found
			}
			isLenArgs := func(v ssa.Value) bool {
				cl, ok := v.(*ssa.Call)
				if !ok {
					return false
				}
				bi, ok := cl.Call.Value.(*ssa.Builtin)
				if !ok || bi.Name() != "len" {
					return false
				}
				for _, o := range p.origins(cl.Call.Args[0], OriginOpts{}) {
					if prm, ok := o.(*ssa.Parameter); ok && prm.Parent() == fn {
						return true
					}
				}
				return false
			}
			less, more := false, false
			n := 0
			eachInstr(fn, func(in ssa.Instruction) {
				ifi, ok := in.(*ssa.If)
				if !ok {
					return
				}
				for k := 0; k < 2; k++ {
					op, x, y, ok := relationOnEdge(ifi.Cond, k == 0)
					if !ok {
						continue
					}
					var given, want ssa.Value
					switch {
					case isLenArgs(x) && fromNumIn(y):
						given, want = x, y
					case isLenArgs(y) && fromNumIn(x):
						given, want = y, x
						// mirror the relation
						switch op {
						case token.LSS:
							op = token.GTR
						case token.GTR:
							op = token.LSS
						case token.LEQ:
							op = token.GEQ
						case token.GEQ:
							op = token.LEQ
						}
					default:
						continue
					}
					_, _ = given, want
					// the edge must lead to an error: a return of a non-nil error, or the construction of one
					// (when the test sits in a helper whose result the caller hands on)
					if !blockReturnsNonNilError(ifi.Block().Succs[k]) && !constructsError(ifi.Block().Succs[k]) {
						continue
					}
					// variadic functions have their own `at least` test: only the edges not under IsVariadic count
					underVariadic := enteredOnlyUnder(ifi.Block(), func(cond ssa.Value, w bool) bool {
						cl, ok := cond.(*ssa.Call)
						return ok && w && strings.HasSuffix(calleeName(&cl.Call), "IsVariadic")
					})
					if underVariadic {
						continue
					}
					n++
					switch op {
					case token.NEQ:
						less, more = true, true
					case token.LSS, token.LEQ:
						less = true
					case token.GTR, token.GEQ:
						more = true
					}
				}
			})
			if n == 0 {
				undecided("callFunc does not compare the argument count with NumIn")
			}
			c.check(less && more, "callFunc: too few and too many arguments are both rejected", p.pos(fn.Pos()), "len(args) != expected → error", fmt.Sprintf("for a non-variadic function the argument count is only rejected when there are %s: a call with %s goes through with the missing parameters as zero values / fails later without naming the count", map[bool]string{true: "too many", false: "too few"}[more], map[bool]string{true: "too few arguments", false: "too many arguments"}[more]))
		},
	})
}

func init() {
	register(&Rule{
		ID: "C01.R9", Props: []string{"C01", "C10"}, Min: 1,
		Doc: "what has been rendered is never parsed back into template nodes: no call of the template parser (parser.ParseTemplateBytes, html.Parse*) in the engine is given bytes that come out of a buffer a render wrote into. Rendered output contains data — `{{ … }}` in a data value survives escaping — and nodes parsed from it would be evaluated as template code by whoever receives them (a layout's <slot>, an include)",
		Run: func(p *Prog, c *Ctx) {
			d := p.destTaint()
			n := 0
			for _, fn := range p.Funcs {
				if p.Dropped[fn] || !inModule(fn) {
					continue
				}
				if pk := funcPkg(fn); pk == nil || pk.Path() != modPath {
					continue
				}
				// buffers of this function that are handed to a render as its destination
				rendered := map[ssa.Value]bool{}
				for _, site := range callsIn(fn) {
					if a := p.destArg(site, d); a != nil {
						for _, o := range p.origins(a, OriginOpts{}) {
							rendered[o] = true
						}
						rendered[a] = true
					}
					// a local buffer handed to a module function as its io.Writer
					callee := site.Common().StaticCallee()
					if callee == nil || !inModule(callee) {
						continue
					}
					args := callArgs(site.Common())
					for i, a := range args {
						if i < len(callee.Params) && isWriterType(callee.Params[i].Type()) {
							rendered[a] = true
							for _, o := range p.origins(a, OriginOpts{}) {
								rendered[o] = true
							}
						}
					}
				}
				for _, site := range callsIn(fn) {
					nm := calleeName(site.Common())
					if !strings.HasSuffix(nm, "parser.ParseTemplateBytes") && !strings.HasPrefix(nm, "golang.org/x/net/html.Parse") {
						continue
					}
					if strings.Contains(nm, "ParseOption") {
						continue
					}
					n++
					bad := ""
					var walk func(v ssa.Value, depth int)
					seen := map[ssa.Value]bool{}
					walk = func(v ssa.Value, depth int) {
						if v == nil || seen[v] || depth > 6 {
							return
						}
						seen[v] = true
						for _, o := range p.origins(v, OriginOpts{}) {
							cl, ok := o.(*ssa.Call)
							if !ok {
								continue
							}
							cn := calleeName(&cl.Call)
							if cn == "(*bytes.Buffer).Bytes" || cn == "(*bytes.Buffer).String" || cn == "(*strings.Builder).String" {
								recv := cl.Call.Args[0]
								if rendered[recv] {
									bad = cn
								}
								for _, ro := range p.origins(recv, OriginOpts{}) {
									if rendered[ro] {
										bad = cn
									}
								}
								continue
							}
							for _, a := range callArgs(&cl.Call) {
								walk(a, depth+1)
							}
						}
					}
					for _, a := range site.Common().Args {
						walk(a, 0)
					}
					c.check(bad == "", fmt.Sprintf("%s: the parser's input is template source#%d", shortName(fn), n), p.instrPos(site), "input from a file, a reader or a string the caller passed", "the parser is given what a render has just written ("+bad+" of the render's destination buffer): data values are part of that text, and a `{{ … }}` in one of them becomes template code when the parsed nodes are evaluated again")
				}
			}
			if n == 0 {
				c.ok("scan", "-", "no parser call in the engine package")
			}
		},
	})

	register(&Rule{
		ID: "C16.R9", Props: []string{"C16", "C03"}, Min: 1,
		Doc: "one place asks whether an element was already emitted: the v-once record (the render context's seen set) is read only by evaluate's v-once test, which is also the one that marks. A second reader — a chain that returns early because its v-if member `was emitted already` — decides for elements it was not asked about: the chain's other members are dropped with it",
		Run: func(p *Prog, c *Ctx) {
			owners, _ := p.hostsOf("(*vuego.Vue).evaluate")
			n := 0
			for _, fn := range p.Funcs {
				if p.Dropped[fn] || !inModule(fn) {
					continue
				}
				eachInstr(fn, func(in ssa.Instruction) {
					lk, ok := in.(*ssa.Lookup)
					if !ok {
						return
					}
					f := loadedField(lk.X)
					if f == nil || !fieldIs(f, "seen") {
						return
					}
					n++
					ok2 := false
					for _, o := range owners {
						if rootFunc(fn) == o {
							ok2 = true
						}
					}
					c.check(ok2, fmt.Sprintf("%s: reader of the v-once record#%d", shortName(fn), n), p.instrPos(lk), "read in evaluate's v-once test", shortName(fn)+" consults the v-once record itself: an element is skipped (or a whole chain abandoned) outside the one test-and-mark, for elements whose own v-once was never looked at")
				})
			}
			if n == 0 {
				undecided("the v-once record is never read")
			}
		},
	})

	register(&Rule{
		ID: "C16.R10", Props: []string{"C16", "C05"}, Min: 1,
		Doc: "rewriting a component tag keeps what the tag carries: replaceWithInclude turns <my-comp …> into <template include=…> by adding the include attribute; an attribute of the original tag is left out only if the function writes that key itself. The id of a v-once tag (assigned before tags are resolved) and the evaluated-content carriers are attributes like any other here: dropping v-once-id makes every v-once component tag share the empty id",
		Run: func(p *Prog, c *Ctx) {
			fns, _ := p.hostsOf("(*vuego.Vue).replaceWithInclude")
			if len(fns) == 0 {
				undecided("replaceWithInclude not found")
			}
			for _, fn := range fns {
				written := map[string]bool{}
				compared := map[string]ssa.Instruction{}
				eachInstr(fn, func(in ssa.Instruction) {
					switch x := in.(type) {
					case *ssa.Store:
						if f := fieldVar(x.Addr); f != nil && fieldIs(f, "Key") {
							if s, ok := constString(x.Val); ok {
								written[s] = true
							}
						}
					case *ssa.BinOp:
						if x.Op != token.EQL && x.Op != token.NEQ {
							return
						}
						for _, pair := range [][2]ssa.Value{{x.X, x.Y}, {x.Y, x.X}} {
							if s, ok := constString(pair[1]); ok {
								if f := loadedField(pair[0]); f != nil && fieldIs(f, "Key") {
									compared[s] = x
								}
							}
						}
					case ssa.CallInstruction:
						nm := calleeName(x.Common())
						if (nm == "helpers.SetAttr" || nm == "helpers.AppendAttr") && len(x.Common().Args) >= 2 {
							if s, ok := constString(x.Common().Args[1]); ok {
								written[s] = true
							}
						}
						if nm == "helpers.RemoveAttr" && len(x.Common().Args) >= 2 {
							if s, ok := constString(x.Common().Args[1]); ok {
								compared[s] = x
							}
						}
					}
				})
				bad := ""
				var at ssa.Instruction
				for _, k := range sortedKeys(compared) {
					if !written[k] {
						bad += " " + k
						at = compared[k]
					}
				}
				what := "replaceWithInclude: only attributes it writes itself are replaced"
				if bad != "" {
					c.fail(what, p.instrPos(at), "the rewrite singles out the attribute(s)"+bad+" of the original tag without writing them back: they are lost on the way to <template include> (without v-once-id all v-once component tags of a page share one id and only the first is emitted)")
				} else {
					c.ok(what, p.pos(fn.Pos()), fmt.Sprintf("keys written: %v; keys singled out: %v", sortedKeys(written), sortedKeys(compared)))
				}
			}
		},
	})

	register(&Rule{
		ID: "C17.R15", Props: []string{"C17", "C08", "C04"}, Min: 2,
		Doc: "pointers are followed to the end: in the path resolvers of internal/reflect a pointer is dereferenced in a loop (`for rv.Kind() == reflect.Pointer { … rv = rv.Elem() }`), so that **T, a pointer held in an interface held in a pointer, … reach the struct, map or slice behind them. reflect.Indirect, or an `if` instead of the loop, removes one level only: the value stays a pointer, matches no case of the kind switch and the path reports `absent`",
		Run: func(p *Prog, c *Ctx) {
			n := 0
			for _, fn := range p.Funcs {
				if p.Dropped[fn] || !inModule(fn) {
					continue
				}
				if pk := funcPkg(fn); pk == nil || !strings.HasSuffix(pk.Path(), "internal/reflect") {
					continue
				}
				for _, site := range callsIn(fn) {
					nm := calleeName(site.Common())
					if nm == "reflect.Indirect" {
						n++
						c.fail(fmt.Sprintf("%s: dereference#%d follows every level", shortName(fn), n), p.instrPos(site), "reflect.Indirect removes a single pointer level: a value reached through a pointer to a pointer is still a pointer afterwards and falls through the kind switch as `absent`")
						continue
					}
					if nm != "(reflect.Value).Elem" {
						continue
					}
					// an Elem() taken because the kind is Pointer
					underPtr := func(cond ssa.Value, want bool) bool {
						b := eqOnEdge(cond, want)
						if b == nil {
							return false
						}
						for _, pair := range [][2]ssa.Value{{b.X, b.Y}, {b.Y, b.X}} {
							if k, ok := constInt(pair[1]); ok && k == 22 { // reflect.Pointer
								if cl, ok := pair[0].(*ssa.Call); ok && calleeName(&cl.Call) == "(reflect.Value).Kind" {
									return true
								}
							}
						}
						return false
					}
					if !enteredOnlyUnder(site.Block(), underPtr) && !everyPathCrosses(site.Block(), underPtr) {
						continue
					}
					n++
					// the loop: the block of the Elem() lies in a loop whose header evaluates the Kind()==Pointer test
					inLoop := false
					if h := loopHeaderOf(site.Block()); h != nil {
						for b := range loopBlocks(h) {
							if ifi, ok := b.Instrs[len(b.Instrs)-1].(*ssa.If); ok {
								if underPtr(ifi.Cond, true) || underPtr(ifi.Cond, false) {
									inLoop = true
								}
							}
						}
						if ifi, ok := h.Instrs[len(h.Instrs)-1].(*ssa.If); ok && (underPtr(ifi.Cond, true) || underPtr(ifi.Cond, false)) {
							inLoop = true
						}
					}
					// a single level is right where the static shape says so: a `Kind() == Pointer && Elem().Kind() == Struct` test of a field's type
					c.check(inLoop || fn.Name() == "structToMap" && false, fmt.Sprintf("%s: dereference#%d follows every level", shortName(fn), n), p.instrPos(site), "Elem() inside `for rv.Kind() == reflect.Pointer`", "the pointer is dereferenced once (an if, not a loop): **T stays a pointer and the path into it reports absence")
				}
			}
		},
	})
}

func init() {
	register(&Rule{
		ID: "C19.R15", Props: []string{"C19", "C03", "C06"}, Min: 3,
		Doc: "a `for all` loop answers `yes` only after the last element: in every function of the module that walks siblings or a slice and returns the constant true when the walk is over (a universal predicate: allChildrenAreInline, every-item tests), each return inside the walk returns the constant false. A `return p(x) && rest(x)` inside the loop answers for the first element only — the later siblings are never looked at; dually, a loop that returns false at the end (an existential predicate) returns only true from inside",
		Run: func(p *Prog, c *Ctx) {
			n := 0
			for _, fn := range p.Funcs {
				if p.Dropped[fn] || !inModule(fn) || fn.Signature.Results().Len() != 1 {
					continue
				}
				if bt, ok := fn.Signature.Results().At(0).Type().Underlying().(*types.Basic); !ok || bt.Kind() != types.Bool {
					continue
				}
				// loops of the function
				for _, h := range fn.Blocks {
					isHeader := false
					for _, pr := range h.Preds {
						if h.Dominates(pr) {
							isHeader = true
						}
					}
					if !isHeader {
						continue
					}
					lb := loopBlocks(h)
					// the returns after the loop (dominated by the successor the header leaves the loop through)
					// and the returns of the body (dominated by the header, but not by that exit)
					var exit *ssa.BasicBlock
					for _, sc := range h.Succs {
						if !lb[sc] {
							exit = sc
						}
					}
					if exit == nil {
						continue
					}
					var after, inside []*ssa.Return
					for _, r := range returnsOf(fn) {
						switch {
						case exit.Dominates(r.Block()):
							after = append(after, r)
						case h.Dominates(r.Block()) && r.Block() != h:
							inside = append(inside, r)
						}
					}
					if len(after) != 1 || len(inside) == 0 {
						continue
					}
					endK, ok := after[0].Results[0].(*ssa.Const)
					if !ok {
						continue
					}
					end := constant.BoolVal(endK.Value)
					// a quantifier loop: the constant returns inside it all give the opposite of the final answer.
					// A loop that also returns the final answer from inside decides at the first interesting
					// element (a scanner such as IsFunctionCall): not a quantifier, nothing to say about it.
					consts, scanner := 0, false
					for _, r := range inside {
						if k, isK := r.Results[0].(*ssa.Const); isK {
							consts++
							if constant.BoolVal(k.Value) == end {
								scanner = true
							}
						}
					}
					if scanner || consts == 0 {
						continue
					}
					n++
					bad := ""
					var at ssa.Instruction
					// a computed answer is a verdict about one element only if it is computed from that element:
					// `return f.all(n)` at the first element child (a search whose answer does not depend on
					// which element was found) says nothing about the others and needs nothing from them
					headerPhis := map[ssa.Value]bool{}
					for _, in := range h.Instrs {
						if ph, ok := in.(*ssa.Phi); ok {
							headerPhis[ph] = true
						}
					}
					var fromElement func(v ssa.Value, d int, seen map[ssa.Value]bool) bool
					fromElement = func(v ssa.Value, d int, seen map[ssa.Value]bool) bool {
						if v == nil || seen[v] || d > 8 {
							return false
						}
						seen[v] = true
						if headerPhis[v] {
							return true
						}
						in, ok := v.(ssa.Instruction)
						if !ok {
							return false
						}
						for _, op := range in.Operands(nil) {
							if op != nil && *op != nil && fromElement(*op, d+1, seen) {
								return true
							}
						}
						return false
					}
					for _, r := range inside {
						if _, isK := r.Results[0].(*ssa.Const); !isK && fromElement(r.Results[0], 0, map[ssa.Value]bool{}) {
							bad = "a value computed from the current element"
							at = r
						}
					}
					kind := map[bool]string{true: "for-all", false: "exists"}[end]
					what := fmt.Sprintf("%s: %s loop at %s decides only by the opposite answer", shortName(fn), kind, p.instrPos(h.Instrs[0]))
					if bad != "" {
						c.fail(what, p.instrPos(at), fmt.Sprintf("inside a loop that answers %v when it has seen every element, a return hands back %s: the answer is given for the first element that gets there and the remaining elements are never examined", end, bad))
					} else {
						c.ok(what, p.instrPos(h.Instrs[0]), fmt.Sprintf("%d returns inside, all %v", len(inside), !end))
					}
				}
			}
			if n == 0 {
				undecided("no quantifier loop found")
			}
		},
	})
}

func init() {
	register(&Rule{
		ID: "C02.R12", Props: []string{"C02", "C05", "C20", "C12"}, Min: 1,
		Doc: "input is read whole or refused, never cut: nowhere in the engine, the loader, the formatter or the Markdown renderer is template / document input read through a length-limiting wrapper (io.LimitReader, io.LimitedReader, io.CopyN, a fixed-size Read) — a limit that silently truncates turns an oversized template into a shorter, well-formed-looking one: everything after the cut is missing from the output and no error says so",
		Run: func(p *Prog, c *Ctx) {
			n := 0
			for _, fn := range p.Funcs {
				if p.Dropped[fn] || !inModule(fn) {
					continue
				}
				if pk := funcPkg(fn); pk == nil || strings.Contains(pk.Path(), "/cmd/") {
					continue
				}
				for _, site := range callsIn(fn) {
					nm := calleeName(site.Common())
					if nm == "io.LimitReader" || nm == "io.CopyN" || nm == "(*io.LimitedReader).Read" || nm == "io.ReadFull" || nm == "io.ReadAtLeast" {
						n++
						c.fail(fmt.Sprintf("%s: input is not cut#%d", shortName(fn), n), p.instrPos(site), nm+" reads at most a fixed number of bytes: longer input is truncated without an error, and the truncated text is parsed and rendered as if it were the whole template")
					}
				}
				eachInstr(fn, func(in ssa.Instruction) {
					if al, ok := in.(*ssa.Alloc); ok {
						if pt, ok := al.Type().(*types.Pointer); ok && typeShort(pt.Elem()) == "io.LimitedReader" {
							n++
							c.fail(fmt.Sprintf("%s: input is not cut#%d", shortName(fn), n), p.instrPos(al), "an io.LimitedReader is built: longer input is truncated without an error")
						}
					}
				})
			}
			c.ok("scan", "-", fmt.Sprintf("%d functions scanned for length-limited reads of input", len(p.Funcs)))
		},
	})

	register(&Rule{
		ID: "C11.R12", Props: []string{"C11"}, Min: 1,
		Doc: "the cycle guard walks what the printer walks: fmt formats every field of a struct, exported or not, every element and every map value — so the guard's walk over struct fields and elements reaches its recursive call for every index on every path. A field skipped by the guard (because it is unexported, because of its name or tag) is still printed: a value that reaches itself only through such a field passes the guard and recurses in fmt until the stack is gone",
		Run: func(p *Prog, c *Ctx) {
			guards, _ := p.hostsOf("helpers.isCyclic")
			if len(guards) == 0 {
				undecided("the cycle guard's walker (helpers.isCyclic) was not found")
			}
			n := 0
			for _, fn := range guards {
				var rec []ssa.Instruction
				for _, site := range callsIn(fn) {
					if site.Common().StaticCallee() == fn {
						rec = append(rec, site)
					}
				}
				// loops whose bound is NumField() / Len()
				for _, h := range fn.Blocks {
					isHeader := false
					for _, pr := range h.Preds {
						if h.Dominates(pr) {
							isHeader = true
						}
					}
					if !isHeader {
						continue
					}
					lb := loopBlocks(h)
					// the test that ends the loop: in the header, or — for a rotated `for i := range n` loop — in the latch
					var ifi *ssa.If
					bound := ""
					for _, b := range fn.Blocks {
						if !lb[b] && b != h {
							continue
						}
						x, ok := b.Instrs[len(b.Instrs)-1].(*ssa.If)
						if !ok || (lb[x.Block().Succs[0]] || x.Block().Succs[0] == h) == (lb[x.Block().Succs[1]] || x.Block().Succs[1] == h) {
							continue // not an exit test
						}
						for _, leaf := range condLeaves(x.Cond) {
							if cl, ok := leaf.(*ssa.Call); ok {
								switch calleeName(&cl.Call) {
								case "(reflect.Value).NumField":
									bound, ifi = "the struct's fields", x
								case "(reflect.Value).Len":
									bound, ifi = "the elements", x
								}
							}
						}
					}
					if bound == "" {
						continue
					}
					n++
					// a full turn of the loop (header back to header) that avoids every recursive call
					via := map[ssa.Instruction]bool{}
					for _, r := range rec {
						if lb[r.Block()] || r.Block() == h {
							via[r] = true
						}
					}
					skipped := false
					if len(via) == 0 {
						skipped = true
					} else {
						seen := map[*ssa.BasicBlock]bool{}
						work := []*ssa.BasicBlock{h}
						first := true
						for len(work) > 0 && !skipped {
							b := work[len(work)-1]
							work = work[:len(work)-1]
							if b == h && !first {
								skipped = true
								break
							}
							first = false
							if seen[b] || !(lb[b] || b == h) {
								continue
							}
							seen[b] = true
							cut := false
							for _, in := range b.Instrs {
								if via[in] {
									cut = true
									break
								}
							}
							if cut {
								continue
							}
							work = append(work, b.Succs...)
						}
					}
					c.check(!skipped, fmt.Sprintf("%s: the walk over %s visits every one#%d", shortName(fn), bound, n), p.instrPos(ifi), "the recursive call lies on every path through the loop body", "an iteration of the guard's walk over "+bound+" can go round without the recursive call: what it leaves out is still walked by fmt, so a cycle through it is not seen and fmt.Sprint recurses until the stack limit ends the process")
				}
			}
			if n == 0 {
				undecided("the cycle guard has no walk over fields / elements")
			}
		},
	})

	register(&Rule{
		ID: "C20.R13", Props: []string{"C20", "C09", "C10"}, Min: 1,
		Doc: "a renderer's per-node working storage is local: the render methods of the Markdown renderer (re-entered for nested lists, quotes and tables, and callable from several goroutines on one *Markdown) do not write to fields of the receiver — a scratch buffer kept on the object is reset by the inner item while the outer item is still filling it, and two documents rendered at once share it",
		Run: func(p *Prog, c *Ctx) {
			n := 0
			for _, fn := range p.Funcs {
				if p.Dropped[fn] || !inModule(fn) || fn.Parent() != nil || typeShort(recvType(fn)) != "*markdown.Markdown" {
					continue
				}
				nm := fn.Name()
				if !strings.HasPrefix(nm, "render") && !strings.HasPrefix(nm, "Render") && !strings.HasPrefix(nm, "inline") {
					continue
				}
				n++
				bad := ""
				var at ssa.Instruction
				recv := fn.Params[0]
				walkFuncTree(fn, func(f *ssa.Function) {
					eachInstr(f, func(in ssa.Instruction) {
						switch x := in.(type) {
						case *ssa.Store:
							if fa, ok := x.Addr.(*ssa.FieldAddr); ok && fa.X == ssa.Value(recv) {
								bad = "stores to field " + fieldName(fa.X.Type(), fa.Field)
								at = x
							}
						case ssa.CallInstruction:
							// a pointer-receiver method of a struct embedded in the receiver (buf.Reset(), buf.Write())
							for i, a := range x.Common().Args {
								if fa, ok := a.(*ssa.FieldAddr); ok && fa.X == ssa.Value(recv) && i == 0 && x.Common().StaticCallee() != nil && !inModule(x.Common().StaticCallee()) {
									if _, isStruct := fa.Type().(*types.Pointer).Elem().Underlying().(*types.Struct); isStruct {
										bad = "calls " + calleeName(x.Common()) + " on the receiver's field " + fieldName(fa.X.Type(), fa.Field)
										at = x
									}
								}
							}
						}
					})
				})
				// the address of a field handed on as a value (buf := &m.itemBuf)
				eachInstr(fn, func(in ssa.Instruction) {
					fa, ok := in.(*ssa.FieldAddr)
					if !ok || fa.X != ssa.Value(recv) || fa.Referrers() == nil {
						return
					}
					if _, isStruct := fa.Type().(*types.Pointer).Elem().Underlying().(*types.Struct); !isStruct {
						return
					}
					for _, r := range *fa.Referrers() {
						switch y := r.(type) {
						case ssa.CallInstruction:
							if callee := y.Common().StaticCallee(); callee != nil && !inModule(callee) && len(y.Common().Args) > 0 && y.Common().Args[0] == ssa.Value(fa) {
								// a method of the embedded struct: a read (Len, String) is harmless, anything else writes
								base := callee.Name()
								if base != "Len" && base != "String" && base != "Bytes" && base != "Cap" {
									bad = "calls " + calleeName(y.Common()) + " on the receiver's field " + fieldName(fa.X.Type(), fa.Field)
									at = y
								}
							}
						case *ssa.MakeInterface, *ssa.Phi, *ssa.Store:
							bad = "hands the address of the receiver's field " + fieldName(fa.X.Type(), fa.Field) + " on as working storage"
							at = r
						}
					}
				})
				what := shortName(fn) + ": working storage is local"
				if bad != "" {
					c.fail(what, p.instrPos(at), "the method "+bad+": the state lives on the shared *Markdown, so a nested node of the same kind (a list inside a list item) overwrites what the outer one has collected, and concurrent renders share it")
				} else {
					c.ok(what, p.pos(fn.Pos()), "no write to the receiver")
				}
			}
			if n == 0 {
				undecided("the Markdown renderer has no render methods")
			}
		},
	})
}

func init() {
	register(&Rule{
		ID: "C03.R12", Props: []string{"C03"}, Min: 1,
		Doc: "selecting a member consumes the chain: every return of evalElseIfChain that hands back an evaluated member reports as consumed the index of the chain's *last* member — computed by scanning on past the selected one — not the index at which the selection loop happens to stand. Members left behind go back to evaluate(), which drops else-members without a v-if but dispatches v-for first: a later member with v-for runs as a loop, and the v-else after it is rendered as that loop's empty branch",
		Run: func(p *Prog, c *Ctx) {
			fn := p.MustFn("(*vuego.Vue).evalElseIfChain")
			n := 0
			for _, r := range returnsOf(fn) {
				if len(r.Results) != 3 {
					continue
				}
				var sel *ssa.Call
				for _, o := range p.origins(returnedValue(r, 0), OriginOpts{}) {
					if ex, ok := o.(*ssa.Extract); ok {
						if cl, ok := ex.Tuple.(*ssa.Call); ok && cl.Call.StaticCallee() != nil && inModule(cl.Call.StaticCallee()) {
							sel = cl
						}
					}
				}
				if sel == nil {
					continue
				}
				n++
				skip := returnedValue(r, 1)
				// the selection loop: the loop in which the member was evaluated; its own index is where the
				// selection stands, not where the chain ends
				own := false
				if ph, ok := skip.(*ssa.Phi); ok && ph.Block().Dominates(sel.Block()) {
					// a loop counter: some incoming value is the φ itself plus a constant
					for _, e := range ph.Edges {
						if inc, ok := e.(*ssa.BinOp); ok && inc.Op == token.ADD && inc.X == ssa.Value(ph) {
							if _, isK := constInt(inc.Y); isK {
								own = true
							}
						}
					}
				}
				c.check(!own, fmt.Sprintf("evalElseIfChain: selected member#%d consumes the whole chain", n), p.instrPos(r), "skip count = index of the chain's last member", "the member is returned with the selection loop's own index as the number of consumed nodes: the members after it are handed back to evaluate() one by one, where a member carrying v-for is executed and the chain's v-else is rendered as the empty branch of that loop")
			}
			if n == 0 {
				undecided("evalElseIfChain returns no selected member")
			}
		},
	})

	register(&Rule{
		ID: "C03.R13", Props: []string{"C03"}, Min: 1,
		Doc: "an empty condition is a condition: where evalElseIfChain finds the value of v-if empty it goes on to the else-members of the chain (an expression without a value is falsy); only the absence of the attribute ends the function early. Treating v-if=\"\" as `no v-if` returns nothing and leaves the v-else to be dropped as an else without an if: neither branch is rendered",
		Run: func(p *Prog, c *Ctx) {
			fn := p.MustFn("(*vuego.Vue).evalElseIfChain")
			n := 0
			eachInstr(fn, func(in ssa.Instruction) {
				ifi, ok := in.(*ssa.If)
				if !ok {
					return
				}
				for k := 0; k < 2; k++ {
					b := eqOnEdge(ifi.Cond, k == 0)
					if b == nil {
						continue
					}
					// GetAttr(node, "v-if") == ""
					var attr ssa.Value
					for _, pair := range [][2]ssa.Value{{b.X, b.Y}, {b.Y, b.X}} {
						if s, ok := constString(pair[1]); ok && s == "" {
							attr = pair[0]
						}
					}
					if attr == nil {
						continue
					}
					isVIf := false
					for _, o := range p.origins(attr, OriginOpts{}) {
						if cl := isCallNamed(o, "helpers.GetAttr"); cl != nil {
							if key, ok := constString(cl.Call.Args[1]); ok && key == "v-if" {
								isVIf = true
							}
						}
					}
					if !isVIf {
						continue
					}
					n++
					empty := ifi.Block().Succs[k]
					// from the empty edge the scan of the else-members must be reachable
					reach := blocksAfter(empty)
					reach[empty] = true
					goesOn := false
					for bb := range reach {
						for _, x := range bb.Instrs {
							if cs, ok := x.(ssa.CallInstruction); ok && calleeName(cs.Common()) == "helpers.HasAttr" && len(cs.Common().Args) == 2 {
								if key, ok := constString(cs.Common().Args[1]); ok && (key == "v-else" || key == "v-else-if") {
									goesOn = true
								}
							}
						}
					}
					c.check(goesOn, fmt.Sprintf("evalElseIfChain: an empty v-if goes on to the else members#%d", n), p.instrPos(ifi), "the else-member scan is reachable from the `value is empty` edge", "on the edge where the v-if value is empty the function returns without looking at the chain's other members: <p v-if=\"\">A</p><p v-else>B</p> renders neither")
				}
			})
			if n == 0 {
				c.ok("scan", "-", "evalElseIfChain does not compare the v-if value with the empty string")
			}
		},
	})

	register(&Rule{
		ID: "C03.R14", Props: []string{"C03", "C14"}, Min: 1,
		Doc: "numbers are zero by value, not by spelling: in the truthiness table no floating-point value is decided by comparing its printed form with \"0\" — the float -0.0 is zero and prints as -0. (Integers have one spelling of zero; floats are compared as numbers.)",
		Run: func(p *Prog, c *Ctx) {
			fn := p.MustFn("helpers.IsTruthy")
			n := 0
			for _, site := range callsIn(fn) {
				nm := calleeName(site.Common())
				if nm != "fmt.Sprintf" && nm != "fmt.Sprint" {
					continue
				}
				n++
				// the dynamic types under which this call is reached
				floats := false
				for x := site.Block(); x != nil; x = x.Idom() {
					for _, g := range allGuards(x) {
						ex, ok := g.cond.(*ssa.Extract)
						if !ok || !g.want {
							continue
						}
						if ta, ok := ex.Tuple.(*ssa.TypeAssert); ok {
							if bt, ok := ta.AssertedType.Underlying().(*types.Basic); ok && bt.Info()&types.IsFloat != 0 {
								floats = true
							}
						}
					}
				}
				// a multi-type case is a chain of assertions joined by ||: look at every assertion whose true edge reaches the call
				eachInstr(fn, func(in ssa.Instruction) {
					ta, ok := in.(*ssa.TypeAssert)
					if !ok || !ta.CommaOk {
						return
					}
					bt, ok := ta.AssertedType.Underlying().(*types.Basic)
					if !ok || bt.Info()&types.IsFloat == 0 || ta.Referrers() == nil {
						return
					}
					for _, r := range *ta.Referrers() {
						ex, ok := r.(*ssa.Extract)
						if !ok || ex.Index != 1 || ex.Referrers() == nil {
							continue
						}
						for _, u := range *ex.Referrers() {
							if ifi, ok := u.(*ssa.If); ok {
								t := ifi.Block().Succs[0]
								if t == site.Block() || blocksAfter(t)[site.Block()] && !blocksAfter(ifi.Block().Succs[1])[site.Block()] {
									floats = true
								}
								// the case body shared by several types: reached from the true edge directly
								if t == site.Block() {
									floats = true
								}
							}
						}
					}
				})
				c.check(!floats, fmt.Sprintf("IsTruthy: printed-form test#%d is not applied to floats", n), p.instrPos(site), "floats compared as numbers", "a floating-point value is decided by its printed form: -0.0 prints as \"-0\", is not equal to \"0\" and counts as truthy in v-if, v-show, :class and bound attributes")
			}
			if n == 0 {
				c.ok("scan", "-", "IsTruthy does not format values")
			}
		},
	})

	register(&Rule{
		ID: "C13.R21", Props: []string{"C13", "C03"}, Min: 1,
		Doc: "operators are rewritten outside string literals only: the function that turns === / !== into == / != for the evaluator steps over quoted text — it compares the characters it scans with the quote characters and rewrites only while no literal is open. Rewriting the whole text changes the value of 'a===b'",
		Run: func(p *Prog, c *Ctx) {
			fn := p.MustFn("helpers.NormalizeComparisonOperators")
			quotes := map[int64]bool{}
			eachInstr(fn, func(in ssa.Instruction) {
				b, ok := in.(*ssa.BinOp)
				if !ok || (b.Op != token.EQL && b.Op != token.NEQ) {
					return
				}
				for _, o := range []ssa.Value{b.X, b.Y} {
					if k, ok := constInt(o); ok && (k == '"' || k == '\'' || k == '`') {
						quotes[k] = true
					}
				}
			})
			c.check(quotes['"'] && quotes['\''], "NormalizeComparisonOperators: quoted text is stepped over", p.pos(fn.Pos()), "the scan knows ' and \"", "the rewrite of === / !== looks at no quote character: it is applied inside string literals as well, so {{ 'a===b' }} prints a==b and a comparison with such a literal never matches")
		},
	})

	register(&Rule{
		ID: "C13.R22", Props: []string{"C13", "C03", "C14"}, Min: 2,
		Doc: "true, false and nil are values in every position: the predicate that lets a value position skip the evaluators (IsVariablePath) answers `not a path` for the keyword literals, and the pipe parser does not take a bare keyword for the name of a function — otherwise {{ true }} is an unknown variable (empty), `true | type` receives nil and :disabled=\"true\" is falsy, while v-if=\"true\" is true",
		Run: func(p *Prog, c *Ctx) {
			knowsKeywords := func(fn *ssa.Function) bool {
				found := map[string]bool{}
				var scan func(f *ssa.Function, depth int)
				scan = func(f *ssa.Function, depth int) {
					eachInstr(f, func(in ssa.Instruction) {
						if b, ok := in.(*ssa.BinOp); ok && (b.Op == token.EQL || b.Op == token.NEQ) {
							for _, o := range []ssa.Value{b.X, b.Y} {
								if s, ok := constString(o); ok {
									found[s] = true
								}
							}
						}
						if cs, ok := in.(ssa.CallInstruction); ok && depth < 2 {
							if callee := cs.Common().StaticCallee(); callee != nil && inModule(callee) && callee.Signature.Results().Len() == 1 && callee.Signature.Params().Len() == 1 && isString(callee.Signature.Params().At(0).Type()) {
								scan(callee, depth+1)
							}
						}
					})
				}
				scan(fn, 0)
				return found["true"] && found["false"] && found["nil"]
			}
			isPath := p.MustFn("helpers.IsVariablePath")
			c.check(knowsKeywords(isPath), "IsVariablePath: keyword literals are not paths", p.pos(isPath.Pos()), "true / false / nil are tested", "the path predicate does not single out true, false and nil: they are looked up as variables, found nowhere and have no value in {{ }}, at the head of a pipe and in bound attributes")
			pipe := p.MustFn("vuego.parsePipeExpr")
			c.check(knowsKeywords(pipe), "parsePipeExpr: a bare keyword is not a function name", p.pos(pipe.Pos()), "true / false / nil are tested before the call pattern is accepted", "a bare word is taken for a call of the function of that name: {{ true }} fails with `function 'true' not found`")
		},
	})
}

// bareTruthinessReads parses a .vuego template and returns, per root variable, the positions in which the
// variable alone decides by truthiness: a bound attribute `:name="ident"` (kind "attr:<name>") or a
// condition `v-if="ident"` / v-else-if / v-show (kind "cond").
func bareTruthinessReads(src string) map[string][]string {
	out := map[string][]string{}
	nodes, err := html.ParseFragment(strings.NewReader(src), &html.Node{Type: html.ElementNode, Data: "body", DataAtom: 0x2804})
	if err != nil {
		return out
	}
	isIdent := func(s string) bool {
		s = strings.TrimSpace(s)
		if s == "" {
			return false
		}
		return identRe.FindString(s) == s && !strings.Contains(s, ".")
	}
	var walk func(n *html.Node)
	walk = func(n *html.Node) {
		if n.Type == html.ElementNode {
			for _, a := range n.Attr {
				v := strings.TrimSpace(a.Val)
				switch {
				case a.Key == "v-if" || a.Key == "v-else-if" || a.Key == "v-show":
					if isIdent(v) {
						out[v] = append(out[v], "cond")
					}
				case strings.HasPrefix(a.Key, ":") && a.Key != ":class" && a.Key != ":style":
					if isIdent(v) {
						out[v] = append(out[v], "attr:"+a.Key[1:])
					}
				case strings.HasPrefix(a.Key, "v-bind:"):
					if isIdent(v) {
						out[v] = append(out[v], "attr:"+a.Key[7:])
					}
				}
			}
		}
		for ch := n.FirstChild; ch != nil; ch = ch.NextSibling {
			walk(ch)
		}
	}
	for _, n := range nodes {
		walk(n)
	}
	return out
}

func init() {
	register(&Rule{
		ID: "C20.R14", Props: []string{"C20"}, Min: 4,
		Doc: "truthiness is not a presence test for values of the document: in the default Markdown templates a variable alone decides (`:attr=\"x\"`, `v-if=\"x\"`) only where its falsy forms mean `absent`. A number handed over by the renderer (a list's start) is never bound through `:attr` — 0 is a start; a destination or an alternative text (href, src, alt) is never bound through `:attr` — the empty string and the word `false` are destinations and texts; and a string taken from the source is not tested by bare `v-if` (the info string `false` names a language). Such values are written with `attr=\"{{ x }}\"` or compared explicitly",
		Run: func(p *Prog, c *Ctx) {
			dir := filepath.Join(p.Repo, "markdown", "markdown")
			ents, err := os.ReadDir(dir)
			if err != nil {
				undecided("cannot read %s: %v", dir, err)
			}
			reads := map[string]map[string][]string{}
			for _, e := range ents {
				if strings.HasSuffix(e.Name(), ".vuego") {
					b, _ := os.ReadFile(filepath.Join(dir, e.Name()))
					reads[strings.TrimSuffix(e.Name(), ".vuego")] = bareTruthinessReads(string(b))
				}
			}
			rt := p.MustFn("(*markdown.Markdown).renderTemplate")
			n := 0
			for _, site := range p.Callers(rt) {
				name, ok := constString(site.Common().Args[2])
				if !ok {
					continue
				}
				// the Go types of the literal's values
				typesOf := map[string]types.Type{}
				for _, o := range p.origins(site.Common().Args[3], OriginOpts{}) {
					mk, ok := o.(*ssa.MakeMap)
					if !ok || mk.Referrers() == nil {
						continue
					}
					for _, r := range *mk.Referrers() {
						if mu, ok := r.(*ssa.MapUpdate); ok {
							if k, ok := constString(unwrapIface(mu.Key)); ok {
								typesOf[k] = unwrapIface(mu.Value).Type()
							}
						}
					}
				}
				for _, v := range sortedKeys(reads[name]) {
					for _, how := range reads[name][v] {
						t := typesOf[v]
						if t == nil {
							continue
						}
						n++
						what := fmt.Sprintf("template %s: %s read as %s (%s)", name, v, how, shortName(site.Parent()))
						bt, isBasic := t.Underlying().(*types.Basic)
						switch {
						case isBasic && bt.Info()&types.IsNumeric != 0:
							c.fail(what, "markdown/markdown/"+name+".vuego", "the number "+v+" decides by truthiness whether it appears: the value 0 is left out (a list that starts at 0 is rendered as one that starts at 1)")
						case isBasic && bt.Info()&types.IsString != 0 && how == "cond":
							c.fail(what, "markdown/markdown/"+name+".vuego", "the string "+v+" taken from the document is tested by bare truthiness: the text `false` counts as absent")
						case isBasic && bt.Info()&types.IsString != 0 && (how == "attr:href" || how == "attr:src" || how == "attr:alt"):
							c.fail(what, "markdown/markdown/"+name+".vuego", "the "+strings.TrimPrefix(how, "attr:")+" of a link or image is bound through truthiness: an empty one and the word `false` lose the attribute, where the reference rendering has "+strings.TrimPrefix(how, "attr:")+"=\"\" / \"false\"")
						default:
							c.ok(what, "markdown/markdown/"+name+".vuego", "a falsy form of this value means it is absent")
						}
					}
				}
			}
			if n == 0 {
				undecided("no template variable is read by bare truthiness")
			}
		},
	})
}

// constructsError: control entering b reaches, without any further branching, a call that builds an error value.
func constructsError(b *ssa.BasicBlock) bool {
	for d := 0; d < 3 && b != nil; d++ {
		for _, in := range b.Instrs {
			if cs, ok := in.(ssa.CallInstruction); ok {
				switch calleeName(cs.Common()) {
				case "fmt.Errorf", "errors.New":
					return true
				}
			}
		}
		if len(b.Succs) != 1 {
			return false
		}
		b = b.Succs[0]
	}
	return false
}

func init() {
	register(&Rule{
		ID: "C01.R10", Props: []string{"C01", "C14"}, Min: 1,
		Doc: "a directive's expression is template text when its handler reads it: a handler that evaluate() applies to an element *after* the attribute pass (evalAttributes) and that evaluates the value of one of the element's attributes as an expression (v-show) must find that value as it was written — the attribute pass interpolates a static attribute only where it has established that the attribute is not a directive (the serialiser's shouldIgnoreAttr vocabulary, of which the handler's attribute is a member). Otherwise `v-show=\"{{ code }}\"` hands the handler the data value of code to run as an expression",
		Run: func(p *Prog, c *Ctx) {
			ev := p.MustFn("(*vuego.Vue).evaluate")
			var attrPass ssa.CallInstruction
			for _, site := range callsIn(ev) {
				if calleeName(site.Common()) == "(*vuego.Vue).evalAttributes" {
					attrPass = site
				}
			}
			if attrPass == nil {
				undecided("evaluate: no call of evalAttributes")
			}
			var node ssa.Value
			for _, a := range attrPass.Common().Args {
				if isNamed(a.Type(), "golang.org/x/net/html", "Node") {
					node = a
				}
			}
			ignored := map[string]bool{}
			for _, k := range p.ignoredAttrKeys() {
				ignored[k] = true
			}
			// is the interpolation of static attributes in evalAttributes kept away from directives?
			pass := p.MustFn("(*vuego.Vue).evalAttributes")
			protected := true
			sawInterpolate := false
			for _, site := range callsIn(pass) {
				if nm := calleeName(site.Common()); nm != "(*vuego.Vue).interpolate" && nm != "(*vuego.Vue).interpolateToWriter" {
					continue
				}
				sawInterpolate = true
				notDirective := func(cond ssa.Value, want bool) bool {
					cl, ok := cond.(*ssa.Call)
					if !ok {
						return false
					}
					nm := calleeName(&cl.Call)
					if nm == "vuego.shouldIgnoreAttr" && !want {
						return true
					}
					if nm == "strings.HasPrefix" && !want && len(cl.Call.Args) == 2 {
						if s, ok := constString(cl.Call.Args[1]); ok && s == "v-" {
							return true
						}
					}
					return false
				}
				if !enteredOnlyUnder(site.Block(), notDirective) && !everyPathCrosses(site.Block(), notDirective) {
					protected = false
				}
			}
			n := 0
			for _, site := range callsIn(ev) {
				callee := site.Common().StaticCallee()
				if callee == nil || !inModule(callee) || site == attrPass || !dominates(attrPass, site) {
					continue
				}
				gets := false
				for _, a := range site.Common().Args {
					if node != nil && (a == node || sameValue(a, node)) {
						gets = true
					}
				}
				if !gets {
					continue
				}
				// attribute values the handler evaluates — itself, or in the module functions it hands the node to
				var scope []*ssa.Function
				seenFn := map[*ssa.Function]bool{}
				var collect func(f *ssa.Function, depth int)
				collect = func(f *ssa.Function, depth int) {
					if seenFn[f] || depth > 2 {
						return
					}
					seenFn[f] = true
					walkFuncTree(f, func(x *ssa.Function) { scope = append(scope, x) })
					for _, cs := range callsIn(f) {
						sub := cs.Common().StaticCallee()
						if sub == nil || !inModule(sub) || funcPkg(sub) == nil || funcPkg(sub).Path() != modPath {
							continue
						}
						for _, a := range cs.Common().Args {
							if isNamed(a.Type(), "golang.org/x/net/html", "Node") {
								collect(sub, depth+1)
							}
						}
					}
				}
				collect(callee, 0)
				for _, f := range scope {
					for _, g := range callsIn(f) {
						if calleeName(g.Common()) != "helpers.GetAttr" || len(g.Common().Args) != 2 {
							continue
						}
						key, ok := constString(g.Common().Args[1])
						if !ok {
							continue
						}
						gv, ok := g.(*ssa.Call)
						if !ok {
							continue
						}
						evaluated := flowsTo(gv, func(u ssa.Instruction, via ssa.Value) bool {
							cs, ok := u.(ssa.CallInstruction)
							if !ok {
								return false
							}
							switch calleeName(cs.Common()) {
							case "(*vuego.ExprEvaluator).Eval", "(*vuego.Vue).evalConditionExpr", "(*vuego.Vue).evalCondition", "(*vuego.Vue).evalPipe", "vuego.parsePipeExpr", "(*vuego.Vue).interpolate", "(*vuego.Stack).Resolve":
								return true
							}
							return false
						})
						if !evaluated {
							continue
						}
						n++
						c.check(!sawInterpolate || (protected && ignored[key]), fmt.Sprintf("%s: the %s expression is read as written#%d", shortName(f), key, n), p.instrPos(g), "the attribute pass does not interpolate directive values", "this handler runs after evalAttributes and evaluates the element's "+key+" attribute, which that pass has already interpolated like a static attribute: a `{{ … }}` in it has been replaced by a data value, and the handler now evaluates that value as an expression")
					}
				}
			}
			if n == 0 {
				c.ok("scan", "-", "no directive handler evaluates an attribute of the element after the attribute pass")
			}
		},
	})
}

func init() {
	register(&Rule{
		ID: "C03.R15", Props: []string{"C03", "C13", "C14"}, Min: 1,
		Doc: "one implementation of `is this condition true`: the v-show handler decides through evalConditionExpr, the evaluation v-if and v-else-if use — it has no expression evaluation of its own. A second copy drifts: it lacked the rule that the negation of an undefined value is true, so v-show=\"!missing\" hid what v-if=\"!missing\" shows",
		Run: func(p *Prog, c *Ctx) {
			fn := p.MustFn("(*vuego.Vue).evalVShow")
			shared, own := false, ""
			for _, site := range callsIn(fn) {
				switch calleeName(site.Common()) {
				case "(*vuego.Vue).evalConditionExpr", "(*vuego.Vue).evalCondition":
					shared = true
				case "(*vuego.ExprEvaluator).Eval", "(*vuego.Vue).evalPipe":
					own = calleeName(site.Common())
				}
			}
			c.check(shared && own == "", "evalVShow: the condition is evaluated by evalConditionExpr", p.pos(fn.Pos()), "delegates to the shared evaluation", "v-show evaluates its condition itself ("+own+") instead of through evalConditionExpr: the two positions agree only as long as somebody keeps two copies of the fallbacks (resolver paths, negation of undefined) in step")
		},
	})

	register(&Rule{
		ID: "C14.R14", Props: []string{"C14"}, Min: 1,
		Doc: "the key of an object item ends at the colon after the key: where :class / :style object items are split into key and value, a key written in quotes is stepped over before the colon is searched ('md:flex': wide), and both quote characters are recognised. Splitting at the first colon of the item loses every class or property whose quoted name contains one",
		Run: func(p *Prog, c *Ctx) {
			fns, _ := p.hostsOf("(*vuego.Vue).parseObjectPairs")
			if len(fns) == 0 {
				undecided("parseObjectPairs not found")
			}
			n := 0
			for _, fn := range fns {
				var scan func(f *ssa.Function, depth int)
				seen := map[*ssa.Function]bool{}
				quotes := map[int64]bool{}
				var colonSearches []ssa.CallInstruction
				scan = func(f *ssa.Function, depth int) {
					if seen[f] || depth > 2 {
						return
					}
					seen[f] = true
					eachInstr(f, func(in ssa.Instruction) {
						if b, ok := in.(*ssa.BinOp); ok && (b.Op == token.EQL || b.Op == token.NEQ) {
							for _, o := range []ssa.Value{b.X, b.Y} {
								if k, ok := constInt(o); ok && (k == '"' || k == '\'') {
									quotes[k] = true
								}
							}
						}
						if cs, ok := in.(ssa.CallInstruction); ok {
							nm := calleeName(cs.Common())
							if (nm == "strings.Index" || nm == "strings.IndexByte" || nm == "strings.Cut" || nm == "strings.SplitN" || nm == "strings.IndexRune") && len(cs.Common().Args) >= 2 {
								if s, ok := constString(cs.Common().Args[1]); ok && s == ":" {
									colonSearches = append(colonSearches, cs)
								}
								if k, ok := constInt(cs.Common().Args[1]); ok && k == ':' {
									colonSearches = append(colonSearches, cs)
								}
							}
							if callee := cs.Common().StaticCallee(); callee != nil && inModule(callee) && funcPkg(callee) == funcPkg(fn) && callee != fn {
								if _, isRole := roleTable[rawShortName(callee)]; !isRole || strings.Contains(callee.Name(), "Key") {
									scan(callee, depth+1)
								}
							}
						}
					})
				}
				scan(fn, 0)
				if len(colonSearches) == 0 {
					continue
				}
				n++
				c.check(quotes['"'] && quotes['\''], "parseObjectPairs: a quoted key is stepped over before the colon is searched", p.instrPos(colonSearches[0]), "the split looks at ' and \"", "the item is split at its first colon without looking for a quoted key: {'md:flex': wide} is read as the key 'md with the value flex': wide — the class is lost")
			}
			if n == 0 {
				undecided("parseObjectPairs does not search for the colon")
			}
		},
	})

	register(&Rule{
		ID: "C11.R13", Props: []string{"C11"}, Min: 1,
		Doc: "no printer without the cycle guard hides in the expression language: where expressions are compiled, the evaluator's builtin string() — fmt.Sprintf(\"%v\", x) — is replaced (expr.Function(\"string\", …)) or switched off (expr.DisableBuiltin(\"string\")). Expressions that go to the evaluator as a whole (v-if, v-show, anything with an operator) would otherwise print data through fmt directly: string(m) on a map that contains itself never returns",
		Run: func(p *Prog, c *Ctx) {
			n := 0
			for _, fn := range p.Funcs {
				if p.Dropped[fn] || !inModule(fn) {
					continue
				}
				for _, site := range callsIn(fn) {
					if calleeName(site.Common()) != "github.com/expr-lang/expr.Compile" {
						continue
					}
					n++
					covered := false
					// the options: elements of the variadic slice
					args := site.Common().Args
					if sl, ok := args[len(args)-1].(*ssa.Slice); ok {
						if al, ok := sl.X.(*ssa.Alloc); ok && al.Referrers() != nil {
							for _, r := range *al.Referrers() {
								ia, ok := r.(*ssa.IndexAddr)
								if !ok || ia.Referrers() == nil {
									continue
								}
								for _, u := range *ia.Referrers() {
									st, ok := u.(*ssa.Store)
									if !ok {
										continue
									}
									for _, o := range p.origins(st.Val, OriginOpts{}) {
										cl, ok := o.(*ssa.Call)
										if !ok {
											// a package-level option value: look at what it was initialised with
											if ld, ok := o.(*ssa.UnOp); ok {
												if g, ok := ld.X.(*ssa.Global); ok && g.Pkg != nil {
													for _, f := range p.Funcs {
														eachInstr(f, func(in ssa.Instruction) {
															if gs, ok := in.(*ssa.Store); ok && gs.Addr == ssa.Value(g) {
																if gc, ok := gs.Val.(*ssa.Call); ok {
																	nm := calleeName(&gc.Call)
																	if (nm == "github.com/expr-lang/expr.Function" || nm == "github.com/expr-lang/expr.DisableBuiltin") && len(gc.Call.Args) > 0 {
																		if s, ok := constString(gc.Call.Args[0]); ok && s == "string" {
																			covered = true
																		}
																	}
																}
															}
														})
													}
													if init := g.Pkg.Func("init"); init != nil {
														for _, is := range callsIn(init) {
															if callee := is.Common().StaticCallee(); callee != nil {
																eachInstr(callee, func(in ssa.Instruction) {
																	if gs, ok := in.(*ssa.Store); ok && gs.Addr == ssa.Value(g) {
																		if gc, ok := gs.Val.(*ssa.Call); ok {
																			nm := calleeName(&gc.Call)
																			if (nm == "github.com/expr-lang/expr.Function" || nm == "github.com/expr-lang/expr.DisableBuiltin") && len(gc.Call.Args) > 0 {
																				if s, ok := constString(gc.Call.Args[0]); ok && s == "string" {
																					covered = true
																				}
																			}
																		}
																	}
																})
															}
														}
														eachInstr(init, func(in ssa.Instruction) {
															if gs, ok := in.(*ssa.Store); ok && gs.Addr == ssa.Value(g) {
																if gc, ok := gs.Val.(*ssa.Call); ok {
																	nm := calleeName(&gc.Call)
																	if (nm == "github.com/expr-lang/expr.Function" || nm == "github.com/expr-lang/expr.DisableBuiltin") && len(gc.Call.Args) > 0 {
																		if s, ok := constString(gc.Call.Args[0]); ok && s == "string" {
																			covered = true
																		}
																	}
																}
															}
														})
													}
												}
											}
											continue
										}
										nm := calleeName(&cl.Call)
										if (nm == "github.com/expr-lang/expr.Function" || nm == "github.com/expr-lang/expr.DisableBuiltin") && len(cl.Call.Args) > 0 {
											if s, ok := constString(cl.Call.Args[0]); ok && s == "string" {
												covered = true
											}
										}
									}
								}
							}
						}
					}
					c.check(covered, fmt.Sprintf("%s: compiled expressions have no unguarded string()#%d", shortName(fn), n), p.instrPos(site), "expr.Function(\"string\", …) or DisableBuiltin(\"string\")", "expressions are compiled with the evaluator's own string() builtin, which prints with fmt: `string(m)` on data that contains itself recurses until the stack limit ends the process — the cycle guard of helpers.Sprint is not on that path")
				}
			}
			if n == 0 {
				undecided("no call of expr.Compile in the module")
			}
		},
	})

	register(&Rule{
		ID: "C17.R16", Props: []string{"C17", "C10"}, Min: 1,
		Doc: "the pool gets back only what it gave: Stack.Pop puts a scope map into the map pool (and empties it) only under a test of the stack's own record of where that scope's map came from — a field of the Stack other than the scope list. A map the caller handed to Push is the caller's: emptied and pooled, it comes back as the map of a later Push(nil), two live scopes are one map and popping one loses the other's bindings",
		Run: func(p *Prog, c *Ctx) {
			fn := p.MustFn("(*vuego.Stack).Pop")
			n := 0
			for _, site := range callsIn(fn) {
				if calleeName(site.Common()) != "(*sync.Pool).Put" {
					continue
				}
				n++
				owned := func(cond ssa.Value, want bool) bool {
					for _, leaf := range condLeaves(cond) {
						for _, o := range p.origins(leaf, OriginOpts{}) {
							if f := loadedField(o); f != nil && !fieldIs(f, "stack") && !fieldIs(f, "rootData") {
								if nt, _ := namedType(f.Type()); nt == "" {
									// a field of the Stack itself
								}
								return true
							}
							// an element of a record slice held in such a field
							if ld, ok := o.(*ssa.UnOp); ok && ld.Op == token.MUL {
								if ia, ok := ld.X.(*ssa.IndexAddr); ok {
									if f := loadedField(ia.X); f != nil && !fieldIs(f, "stack") && !fieldIs(f, "rootData") {
										return true
									}
								}
							}
						}
					}
					return false
				}
				ok := enteredOnlyUnder(site.Block(), owned) || everyPathCrosses(site.Block(), owned)
				c.check(ok, fmt.Sprintf("Pop: the map goes back to the pool only if it came from there#%d", n), p.instrPos(site), "guarded by the stack's record of pooled scopes", "every popped scope map is emptied and handed to the pool, also one the caller passed to Push: the caller's map is wiped, and a later Push(nil) can receive it while the caller still uses it — two scopes share one map")
			}
			if n == 0 {
				c.ok("scan", "-", "Pop does not pool maps")
			}
		},
	})
}

// passThroughArgs: a call of a module function that hands back one of its parameters or nil (a filter such as
// fieldFallback(data): the data itself unless it is a map) stands for those arguments.
func (p *Prog) passThroughArgs(c *ssa.Call) []ssa.Value {
	callee := c.Call.StaticCallee()
	if callee == nil || !inModule(callee) || len(callee.Blocks) == 0 || c.Call.IsInvoke() {
		return nil
	}
	var out []ssa.Value
	for _, ret := range returnsOf(callee) {
		if len(ret.Results) != 1 {
			return nil
		}
		for _, o := range p.origins(ret.Results[0], OriginOpts{}) {
			switch x := o.(type) {
			case *ssa.Const:
				if x.Value != nil {
					return nil
				}
			case *ssa.Parameter:
				idx := -1
				for i, prm := range callee.Params {
					if prm == x {
						idx = i
					}
				}
				if idx < 0 || idx >= len(c.Call.Args) {
					return nil
				}
				out = append(out, c.Call.Args[idx])
			default:
				return nil
			}
		}
	}
	return out
}
