package main

import (
	"fmt"
	"go/token"
	"sort"
	"strings"

	"golang.org/x/tools/go/ssa"
)

func init() {
	register(&Rule{
		ID: "C13.R1", Props: []string{"C13"}, Min: 9,
		Doc: "every expression position can reach the function registry: each function that hands template text to an evaluator ({{ }}, bound attributes, v-html, v-text, v-if/v-else-if, v-show, <template :x>, :class/:style objects, slot props) reaches the funcMap lookup (evalFilter) in the call graph, so that a registered function — and an unknown one — means the same wherever an expression is allowed",
		Run: func(p *Prog, c *Ctx) {
			// the funcMap lookup: evalFilter, or the function it was merged into
			filters, _ := p.hostsOf("(*vuego.Vue).evalFilter")
			if len(filters) == 0 {
				undecided("anchor function (*vuego.Vue).evalFilter not found, nor its former callers")
			}
			filter := filters[0]
			pipe := p.MustFn("(*vuego.Vue).evalPipe")
			c.check(p.Cone(pipe)[filter], "pipe interpreter reaches the registry", p.pos(pipe.Pos()), "evalPipe → evalFilter → funcMap", "the pipe interpreter no longer reaches the funcMap lookup")
			// expression sites, attributed to the role function that owns them (helpers extracted from a position stay with it)
			type exprSite struct {
				site  ssa.CallInstruction
				owner *ssa.Function
			}
			byOwner := map[*ssa.Function][]exprSite{}
			for _, fn := range p.Funcs {
				if pk := funcPkg(fn); pk == nil || pk.Path() != modPath {
					continue
				}
				for _, site := range callsIn(fn) {
					n := calleeName(site.Common())
					if n != "(*vuego.Vue).evalPipe" && n != "(*vuego.ExprEvaluator).Eval" {
						continue
					}
					owner := p.ownerRole(fn)
					switch owner.Name() {
					case "evalPipe", "evalSegment", "evalFilter", "resolveArgument", "callFunc":
						continue // the pipe interpreter itself (its expr segments get `.` bound by the interpreter)
					}
					if on := shortName(owner); on == "(*vuego.Vue).evalPipe" || on == "(*vuego.Vue).evalSegment" || on == "(*vuego.Vue).evalFilter" {
						continue
					}
					byOwner[owner] = append(byOwner[owner], exprSite{site, owner})
				}
			}
			for _, owner := range sortedFuncs(funcSetOf(byOwner)) {
				sites := byOwner[owner]
				sort.Slice(sites, func(i, j int) bool { return sites[i].site.Pos() < sites[j].site.Pos() })
				for i, es := range sites {
					n := i + 1
					label := strings.TrimPrefix(shortName(owner), "(*vuego.Vue).")
					switch calleeName(es.site.Common()) {
					case "(*vuego.Vue).evalPipe":
						c.ok(fmt.Sprintf("%s: expression#%d via evalPipe", label, n), p.instrPos(es.site), "reaches the function registry")
					default:
						viaPipe := false
						for _, other := range sites {
							if calleeName(other.site.Common()) == "(*vuego.Vue).evalPipe" && other.site.Parent() == es.site.Parent() && dominates(other.site, es.site) {
								viaPipe = true
							}
						}
						c.check(viaPipe, fmt.Sprintf("%s: expression#%d via Eval", label, n), p.instrPos(es.site), "fallback after the pipe interpreter was tried on the same text", "this position evaluates template text with the bare expression evaluator, whose environment carries no registered functions: a registered function is unavailable here and an unknown function is silently falsy/empty instead of failing the render with an error naming it, unlike in {{ }}")
					}
				}
			}
		},
	})

	register(&Rule{
		ID: "C13.R2", Props: []string{"C13"}, Min: 5,
		Doc: "function errors are named and not swallowed: the reflective call is made only by the filter evaluator, every error the filter evaluator returns carries the function's name, and an error produced by the pipe interpreter is returned by the position that invoked it (no silent fallback to another evaluation strategy)",
		Run: func(p *Prog, c *Ctx) {
			cf := p.MustFn("(*vuego.Vue).callFunc")
			efs, efIsRole := p.hostsOf("(*vuego.Vue).evalFilter")
			if len(efs) == 0 || len(efs[0].Params) < 4 {
				undecided("anchor function (*vuego.Vue).evalFilter not found, nor a former caller of the same shape")
			}
			ef := efs[0]
			for i, site := range p.Callers(cf) {
				c.check(site.Parent() == ef, fmt.Sprintf("callFunc caller#%d", i+1), p.instrPos(site), "called from evalFilter", "callFunc is called from "+shortName(site.Parent())+": errors of that call are not wrapped with the function's name")
			}
			seg := paramOf(ef, "seg", 2, 6)
			n := 0
			// (merged into the segment evaluator: only the errors of the filter part — after the registry lookup)
			var lookup ssa.Instruction
			eachInstr(ef, func(in ssa.Instruction) {
				if lk, ok := in.(*ssa.Lookup); ok && lookup == nil {
					if f := loadedField(lk.X); f != nil && fieldIs(f, "funcMap") {
						lookup = lk
					}
				}
			})
			for _, site := range callsIn(ef) {
				if calleeName(site.Common()) != "fmt.Errorf" {
					continue
				}
				if !efIsRole && (lookup == nil || !canFollow(lookup, site)) {
					continue
				}
				n++
				named := false
				for _, a := range site.Common().Args {
					if p.derivedFromField(a, seg, "name") {
						named = true
					}
				}
				c.check(named, fmt.Sprintf("evalFilter: error#%d names the function", n), p.instrPos(site), "seg.name is among the format arguments", "an error returned by the filter evaluator does not carry the function's name")
			}
			m := 0
			for _, fn := range p.Funcs {
				for _, site := range callsIn(fn) {
					if calleeName(site.Common()) != "(*vuego.Vue).evalPipe" {
						continue
					}
					m++
					ok, why := errorPropagated(site)
					c.check(ok, fmt.Sprintf("%s: evalPipe error#%d", strings.TrimPrefix(shortName(p.ownerRole(fn)), "(*vuego.Vue)."), m), p.instrPos(site), "returned to the caller", "an error of the pipe interpreter (unknown function, wrong argument count, failed conversion, error returned by the function) is swallowed here: "+why+"; the position falls back to another strategy and finally binds nil")
				}
			}
		},
	})

	register(&Rule{
		ID: "C13.R3", Props: []string{"C13"}, Min: 4,
		Doc: "pipes thread left to right with the piped value first: in the pipe interpreter each segment's input is the previous segment's result (a loop-carried value), segments are visited in ascending order, and in the filter evaluator the piped input is appended to the argument list before the explicit arguments",
		Run: func(p *Prog, c *Ctx) {
			ep := p.MustFn("(*vuego.Vue).evalPipe")
			n := 0
			for _, site := range callsIn(ep) {
				if calleeName(site.Common()) != "(*vuego.Vue).evalSegment" {
					continue
				}
				h := loopHeaderOf(site.Block())
				if h == nil {
					continue // the first segment of a direct call: input nil by design
				}
				n++
				in := site.Common().Args[3]
				threaded := false
				for _, o := range p.origins(in, OriginOpts{}) {
					if ex, ok := o.(*ssa.Extract); ok {
						if cl, ok := ex.Tuple.(*ssa.Call); ok && calleeName(&cl.Call) == "(*vuego.Vue).evalSegment" && ex.Index == 0 {
							threaded = true
						}
					}
				}
				c.check(threaded, fmt.Sprintf("evalPipe: segment input#%d", n), p.instrPos(site), "input = previous segment's result", "a segment in the pipe loop does not receive the previous segment's result: filters are not composed left to right")
			}
			c.check(rangeAscending(ep), "evalPipe: ascending order", p.pos(ep.Pos()), "segments visited first to last", "segments are not visited in ascending order")
			efs, _ := p.hostsOf("(*vuego.Vue).evalFilter")
			if len(efs) == 0 || len(efs[0].Params) < 4 {
				undecided("anchor function (*vuego.Vue).evalFilter not found, nor a former caller of the same shape")
			}
			ef := efs[0]
			input := paramOf(ef, "input", 3, 6)
			var first, rest []ssa.Instruction
			for _, site := range callsIn(ef) {
				if calleeName(site.Common()) != "builtin.append" {
					continue
				}
				fromInput, fromArgs := false, false
				for _, a := range site.Common().Args[1:] {
					if p.derivedFrom(a, input, 4) {
						fromInput = true
					}
					if p.derivedFromCall(a, "(*vuego.Vue).resolveArgument", 4) {
						fromArgs = true
					}
				}
				if fromInput {
					first = append(first, site)
				}
				if fromArgs {
					rest = append(rest, site)
				}
			}
			okOrder := len(first) > 0 && len(rest) > 0
			for _, f := range first {
				for _, r := range rest {
					if canFollow(r, f) {
						okOrder = false
					}
				}
			}
			c.check(okOrder, "evalFilter: piped value is the first argument", p.pos(ef.Pos()), "append(input) precedes the explicit arguments", "the piped value is not appended before the explicit arguments: `x | f(a)` no longer calls f(x, a)")
		},
	})
}

func funcSet(m map[*ssa.Function]string) map[*ssa.Function]bool {
	out := map[*ssa.Function]bool{}
	for f := range m {
		out[f] = true
	}
	return out
}

// derivedFromField: v is computed from field `name` of struct value/pointer base.
func (p *Prog) derivedFromField(v, base ssa.Value, name string) bool {
	found := false
	seen := map[ssa.Value]bool{}
	var walk func(v ssa.Value, d int)
	walk = func(v ssa.Value, d int) {
		if v == nil || seen[v] || d > 6 || found {
			return
		}
		seen[v] = true
		for _, o := range p.origins(v, OriginOpts{}) {
			switch x := o.(type) {
			case *ssa.Field:
				if fieldNameStruct(x.X.Type(), x.Field) == name {
					found = true
				}
			case *ssa.UnOp:
				if f := loadedField(x); f != nil && f.Name() == name {
					found = true
				}
			case *ssa.Alloc:
				if refs := x.Referrers(); refs != nil {
					for _, r := range *refs {
						if ia, ok := r.(*ssa.IndexAddr); ok {
							if irefs := ia.Referrers(); irefs != nil {
								for _, ir := range *irefs {
									if st, ok := ir.(*ssa.Store); ok {
										walk(st.Val, d+1)
									}
								}
							}
						}
					}
				}
			case *ssa.Call:
				for _, a := range callArgs(&x.Call) {
					walk(a, d+1)
				}
			}
		}
	}
	walk(v, 0)
	_ = base
	return found
}

// derivedFromCall: v is computed from the result of a call to the named function.
func (p *Prog) derivedFromCall(v ssa.Value, callee string, depth int) bool {
	found := false
	seen := map[ssa.Value]bool{}
	var walk func(v ssa.Value, d int)
	walk = func(v ssa.Value, d int) {
		if v == nil || seen[v] || d > depth || found {
			return
		}
		seen[v] = true
		for _, o := range p.origins(v, OriginOpts{}) {
			switch x := o.(type) {
			case *ssa.Call:
				if calleeName(&x.Call) == callee {
					found = true
					return
				}
			case *ssa.Alloc:
				if refs := x.Referrers(); refs != nil {
					for _, r := range *refs {
						if ia, ok := r.(*ssa.IndexAddr); ok {
							if irefs := ia.Referrers(); irefs != nil {
								for _, ir := range *irefs {
									if st, ok := ir.(*ssa.Store); ok {
										walk(st.Val, d+1)
									}
								}
							}
						}
					}
				}
			}
		}
	}
	walk(v, 0)
	return found
}

func sameArith(a, b ssa.Value) bool {
	if a == b {
		return true
	}
	x, ok1 := a.(*ssa.BinOp)
	y, ok2 := b.(*ssa.BinOp)
	if ok1 && ok2 && x.Op == y.Op {
		return sameArith(x.X, y.X) && sameArith(x.Y, y.Y)
	}
	ca, ok1 := a.(*ssa.Const)
	cb, ok2 := b.(*ssa.Const)
	if ok1 && ok2 && ca.Value != nil && cb.Value != nil {
		return ca.Value.String() == cb.Value.String()
	}
	return false
}

func init() {
	register(&Rule{
		ID: "C13.R6", Props: []string{"C13"}, Min: 1,
		Doc: "variadic tail agreement in the reflective call: the argument index from which arguments are converted to the variadic element type is the index of the variadic parameter itself — the bound in the guard `i >= k` and the parameter index in `In(k).Elem()` are the same quantity (both counted over all parameters, including an injected context), so the last fixed parameter of a context-taking variadic function keeps its own type",
		Run: func(p *Prog, c *Ctx) {
			fn := p.MustFn("(*vuego.Vue).callFunc")
			n := 0
			for _, site := range callsIn(fn) {
				if calleeName(site.Common()) != "reflect.Type.Elem" {
					continue
				}
				in := isCallNamed(site.Common().Value, "reflect.Type.In")
				if in == nil {
					continue
				}
				n++
				k := in.Call.Args[0]
				agree := false
				for _, g := range guardsOf(site.Block()) {
					// the relation that holds on the edge: `i >= k` taken, or `i < k` not taken
					if op, _, y, ok := relationOnEdge(g.If.Cond, g.Branch); ok && (op == token.GEQ || op == token.GTR) {
						if sameArith(y, k) {
							agree = true
						}
					}
				}
				c.check(agree, fmt.Sprintf("callFunc: variadic element type#%d", n), p.instrPos(site), "guard bound == variadic parameter index", "arguments start taking the variadic element type from an index that is not the variadic parameter's index: with an injected *VueContext the last fixed argument of a variadic function is converted to the element type (an int arrives as a string, or conversion fails)")
			}
			c.check(n > 0, "callFunc: handles variadic functions", p.pos(fn.Pos()), "element type taken from In(k).Elem()", "the reflective call no longer derives the variadic element type")
		},
	})
}

func funcSetOf[T any](m map[*ssa.Function]T) map[*ssa.Function]bool {
	out := map[*ssa.Function]bool{}
	for f := range m {
		out[f] = true
	}
	return out
}
