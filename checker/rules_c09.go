package main

import (
	"fmt"
	"go/token"
	"go/types"
	"strings"

	"golang.org/x/tools/go/ssa"
)

// concurrentEntries: the methods documented as safe for concurrent use on one engine / base template.
func (p *Prog) concurrentEntries() []*ssa.Function {
	var out []*ssa.Function
	for _, fn := range p.Funcs {
		pk := funcPkg(fn)
		if pk == nil || pk.Path() != modPath || fn.Parent() != nil || fn.Signature.Recv() == nil {
			continue
		}
		recv := typeShort(fn.Signature.Recv().Type())
		name := fn.Name()
		switch recv {
		case "*vuego.template":
			if strings.HasPrefix(name, "Render") || name == "New" || name == "Load" || name == "Get" {
				out = append(out, fn)
			}
		case "*vuego.Vue":
			if strings.HasPrefix(name, "Render") {
				out = append(out, fn)
			}
		}
	}
	return out
}

// engineType: long-lived objects shared by all renders.
func engineType(t types.Type) bool {
	s := typeShort(t)
	switch s {
	case "*vuego.Vue", "*vuego.ExprEvaluator", "*vuego.Loader", "*vuego.OverlayFS":
		return true
	}
	return false
}

// sharedTemplateMethod: a base template is shared by the goroutines that render through it (C09: "a single
// base template may be used from any number of goroutines"): its render methods must not write to it.
// The configuration methods (Fill, Assign, Load, New) are not concurrent entry points on one template.
func sharedTemplateMethod(fn *ssa.Function) bool {
	if len(fn.Params) == 0 || typeShort(fn.Params[0].Type()) != "*vuego.template" {
		return false
	}
	n := rootFunc(fn).Name()
	return strings.HasPrefix(n, "Render") || strings.HasPrefix(n, "render") || n == "layout" || n == "Get"
}

func hasNodeType(t types.Type, depth int) bool {
	if depth > 4 {
		return false
	}
	switch u := t.(type) {
	case *types.Pointer:
		if isNamed(u, "golang.org/x/net/html", "Node") {
			return true
		}
		return hasNodeType(u.Elem(), depth+1)
	case *types.Slice:
		return hasNodeType(u.Elem(), depth+1)
	case *types.Named:
		if u.Obj().Pkg() != nil && u.Obj().Pkg().Path() == "golang.org/x/net/html" && u.Obj().Name() == "Node" {
			return true
		}
		return false
	}
	return false
}

func init() {
	register(&Rule{
		ID: "C09.R1", Props: []string{"C09", "C17"}, Min: 10,
		Doc: "guarded-by: a field that lives next to a mutex and is accessed with that mutex held somewhere is accessed with it held everywhere (read or write mode for reads, write mode for map updates / reassignment), except in the constructor of a fresh object; must-lockset dataflow per function",
		Run: func(p *Prog, c *Ctx) {
			acc := p.collectSharedAccesses()
			guarded := map[string]bool{}
			for _, a := range acc {
				if a.held > 0 {
					guarded[a.owner+"."+a.field] = true
				}
			}
			n := map[string]int{}
			for _, a := range acc {
				id := a.owner + "." + a.field
				if !guarded[id] {
					continue // a field never accessed under the mutex is set-up state, not guarded by it
				}
				n[shortName(a.fn)+id+a.what]++
				key := fmt.Sprintf("%s: %s %s#%d", shortName(a.fn), id, a.what, n[shortName(a.fn)+id+a.what])
				switch {
				case a.fresh:
					c.ok(key, p.instrPos(a.at), "object under construction, not yet shared")
				case a.write && a.held < 2:
					c.fail(key, p.instrPos(a.at), fmt.Sprintf("%s of %s without the write lock (held mode %d): races with concurrent readers/writers of the same map", a.what, id, a.held))
				case !a.write && a.held < 1:
					c.fail(key, p.instrPos(a.at), fmt.Sprintf("%s of %s outside the critical section: a read concurrent with another goroutine's update", a.what, id))
				default:
					c.ok(key, p.instrPos(a.at), fmt.Sprintf("%s with the mutex held (mode %d)", a.what, a.held))
				}
			}
		},
	})

	register(&Rule{
		ID: "C09.R2", Props: []string{"C09", "C10", "C16", "C05", "C15", "C04", "C03", "C01"}, Min: 4,
		Doc: "shared parsed templates are read-only: values loaded from long-lived storage of DOM nodes / cached front-matter (cache entry fields, package-level node caches), and freshly parsed DOM from the point where it is published into that storage, are never written through — not by a field/element store, a map update, a mutating x/net/html method, nor inside any module function they are passed to; only private deep copies are modified",
		Run: func(p *Prog, c *Ctx) {
			t := newROTaint(p)
			seeds := 0
			longLived := func(st *types.Struct, owner string) bool {
				return false
			}
			_ = longLived
			// struct types stored (directly or as map/slice elements) in fields of engine objects or in globals
			stored := map[*types.Named]bool{}
			var visitT func(ty types.Type, d int)
			visitT = func(ty types.Type, d int) {
				if d > 4 {
					return
				}
				switch u := ty.(type) {
				case *types.Pointer:
					visitT(u.Elem(), d+1)
				case *types.Slice:
					visitT(u.Elem(), d+1)
				case *types.Map:
					visitT(u.Elem(), d+1)
				case *types.Named:
					if u.Obj().Pkg() != nil && strings.HasPrefix(u.Obj().Pkg().Path(), modPath) && !engineType(types.NewPointer(u)) {
						if _, ok := u.Underlying().(*types.Struct); ok {
							stored[u] = true
						}
					}
				}
			}
			for _, pk := range p.Pkgs {
				sc := pk.Types.Scope()
				for _, nm := range sc.Names() {
					switch o := sc.Lookup(nm).(type) {
					case *types.TypeName:
						if engineType(types.NewPointer(o.Type())) {
							if st, ok := o.Type().Underlying().(*types.Struct); ok {
								for i := 0; i < st.NumFields(); i++ {
									visitT(st.Field(i).Type(), 0)
								}
							}
						}
					}
				}
			}
			isSharedField := func(fv *types.Var, holder types.Type) bool {
				if fv == nil {
					return false
				}
				h := holder
				if pt, ok := h.Underlying().(*types.Pointer); ok {
					h = pt.Elem()
				}
				nt, ok := h.(*types.Named)
				if !ok || !stored[nt] {
					return false
				}
				if hasNodeType(fv.Type(), 0) {
					return true
				}
				if _, isMap := fv.Type().Underlying().(*types.Map); isMap {
					return true
				}
				return false
			}
			for _, fn := range p.Funcs {
				eachInstr(fn, func(in ssa.Instruction) {
					switch x := in.(type) {
					case *ssa.FieldAddr:
						fv := fieldVar(x)
						if !isSharedField(fv, x.X.Type()) {
							return
						}
						if refs := x.Referrers(); refs != nil {
							for _, r := range *refs {
								switch y := r.(type) {
								case *ssa.UnOp:
									if y.Op == token.MUL {
										t.seed(y, fmt.Sprintf("loaded from long-lived %s.%s at %s", typeShort(x.X.Type()), fv.Name(), p.instrPos(y)))
										seeds++
									}
								case *ssa.Store:
									if y.Addr == x && refOnly(y.Val.Type()) {
										// published: uses of the stored value after this point are uses of shared data
										if _, isC := y.Val.(*ssa.Const); !isC {
											t.after[y.Val] = y
											t.seed(y.Val, fmt.Sprintf("published into %s.%s at %s", typeShort(x.X.Type()), fv.Name(), p.instrPos(y)))
											seeds++
										}
									}
								}
							}
						}
					case *ssa.UnOp:
						// package-level node caches
						if g, ok := x.X.(*ssa.Global); ok && x.Op == token.MUL && hasNodeType(x.Type(), 0) && inModulePkg(g.Pkg) {
							t.seed(x, fmt.Sprintf("loaded from package-level %s at %s", g.Name(), p.instrPos(x)))
							seeds++
						}
					}
				})
			}
			t.run()
			for i := 0; i < seeds; i++ {
				// instances: one per seed; violations are reported separately
			}
			c.note("%d shared sources, %d tainted values, %d uses examined", seeds, len(t.why), t.uses)
			for v, why := range t.why {
				if prm, ok := v.(*ssa.Parameter); ok {
					c.ok(fmt.Sprintf("%s(%s) receives shared data", shortName(prm.Parent()), prm.Name()), p.pos(prm.Pos()), "no write through it in this function: "+shortWhy(why))
				}
			}
			for i := 0; i < seeds; i++ {
				c.ok(fmt.Sprintf("shared-source#%d", i+1), "-", "followed to all uses")
			}
			for _, vi := range t.viol {
				key := fmt.Sprintf("%s: %s", shortName(vi.at.Parent()), vi.what)
				c.fail(key, p.instrPos(vi.at), vi.what+" on data shared between renders: "+shortWhy(vi.why)+" — concurrent renders race here and the loaded template is modified by rendering")
			}
		},
	})

	register(&Rule{
		ID: "C09.R3", Props: []string{"C09", "C10"}, Min: 3,
		Doc: "caller-owned data is not written: the `data`/`vars` argument of a render entry (and the map toMapData may hand back for it) is never updated, and is never installed as a scope of the render's variable stack (Stack.Set writes into the innermost scope, which is the root map at top level)",
		Run: func(p *Prog, c *Ctx) {
			t := newROTaint(p)
			var entries []*ssa.Function
			for _, fn := range p.renderEntries() {
				entries = append(entries, fn)
			}
			n := 0
			for _, fn := range entries {
				for _, prm := range fn.Params {
					if types.IsInterface(prm.Type()) && !isWriterType(prm.Type()) && !isNamed(prm.Type(), "context", "Context") && !isNamed(prm.Type(), "io", "Reader") {
						t.seed(prm, fmt.Sprintf("the caller's %s passed to %s", prm.Name(), shortName(fn)))
						n++
					}
				}
			}
			t.run()
			// installing the caller's map as a scope
			for v, why := range t.why {
				if _, isMap := v.Type().Underlying().(*types.Map); !isMap {
					continue
				}
				if t.holder[v] {
					continue // a map of the engine's own that holds the caller's values: not the caller's map
				}
				if refs := v.Referrers(); refs != nil {
					for _, r := range *refs {
						if site, ok := r.(ssa.CallInstruction); ok {
							nm := calleeName(site.Common())
							if nm == "vuego.NewStackWithData" || nm == "vuego.NewStack" || nm == "(*vuego.Stack).Push" {
								args := site.Common().Args
								idx := 0
								if nm == "(*vuego.Stack).Push" {
									idx = 1
								}
								if idx < len(args) && args[idx] == v {
									t.violate(site, "the caller's map becomes a scope of the render stack via "+nm, v)
									_ = why
								}
							}
						}
					}
				}
			}
			for i := 0; i < n; i++ {
				c.ok(fmt.Sprintf("data-param#%d", i+1), "-", "followed to all uses")
			}
			for v, why := range t.why {
				if prm, ok := v.(*ssa.Parameter); ok {
					c.ok(fmt.Sprintf("%s(%s) receives caller data", shortName(prm.Parent()), prm.Name()), p.pos(prm.Pos()), shortWhy(why))
				}
			}
			for _, vi := range t.viol {
				// the deliberate root-struct fallback (Stack.rootData) only reads
				c.fail(fmt.Sprintf("%s: %s", shortName(vi.at.Parent()), vi.what), p.instrPos(vi.at), vi.what+": "+shortWhy(vi.why)+" — rendering modifies the caller's data; two requests sharing read-only data race")
			}
		},
	})

	register(&Rule{
		ID: "C09.R4", Props: []string{"C09", "C10"}, Min: 3,
		Doc: "no unsynchronised write to shared engine state inside the cone of the concurrent entry points: every store to a package-level variable or to a field (or map held in a field) of Vue/ExprEvaluator/Loader — and every call outside the module that is handed the address of a struct embedded in such an object (a pointer-receiver method of a stateful helper, e.g. a reused expr VM) — happens with a sibling mutex held in write mode, inside sync.Once.Do, or on a freshly allocated object",
		Run: func(p *Prog, c *Ctx) {
			cone := p.Cone(p.concurrentEntries()...)
			onceFns := map[*ssa.Function]bool{}
			for _, fn := range p.Funcs {
				for _, site := range callsIn(fn) {
					if isCall(site, "(*sync.Once).Do") && len(site.Common().Args) > 1 {
						if f := funcValue(site.Common().Args[1]); f != nil {
							walkFuncTree(f, func(g *ssa.Function) { onceFns[g] = true })
						}
					}
				}
			}
			examined := 0
			for _, fn := range sortedFuncs(cone) {
				facts := lockFacts(fn)
				eachInstr(fn, func(in ssa.Instruction) {
					var addr ssa.Value
					what := ""
					switch x := in.(type) {
					case *ssa.Store:
						addr, what = x.Addr, "store"
					case *ssa.MapUpdate:
						addr, what = x.Map, "map update"
					case ssa.CallInstruction:
						// the address of a struct that lives inside the shared object, handed to code outside
						// the module (typically as the receiver of a pointer method): that code may write it
						cc := x.Common()
						if callee := cc.StaticCallee(); callee != nil && inModule(callee) {
							return
						}
						for _, a := range cc.Args {
							fa, ok := a.(*ssa.FieldAddr)
							if !ok {
								continue
							}
							pt, ok := fa.Type().Underlying().(*types.Pointer)
							if !ok {
								continue
							}
							if _, isStruct := pt.Elem().Underlying().(*types.Struct); !isStruct {
								continue
							}
							if pk, _ := namedType(pt.Elem()); pk == "sync" || pk == "sync/atomic" {
								continue
							}
							addr, what = fa, "call of "+calleeName(cc)+" with the address of"
						}
						if addr == nil {
							return
						}
					default:
						return
					}
					path := accessPath(addr)
					root := path
					if i := strings.IndexAny(path, ".["); i >= 0 {
						root = path[:i]
					}
					shared := false
					desc := ""
					if strings.HasPrefix(root, "global:") {
						shared, desc = true, "package-level "+path
					} else if root == "param0" && len(fn.Params) > 0 && (engineType(fn.Params[0].Type()) || sharedTemplateMethod(fn)) && path != "param0" {
						shared, desc = true, typeShort(fn.Params[0].Type())+strings.TrimPrefix(path, "param0")
					} else if strings.HasPrefix(path, "param0.vue.") || strings.HasPrefix(path, "param0.loader.") || strings.HasPrefix(path, "param0.exprEval.") {
						shared, desc = true, "engine state "+path
					}
					if !shared {
						return
					}
					examined++
					if !strings.HasPrefix(what, "call ") {
						what += " to"
					}
					key := fmt.Sprintf("%s: %s %s", shortName(fn), what, desc)
					held := 0
					for k, v := range facts[in] {
						if strings.HasPrefix(string(k), root) && v > held {
							held = v
						}
					}
					switch {
					case held == 2:
						c.ok(key, p.instrPos(in), "write lock held")
					case onceFns[fn]:
						c.ok(key, p.instrPos(in), "inside sync.Once.Do")
					default:
						c.fail(key, p.instrPos(in), what+" "+desc+" is reachable from a concurrent entry point without a lock, Once or fresh object: two renders running at the same time use the same memory")
					}
				})
			}
			c.ok("cone", "-", fmt.Sprintf("%d functions reachable from %d concurrent entry points scanned; %d writes to shared engine state examined", len(cone), len(p.concurrentEntries()), examined))
			c.ok("entries", "-", fmt.Sprintf("%d concurrent entry points", len(p.concurrentEntries())))
		},
	})

	register(&Rule{
		ID: "C09.R6", Props: []string{"C09", "C16", "C11"}, Min: 4,
		Doc: "per-render state: the v-once `seen` set is only ever assigned a fresh map (in the context constructor) or the parent context's own set (include chain); no package-level or engine-level storage holds it; every render entry builds its context through that constructor, and nothing that already holds a render's context builds a second one",
		Run: func(p *Prog, c *Ctx) {
			root := p.PkgBy[modPath]
			var seenField *types.Var
			if o := root.Types.Scope().Lookup("VueContext"); o != nil {
				if st, ok := o.Type().Underlying().(*types.Struct); ok {
					for i := 0; i < st.NumFields(); i++ {
						if m, ok := st.Field(i).Type().Underlying().(*types.Map); ok {
							if b, ok := m.Elem().Underlying().(*types.Basic); ok && b.Kind() == types.Bool {
								seenField = st.Field(i)
							}
						}
					}
				}
			}
			if seenField == nil {
				undecided("VueContext has no map[..]bool field: the per-render seen set cannot be located")
			}
			for _, fn := range p.Funcs {
				eachInstr(fn, func(in ssa.Instruction) {
					st, ok := in.(*ssa.Store)
					if !ok || fieldVar(st.Addr) != seenField {
						return
					}
					okAll := true
					why := ""
					for _, o := range p.origins(st.Val, OriginOpts{}) {
						switch x := o.(type) {
						case *ssa.MakeMap:
							why = "fresh map"
						case *ssa.UnOp:
							if loadedField(x) == seenField {
								why = "copied from the parent context"
							} else {
								okAll = false
								why = "loaded from " + accessPath(x.X)
							}
						case *ssa.Field:
							if fieldVar(x) == seenField {
								why = "copied from the parent context"
							} else {
								okAll = false
							}
						case *ssa.Const:
							why = "nil"
						default:
							okAll = false
							why = "from " + describeValue(o)
						}
					}
					c.check(okAll, shortName(fn)+": seen :=", p.instrPos(st), why, "the per-render seen set is assigned from "+why+": v-once bookkeeping may be shared between renders")
				})
			}
			// a render's context lives as long as the render: it is not kept in a long-lived object or a package-level
			// variable (its seen set, processors and tag stack would be the next render's as well)
			kept := 0
			for _, fn := range p.Funcs {
				if p.Dropped[fn] {
					continue
				}
				eachInstr(fn, func(in ssa.Instruction) {
					st, ok := in.(*ssa.Store)
					if !ok {
						return
					}
					vt := st.Val.Type()
					if pt, ok := vt.(*types.Pointer); ok {
						vt = pt.Elem()
					}
					if _, nm := namedType(vt); nm != "VueContext" {
						return
					}
					where := ""
					switch a := st.Addr.(type) {
					case *ssa.Global:
						where = "package-level variable " + a.Name()
					case *ssa.FieldAddr:
						if _, isLocal := a.X.(*ssa.Alloc); isLocal {
							return
						}
						ht := a.X.Type()
						if pt, ok := ht.(*types.Pointer); ok {
							ht = pt.Elem()
						}
						if pkg, nm := namedType(ht); strings.HasPrefix(pkg, modPath) && nm != "VueContext" {
							where = "field " + fieldName(a.X.Type(), a.Field) + " of " + nm
						}
					}
					if where == "" {
						return
					}
					kept++
					c.fail(fmt.Sprintf("%s: a render context is kept in %s", shortName(fn), where), p.instrPos(st), "a VueContext is stored in "+where+": the v-once record (and the other per-render state) of one render is what the next render on the same object starts with — elements marked v-once are emitted in the first render only")
				})
			}
			if kept == 0 {
				c.ok("no render context is kept beyond its render", "-", "no store of a VueContext into a long-lived object or package-level variable")
			}
			// every entry that evaluates builds its context with the constructor
			ctor := p.MustFn("vuego.NewVueContext")
			// ... and the constructor always installs a fresh set (a nil set panics on the first v-once element of an included component)
			ctorSets := false
			eachInstr(ctor, func(in ssa.Instruction) {
				if st, ok := in.(*ssa.Store); ok && fieldVar(st.Addr) == seenField {
					if _, isMk := st.Val.(*ssa.MakeMap); isMk {
						unconditional := true
						for _, r := range returnsOf(ctor) {
							if !dominates(st, r) {
								unconditional = false
							}
						}
						ctorSets = unconditional
					}
				}
			})
			c.check(ctorSets, "NewVueContext: fresh seen set on every path", p.pos(ctor.Pos()), "seen: make(map…) unconditionally", "the context constructor does not always install a fresh seen set: a render whose own template has no v-once element passes a nil set down the include chain, and the first v-once element of a component panics (assignment to entry in nil map)")
			for _, fn := range p.Funcs {
				for _, site := range callsIn(fn) {
					if site.Common().StaticCallee() == ctor {
						// a function that is handed the context of the render in progress derives from it
						// (WithTemplate, a copy); building another one starts a second, empty seen set
						inRender := false
						for _, prm := range fn.Params {
							if _, nm := namedType(prm.Type()); nm == "VueContext" {
								inRender = true
							}
						}
						if inRender {
							// ... unless the running render's set is installed in the new context
							eachInstr(fn, func(in ssa.Instruction) {
								if st, ok := in.(*ssa.Store); ok && fieldVar(st.Addr) == seenField {
									for _, o := range p.origins(st.Val, OriginOpts{}) {
										if loadedField(o) == seenField {
											inRender = false
										} else if f, ok := o.(*ssa.Field); ok && fieldVar(f) == seenField {
											inRender = false
										}
									}
								}
							})
						}
						c.check(!inRender, shortName(fn)+": NewVueContext", p.instrPos(site), "context built by the constructor (fresh seen set) at a render entry", "a function that works inside a render in progress (it receives that render's context) builds a new context with the constructor: what is evaluated under it has its own, empty v-once record, so elements already emitted in this render are emitted again")
					}
				}
			}
		},
	})
}

func inModulePkg(pk *ssa.Package) bool {
	return pk != nil && strings.HasPrefix(pk.Pkg.Path(), modPath)
}
