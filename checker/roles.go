package main

import (
	"fmt"
	"go/constant"
	"go/token"
	"go/types"
	"regexp"
	"sort"
	"strings"

	"golang.org/x/tools/go/ssa"
)

// Roles: the rules name functions of the repository ("(*vuego.Vue).evaluate", "helpers.HasAttr").
// A behaviour-preserving rename of an unexported function must not turn a rule undecided or wrong, so
// every such name is a *role* with a fingerprint recorded from the pinned tree (roles_table.go):
// receiver + signature, the string constants in its body and its static callees. When a role's name
// is absent from the tree, the function with the same receiver and signature whose fingerprint is the
// closest (and clearly closer than the runner-up) takes the role; everything that prints or compares
// function names (shortName/calleeName) then uses the role's canonical name.

type roleFP struct {
	Recv   string
	Sig    string
	Consts []string
	Calls  []string
}

var canonicalName = map[*ssa.Function]string{}

func sigString(fn *ssa.Function) (recv, sig string) {
	q := func(p *types.Package) string { return p.Path() }
	if r := fn.Signature.Recv(); r != nil {
		recv = types.TypeString(r.Type(), q)
	}
	var ps, rs []string
	for i := 0; i < fn.Signature.Params().Len(); i++ {
		ps = append(ps, types.TypeString(fn.Signature.Params().At(i).Type(), q))
	}
	for i := 0; i < fn.Signature.Results().Len(); i++ {
		rs = append(rs, types.TypeString(fn.Signature.Results().At(i).Type(), q))
	}
	v := ""
	if fn.Signature.Variadic() {
		v = "..."
	}
	return recv, "(" + strings.Join(ps, ",") + v + ")(" + strings.Join(rs, ",") + ")"
}

func fingerprint(fn *ssa.Function, nameOf func(*ssa.Function) string) roleFP {
	return fingerprintExpanding(fn, nameOf, nil)
}

// fingerprintExpanding also looks into the static callees for which expand returns true (functions
// that are new since the pinned tree: code extracted from the candidate still counts as its own).
func fingerprintExpanding(fn *ssa.Function, nameOf func(*ssa.Function) string, expand func(*ssa.Function) bool) roleFP {
	recv, sig := sigString(fn)
	cs := map[string]bool{}
	calls := map[string]bool{}
	seenFn := map[*ssa.Function]bool{}
	var visitTree func(root *ssa.Function, depth int)
	visitTree = func(root *ssa.Function, depth int) {
		if seenFn[root] || depth > 3 {
			return
		}
		seenFn[root] = true
		fingerprintTree(root, nameOf, cs, calls, func(callee *ssa.Function) {
			if expand != nil && expand(callee) {
				delete(calls, nameOf(callee))
				visitTree(callee, depth+1)
			}
		})
	}
	visitTree(fn, 0)
	fp := roleFP{Recv: recv, Sig: sig}
	for s := range cs {
		fp.Consts = append(fp.Consts, s)
	}
	for s := range calls {
		fp.Calls = append(fp.Calls, s)
	}
	sort.Strings(fp.Consts)
	sort.Strings(fp.Calls)
	return fp
}

func fingerprintTree(fn *ssa.Function, nameOf func(*ssa.Function) string, cs, calls map[string]bool, onCallee func(*ssa.Function)) {
	walkFuncTree(fn, func(f *ssa.Function) {
		eachInstr(f, func(in ssa.Instruction) {
			for _, op := range in.Operands(nil) {
				if op == nil || *op == nil {
					continue
				}
				if c, ok := (*op).(*ssa.Const); ok && c.Value != nil && c.Value.Kind() == constant.String {
					s := constant.StringVal(c.Value)
					if len(s) >= 1 && len(s) <= 48 {
						cs[s] = true
					}
				}
			}
			if site, ok := in.(ssa.CallInstruction); ok {
				if callee := site.Common().StaticCallee(); callee != nil {
					calls[nameOf(callee)] = true
					if onCallee != nil {
						onCallee(callee)
					}
				} else if site.Common().IsInvoke() {
					calls["invoke:"+site.Common().Method.Name()] = true
				}
			}
			// a method value / function value of a new function (walker.visit passed around)
			for _, op := range in.Operands(nil) {
				if op != nil && *op != nil {
					if g, ok := (*op).(*ssa.Function); ok && onCallee != nil && g.Parent() == nil {
						onCallee(g)
					}
				}
			}
		})
	})
}

func jaccard(a, b []string) float64 {
	if len(a) == 0 && len(b) == 0 {
		return 1
	}
	set := map[string]int{}
	for _, x := range a {
		set[x] |= 1
	}
	for _, x := range b {
		set[x] |= 2
	}
	inter, union := 0, 0
	for _, v := range set {
		union++
		if v == 3 {
			inter++
		}
	}
	return float64(inter) / float64(union)
}

func rawShortName(fn *ssa.Function) string {
	s := fn.String()
	s = strings.ReplaceAll(s, modPath+"/internal/", "")
	s = strings.ReplaceAll(s, modPath+"/", "")
	s = strings.ReplaceAll(s, modPath, "vuego")
	return s
}

// resolveRoles binds every role whose name is missing to its best structural match.
// sigShape is a signature string with the names of the module's own types blanked out: a function whose
// parameter type was renamed (map[visit]bool -> map[pathEntry]bool) keeps its shape.
var moduleTypeRe = regexp.MustCompile(regexp.QuoteMeta(modPath) + `(/[A-Za-z0-9_/]+)?\.[A-Za-z_][A-Za-z0-9_]*`)

func sigShape(sig string) string {
	return moduleTypeRe.ReplaceAllStringFunc(sig, func(m string) string {
		return m[:strings.LastIndex(m, ".")] + ".T"
	})
}

func (p *Prog) resolveRoles() {
	taken := map[*ssa.Function]bool{}
	for _, fn := range p.Funcs {
		if _, isRole := roleTable[rawShortName(fn)]; isRole {
			taken[fn] = true
		}
	}
	var missing []string
	for name := range roleTable {
		if p.byName[name] == nil {
			missing = append(missing, name)
		}
	}
	sort.Strings(missing)
	// several passes: a role that calls another renamed role is recognised once that one is bound (its calls
	// then carry the canonical name, and the callee's constants are no longer counted as inlined into it)
	for pass := 0; pass < 3; pass++ {
		progress := false
		for _, name := range missing {
			if p.byName[name] != nil {
				continue
			}
			want := roleTable[name]
			// callees of the role that are gone as well may have been inlined into it: their constants and calls count as the role's
			{
				cs := map[string]bool{}
				calls := map[string]bool{}
				for _, c := range want.Consts {
					cs[c] = true
				}
				var add func(fp roleFP, depth int)
				add = func(fp roleFP, depth int) {
					for _, c := range fp.Calls {
						if c == name {
							continue // self-recursion says nothing
						}
						if sub, isRole := roleTable[c]; isRole && p.byName[c] == nil && depth < 2 {
							for _, k := range sub.Consts {
								cs[k] = true
							}
							add(sub, depth+1)
							continue
						}
						calls[c] = true
					}
				}
				add(want, 0)
				want.Consts, want.Calls = nil, nil
				for k := range cs {
					want.Consts = append(want.Consts, k)
				}
				for k := range calls {
					want.Calls = append(want.Calls, k)
				}
				sort.Strings(want.Consts)
				sort.Strings(want.Calls)
			}
			type cand struct {
				fn    *ssa.Function
				score float64
			}
			var cands []cand
			for _, fn := range p.Funcs {
				if taken[fn] || fn.Parent() != nil {
					continue
				}
				recv, sig := sigString(fn)
				if recv != want.Recv {
					continue
				}
				if sig != want.Sig && sigShape(sig) != sigShape(want.Sig) {
					// the same signature up to the names of module types (a renamed helper type in a parameter)
					continue
				}
				// same package as the role
				if pkgOfRole(name) != pkgOfRole(rawShortName(fn)) {
					continue
				}
				fp := fingerprintExpanding(fn, rawShortName, func(callee *ssa.Function) bool {
					if callee == nil || !inModule(callee) || len(callee.Blocks) == 0 {
						return false
					}
					root := callee
					for root.Parent() != nil {
						root = root.Parent()
					}
					if o := root.Origin(); o != nil {
						root = o
					}
					_, isRole := roleTable[rawShortName(root)]
					return !isRole
				})
				// calls of the candidate to itself say nothing either
				var candCalls []string
				for _, c := range fp.Calls {
					if c != rawShortName(fn) {
						candCalls = append(candCalls, c)
					}
				}
				score := 0.6*jaccard(fp.Consts, want.Consts) + 0.4*jaccard(candCalls, want.Calls)
				cands = append(cands, cand{fn, score})
			}
			sort.Slice(cands, func(i, j int) bool { return cands[i].score > cands[j].score })
			// a tie (a role split into mutually recursive pieces looks the same from each piece): the piece that the
			// role's former callers call now is the role
			if len(cands) > 1 && cands[0].score >= 0.45 && cands[0].score-cands[1].score < 0.15 {
				evidence := func(cand *ssa.Function) int {
					n := 0
					for caller, fp := range roleTable {
						cf := p.byName[caller]
						if cf == nil {
							continue
						}
						was := false
						for _, c := range fp.Calls {
							if c == name {
								was = true
							}
						}
						if !was {
							continue
						}
						walkFuncTree(cf, func(f *ssa.Function) {
							for _, site := range callsIn(f) {
								if site.Common().StaticCallee() == cand {
									n++
								}
							}
						})
					}
					return n
				}
				best, bestN, second := -1, 0, 0
				for i, cd := range cands {
					if cands[0].score-cd.score >= 0.15 {
						break
					}
					if e := evidence(cd.fn); e > bestN {
						best, second, bestN = i, bestN, e
					} else if e > second {
						second = e
					}
				}
				if best >= 0 && bestN > second {
					cands[0], cands[best] = cands[best], cands[0]
					cands[0].score += 0.2 // decided by caller evidence
				}
			}
			switch {
			case len(cands) == 1 && cands[0].score >= 0.3:
			case len(cands) > 1 && cands[0].score >= 0.45 && cands[0].score-cands[1].score >= 0.15:
			default:
				// the same function with another interface: a method that became a plain function taking what it read
				// from its receiver as a parameter (or the reverse) keeps its name — the single untaken function of that
				// name in the package whose body still looks like the role's is the role
				bare := name[strings.LastIndex(name, ".")+1:]
				var same []cand
				for _, fn := range p.Funcs {
					if taken[fn] || fn.Parent() != nil || fn.Name() != bare || pkgOfRole(name) != pkgOfRole(rawShortName(fn)) {
						continue
					}
					fp := fingerprint(fn, shortName)
					// a recursive role calls itself under its old name, the candidate under its new one
					noSelf := func(calls []string, self string) []string {
						var out []string
						for _, c := range calls {
							if c != self {
								out = append(out, c)
							}
						}
						return out
					}
					same = append(same, cand{fn, 0.6*jaccard(fp.Consts, want.Consts) + 0.4*jaccard(noSelf(fp.Calls, rawShortName(fn)), noSelf(want.Calls, name))})
				}
				if len(same) == 1 && same[0].score >= 0.5 {
					cands = same
					break
				}
				// renamed *and* given another interface (a result turned into a map the caller hands in): only a
				// body that is all but identical — and the only such one in the package — is taken for the role
				var alike []cand
				for _, fn := range p.Funcs {
					if taken[fn] || fn.Parent() != nil || pkgOfRole(name) != pkgOfRole(rawShortName(fn)) {
						continue
					}
					if _, isRole := roleTable[rawShortName(fn)]; isRole {
						continue
					}
					fp := fingerprint(fn, rawShortName)
					var calls []string
					for _, c := range fp.Calls {
						if c != rawShortName(fn) {
							calls = append(calls, c)
						}
					}
					if sc := 0.6*jaccard(fp.Consts, want.Consts) + 0.4*jaccard(calls, want.Calls); (sc >= 0.85 && len(want.Calls)+len(want.Consts) >= 6) || (sc >= 0.95 && len(want.Calls)+len(want.Consts) >= 4) {
						alike = append(alike, cand{fn, sc})
					}
				}
				if len(alike) == 1 {
					cands = alike
					break
				}
				continue // stays missing: the rules that need it report UNDECIDED
			}
			fn := cands[0].fn
			progress = true
			taken[fn] = true
			canonicalName[fn] = name
			p.byName[name] = fn
			p.Renamed = append(p.Renamed, fmt.Sprintf("%s is now %s (matched by signature and fingerprint, score %.2f)", name, rawShortName(fn), cands[0].score))
			// closures keep their parent's canonical prefix
			walkFuncTree(fn, func(f *ssa.Function) {
				if f != fn {
					canonicalName[f] = name + strings.TrimPrefix(rawShortName(f), rawShortName(fn))
					p.byName[canonicalName[f]] = f
				}
			})
		}
		if !progress {
			break
		}
	}
}

func pkgOfRole(name string) string {
	s := strings.TrimPrefix(name, "(*")
	s = strings.TrimPrefix(s, "(")
	if i := strings.Index(s, "."); i >= 0 {
		return s[:i]
	}
	return s
}

// transparentHelper lists functions of the current tree that are deliberately *not* roles: they are thin wrappers
// around a library call that many rules anchor on, and are replaced by their body wherever they are called (§6.8),
// so that those rules keep seeing the library call — together with the guard the wrapper puts in front of it.
var transparentHelper = map[string]bool{
	"helpers.Sprint":        true, // fmt.Sprint behind the cycle guard (repair 66)
	"helpers.TrimHTMLSpace": true, // strings.Trim(s, htmlSpace): called for node text and (repair 113) for attribute values — as one shared callee it would merge the two flows in the context-insensitive taint rules (C19.R1)
}

// genRoles prints roles_table.go for the given names from the loaded tree.
func (p *Prog) genRoles(names []string) string {
	var b strings.Builder
	b.WriteString("// Code generated by `vuegocheck -gen-roles` from the pinned tree; DO NOT EDIT.\n\npackage main\n\nvar roleTable = map[string]roleFP{\n")
	sort.Strings(names)
	for _, n := range names {
		fn := p.byName[n]
		if fn == nil || !inModule(fn) || fn.Parent() != nil || transparentHelper[n] {
			continue
		}
		if token.IsExported(fn.Name()) && fn.Signature.Recv() == nil {
			// exported package functions are API: a rename is not behaviour-preserving; still recorded for uniformity
		}
		fp := fingerprint(fn, rawShortName)
		fmt.Fprintf(&b, "\t%q: {Recv: %q, Sig: %q,\n\t\tConsts: %#v,\n\t\tCalls: %#v},\n", n, fp.Recv, fp.Sig, fp.Consts, fp.Calls)
	}
	b.WriteString("}\n")
	b.WriteString(p.genFields())
	return b.String()
}

// ---------- struct fields ----------

// fieldAlias maps a renamed unexported field of a module struct to the name it had in the pinned tree.
var fieldAlias = map[*types.Var]string{}

func fieldIs(fv *types.Var, name string) bool {
	if fv == nil {
		return false
	}
	if a, ok := fieldAlias[fv]; ok {
		return a == name
	}
	return fv.Name() == name
}

func canonFieldName(fv *types.Var) string {
	if a, ok := fieldAlias[fv]; ok {
		return a
	}
	return fv.Name()
}

func typeStringFull(t types.Type) string {
	return types.TypeString(t, func(p *types.Package) string { return p.Path() })
}

// typeAlias maps a renamed module struct type (package path + "." + new name) to the name it had in the
// pinned tree: a recorded struct type that is gone and exactly one new struct type of the same package
// whose fields have, in order, the same types.
var typeAlias = map[string]string{}

func (p *Prog) resolveTypeRenames() {
	for _, pk := range p.Pkgs {
		sc := pk.Types.Scope()
		prefix := pk.PkgPath + "."
		var gone []string
		for k := range fieldTable {
			if strings.HasPrefix(k, prefix) && !strings.Contains(k[len(prefix):], ".") && sc.Lookup(k[len(prefix):]) == nil {
				gone = append(gone, k[len(prefix):])
			}
		}
		sort.Strings(gone)
		for _, old := range gone {
			rec := fieldTable[prefix+old]
			var cands []*types.TypeName
			for _, nm := range sc.Names() {
				tn, ok := sc.Lookup(nm).(*types.TypeName)
				if !ok || tn.IsAlias() {
					continue
				}
				if _, known := fieldTable[prefix+nm]; known {
					continue
				}
				st, ok := tn.Type().Underlying().(*types.Struct)
				if !ok || st.NumFields() != len(rec) {
					continue
				}
				same := true
				for i := 0; i < st.NumFields(); i++ {
					// (a field whose type mentions the renamed type itself is spelled with the new name)
					if strings.ReplaceAll(typeStringFull(st.Field(i).Type()), prefix+nm, prefix+old) != rec[i][1] {
						same = false
					}
				}
				if same {
					cands = append(cands, tn)
				}
			}
			if len(cands) != 1 {
				continue
			}
			tn := cands[0]
			typeAlias[prefix+tn.Name()] = old
			p.Renamed = append(p.Renamed, fmt.Sprintf("type %s is now %s (the only new struct type with the same field types)", old, tn.Name()))
			st := tn.Type().Underlying().(*types.Struct)
			for i := 0; i < st.NumFields(); i++ {
				if st.Field(i).Name() != rec[i][0] {
					fieldAlias[st.Field(i)] = rec[i][0]
					p.Renamed = append(p.Renamed, fmt.Sprintf("field %s.%s is now %s.%s (same position and type)", old, rec[i][0], tn.Name(), st.Field(i).Name()))
				}
			}
		}
	}
}

// resolveFields binds fields whose recorded name is gone to the single new field of identical type.
func (p *Prog) resolveFields() {
	p.resolveTypeRenames()
	for _, pk := range p.Pkgs {
		sc := pk.Types.Scope()
		for _, nm := range sc.Names() {
			tn, ok := sc.Lookup(nm).(*types.TypeName)
			if !ok {
				continue
			}
			st, ok := tn.Type().Underlying().(*types.Struct)
			if !ok {
				continue
			}
			rec, ok := fieldTable[pk.PkgPath+"."+nm]
			if !ok {
				continue
			}
			have := map[string]*types.Var{}
			for i := 0; i < st.NumFields(); i++ {
				have[st.Field(i).Name()] = st.Field(i)
			}
			recorded := map[string]bool{}
			for _, r := range rec {
				recorded[r[0]] = true
			}
			for _, r := range rec {
				if have[r[0]] != nil {
					continue
				}
				var cands []*types.Var
				for i := 0; i < st.NumFields(); i++ {
					f := st.Field(i)
					if !recorded[f.Name()] && typeStringFull(f.Type()) == r[1] {
						cands = append(cands, f)
					}
				}
				if len(cands) == 1 {
					fieldAlias[cands[0]] = r[0]
					p.Renamed = append(p.Renamed, fmt.Sprintf("field %s.%s is now %s (the only new field of type %s)", nm, r[0], cands[0].Name(), r[1]))
				}
			}
		}
	}
}

func (p *Prog) genFields() string {
	var b strings.Builder
	b.WriteString("\nvar fieldTable = map[string][][2]string{\n")
	for _, pk := range p.Pkgs {
		sc := pk.Types.Scope()
		for _, nm := range sc.Names() {
			tn, ok := sc.Lookup(nm).(*types.TypeName)
			if !ok {
				continue
			}
			st, ok := tn.Type().Underlying().(*types.Struct)
			if !ok || st.NumFields() == 0 {
				continue
			}
			fmt.Fprintf(&b, "\t%q: {", pk.PkgPath+"."+nm)
			for i := 0; i < st.NumFields(); i++ {
				fmt.Fprintf(&b, "{%q, %q}, ", st.Field(i).Name(), typeStringFull(st.Field(i).Type()))
			}
			b.WriteString("},\n")
		}
	}
	b.WriteString("}\n")
	return b.String()
}

// ownerRole attributes a helper that is not itself a known role to the single role function that
// (transitively, through other non-role helpers) calls it — so that a construct moved into a helper
// extracted from a role keeps being reported under that role's name.
func (p *Prog) ownerRole(fn *ssa.Function) *ssa.Function {
	seen := map[*ssa.Function]bool{}
	var up func(f *ssa.Function, d int) map[*ssa.Function]bool
	up = func(f *ssa.Function, d int) map[*ssa.Function]bool {
		out := map[*ssa.Function]bool{}
		if f == nil || seen[f] || d > 4 {
			return out
		}
		seen[f] = true
		root := rootFunc(f)
		if _, isRole := roleTable[shortName(root)]; isRole {
			out[root] = true
			return out
		}
		callers := p.Callers(root)
		if len(callers) == 0 {
			out[root] = true
			return out
		}
		for _, cs := range callers {
			for o := range up(cs.Parent(), d+1) {
				out[o] = true
			}
		}
		return out
	}
	owners := up(fn, 0)
	if len(owners) == 1 {
		for o := range owners {
			return o
		}
	}
	return rootFunc(fn)
}

// ---------- roles that were inlined by hand and deleted ----------

// hostsOf returns the role's function, or — when the role is gone and could not be re-bound — the
// functions that called it in the pinned tree and still exist: a maintainer who deletes a small
// function inlines its body into exactly those. Rules that look for a construct "in role F" look in
// the hosts instead. The second result tells whether the role itself was found.
func (p *Prog) hostsOf(role string) ([]*ssa.Function, bool) {
	if f := p.byName[role]; f != nil {
		return []*ssa.Function{f}, true
	}
	var hosts []*ssa.Function
	var names []string
	for name, fp := range roleTable {
		for _, c := range fp.Calls {
			if c == rawRoleName(role) {
				names = append(names, name)
			}
		}
	}
	sort.Strings(names)
	seen := map[*ssa.Function]bool{}
	for _, n := range names {
		if f := p.byName[n]; f != nil {
			if !seen[f] {
				seen[f] = true
				hosts = append(hosts, f)
			}
			continue
		}
		// the former caller is gone as well (a chain of small functions merged into one): its former callers
		if n != role {
			up, _ := p.hostsOf(n)
			for _, f := range up {
				if !seen[f] {
					seen[f] = true
					hosts = append(hosts, f)
				}
			}
		}
	}
	return hosts, false
}

// rawRoleName converts a short role name to the raw form used inside the fingerprint table's call lists.
func rawRoleName(role string) string { return role }

// markersOf: when a role is gone, the calls that its body made and that its former host did not make
// itself stand for "the place where the role was": e.g. renderWithoutLayout → (*Vue).Render.
func (p *Prog) markersOf(role string, host *ssa.Function) []string {
	fp, ok := roleTable[role]
	if !ok {
		return nil
	}
	hostCalls := map[string]bool{}
	if hfp, ok := roleTable[shortName(host)]; ok {
		for _, c := range hfp.Calls {
			hostCalls[c] = true
		}
	}
	var out []string
	for _, c := range fp.Calls {
		if hostCalls[c] || strings.HasPrefix(c, "invoke:") {
			continue
		}
		if _, isRole := roleTable[c]; isRole {
			out = append(out, c)
		}
	}
	return out
}

// callsToRole: the call sites in fn that call the role — or, when the role was inlined by hand into fn
// and deleted, the calls that mark where its body went.
func (p *Prog) callsToRole(fn *ssa.Function, role string) []ssa.CallInstruction {
	var out []ssa.CallInstruction
	for _, site := range callsIn(fn) {
		if calleeName(site.Common()) == role {
			out = append(out, site)
		}
	}
	if len(out) > 0 || p.byName[role] != nil {
		return out
	}
	markers := map[string]bool{}
	for _, m := range p.markersOf(role, fn) {
		markers[m] = true
	}
	for _, site := range callsIn(fn) {
		if markers[calleeName(site.Common())] {
			out = append(out, site)
		}
	}
	return out
}
