package main

import (
	"fmt"
	"go/constant"
	"go/token"
	"go/types"
	"sort"
	"strings"

	"golang.org/x/tools/go/ssa"
)

// Roles: the rules name functions of the repository ("(*vuego.Vue).evaluate", "helpers.HasAttr").
// A behaviour-preserving rename of an unexported function must not turn a rule undecided or wrong, so
// every such name is a *role* with a fingerprint recorded from the pinned tree (roles_table.go):
// receiver + signature, the string constants in its body and its static callees. When a role's name
// is absent from the tree, the function with the same receiver and signature whose fingerprint is the
// closest (and clearly closer than the runner-up) takes the role; everything that prints or compares
// function names (shortName/calleeName) then uses the role's canonical name.

type roleFP struct {
	Recv   string
	Sig    string
	Consts []string
	Calls  []string
}

var canonicalName = map[*ssa.Function]string{}

func sigString(fn *ssa.Function) (recv, sig string) {
	q := func(p *types.Package) string { return p.Path() }
	if r := fn.Signature.Recv(); r != nil {
		recv = types.TypeString(r.Type(), q)
	}
	var ps, rs []string
	for i := 0; i < fn.Signature.Params().Len(); i++ {
		ps = append(ps, types.TypeString(fn.Signature.Params().At(i).Type(), q))
	}
	for i := 0; i < fn.Signature.Results().Len(); i++ {
		rs = append(rs, types.TypeString(fn.Signature.Results().At(i).Type(), q))
	}
	v := ""
	if fn.Signature.Variadic() {
		v = "..."
	}
	return recv, "(" + strings.Join(ps, ",") + v + ")(" + strings.Join(rs, ",") + ")"
}

func fingerprint(fn *ssa.Function, nameOf func(*ssa.Function) string) roleFP {
	recv, sig := sigString(fn)
	cs := map[string]bool{}
	calls := map[string]bool{}
	walkFuncTree(fn, func(f *ssa.Function) {
		eachInstr(f, func(in ssa.Instruction) {
			for _, op := range in.Operands(nil) {
				if op == nil || *op == nil {
					continue
				}
				if c, ok := (*op).(*ssa.Const); ok && c.Value != nil && c.Value.Kind() == constant.String {
					s := constant.StringVal(c.Value)
					if len(s) >= 1 && len(s) <= 48 {
						cs[s] = true
					}
				}
			}
			if site, ok := in.(ssa.CallInstruction); ok {
				if callee := site.Common().StaticCallee(); callee != nil {
					calls[nameOf(callee)] = true
				} else if site.Common().IsInvoke() {
					calls["invoke:"+site.Common().Method.Name()] = true
				}
			}
		})
	})
	fp := roleFP{Recv: recv, Sig: sig}
	for s := range cs {
		fp.Consts = append(fp.Consts, s)
	}
	for s := range calls {
		fp.Calls = append(fp.Calls, s)
	}
	sort.Strings(fp.Consts)
	sort.Strings(fp.Calls)
	return fp
}

func jaccard(a, b []string) float64 {
	if len(a) == 0 && len(b) == 0 {
		return 1
	}
	set := map[string]int{}
	for _, x := range a {
		set[x] |= 1
	}
	for _, x := range b {
		set[x] |= 2
	}
	inter, union := 0, 0
	for _, v := range set {
		union++
		if v == 3 {
			inter++
		}
	}
	return float64(inter) / float64(union)
}

func rawShortName(fn *ssa.Function) string {
	s := fn.String()
	s = strings.ReplaceAll(s, modPath+"/internal/", "")
	s = strings.ReplaceAll(s, modPath+"/", "")
	s = strings.ReplaceAll(s, modPath, "vuego")
	return s
}

// resolveRoles binds every role whose name is missing to its best structural match.
func (p *Prog) resolveRoles() {
	taken := map[*ssa.Function]bool{}
	for _, fn := range p.Funcs {
		if _, isRole := roleTable[rawShortName(fn)]; isRole {
			taken[fn] = true
		}
	}
	var missing []string
	for name := range roleTable {
		if p.byName[name] == nil {
			missing = append(missing, name)
		}
	}
	sort.Strings(missing)
	for _, name := range missing {
		want := roleTable[name]
		type cand struct {
			fn    *ssa.Function
			score float64
		}
		var cands []cand
		for _, fn := range p.Funcs {
			if taken[fn] || fn.Parent() != nil {
				continue
			}
			recv, sig := sigString(fn)
			if recv != want.Recv || sig != want.Sig {
				continue
			}
			// same package as the role
			if pkgOfRole(name) != pkgOfRole(rawShortName(fn)) {
				continue
			}
			fp := fingerprint(fn, rawShortName)
			score := 0.6*jaccard(fp.Consts, want.Consts) + 0.4*jaccard(fp.Calls, want.Calls)
			cands = append(cands, cand{fn, score})
		}
		sort.Slice(cands, func(i, j int) bool { return cands[i].score > cands[j].score })
		switch {
		case len(cands) == 1 && cands[0].score >= 0.3:
		case len(cands) > 1 && cands[0].score >= 0.45 && cands[0].score-cands[1].score >= 0.15:
		default:
			continue // stays missing: the rules that need it report UNDECIDED
		}
		fn := cands[0].fn
		taken[fn] = true
		canonicalName[fn] = name
		p.byName[name] = fn
		p.Renamed = append(p.Renamed, fmt.Sprintf("%s is now %s (matched by signature and fingerprint, score %.2f)", name, rawShortName(fn), cands[0].score))
		// closures keep their parent's canonical prefix
		walkFuncTree(fn, func(f *ssa.Function) {
			if f != fn {
				canonicalName[f] = name + strings.TrimPrefix(rawShortName(f), rawShortName(fn))
				p.byName[canonicalName[f]] = f
			}
		})
	}
}

func pkgOfRole(name string) string {
	s := strings.TrimPrefix(name, "(*")
	s = strings.TrimPrefix(s, "(")
	if i := strings.Index(s, "."); i >= 0 {
		return s[:i]
	}
	return s
}

// genRoles prints roles_table.go for the given names from the loaded tree.
func (p *Prog) genRoles(names []string) string {
	var b strings.Builder
	b.WriteString("// Code generated by `vuegocheck -gen-roles` from the pinned tree; DO NOT EDIT.\n\npackage main\n\nvar roleTable = map[string]roleFP{\n")
	sort.Strings(names)
	for _, n := range names {
		fn := p.byName[n]
		if fn == nil || !inModule(fn) || fn.Parent() != nil {
			continue
		}
		if token.IsExported(fn.Name()) && fn.Signature.Recv() == nil {
			// exported package functions are API: a rename is not behaviour-preserving; still recorded for uniformity
		}
		fp := fingerprint(fn, rawShortName)
		fmt.Fprintf(&b, "\t%q: {Recv: %q, Sig: %q,\n\t\tConsts: %#v,\n\t\tCalls: %#v},\n", n, fp.Recv, fp.Sig, fp.Consts, fp.Calls)
	}
	b.WriteString("}\n")
	return b.String()
}
