package main

import (
	"fmt"
	"go/token"
	"go/types"
	"strings"

	"golang.org/x/tools/go/ssa"
)

// ---- shared: which io.Writer parameters may be the caller's destination writer ----

type paramKey struct {
	fn  *ssa.Function
	idx int
}

func isWriterType(t types.Type) bool {
	n, ok := t.(*types.Named)
	return ok && n.Obj().Pkg() != nil && n.Obj().Pkg().Path() == "io" && n.Obj().Name() == "Writer"
}

// renderEntries returns the exported functions/methods of the root package that take an io.Writer
// and return an error: the public render surface.
func (p *Prog) renderEntries() []*ssa.Function {
	var out []*ssa.Function
	for _, fn := range p.Funcs {
		pk := funcPkg(fn)
		if pk == nil || fn.Parent() != nil {
			continue
		}
		// the engine's own render surface (the properties speak of the Template / Vue render methods; the Markdown
		// renderer streams node by node by design and is not covered by the all-or-nothing claim)
		if pk.Path() != modPath {
			continue
		}
		if !token.IsExported(fn.Name()) {
			continue
		}
		hasW := false
		for _, prm := range fn.Params {
			if isWriterType(prm.Type()) {
				hasW = true
			}
		}
		res := fn.Signature.Results()
		if hasW && res.Len() > 0 && isErrorType(res.At(res.Len()-1).Type()) {
			out = append(out, fn)
		}
	}
	return out
}

// destTaint computes the set of (function, parameter) pairs that may hold an entry point's
// destination writer, by propagating from the entries' io.Writer parameters along call edges.
func (p *Prog) destTaint() map[paramKey]bool {
	d := map[paramKey]bool{}
	var work []paramKey
	add := func(k paramKey) {
		if !d[k] {
			d[k] = true
			work = append(work, k)
		}
	}
	for _, fn := range p.renderEntries() {
		for i, prm := range fn.Params {
			if isWriterType(prm.Type()) {
				add(paramKey{fn, i})
			}
		}
	}
	for len(work) > 0 {
		k := work[len(work)-1]
		work = work[:len(work)-1]
		prm := k.fn.Params[k.idx]
		for _, site := range callsIn(k.fn) {
			cc := site.Common()
			args := callArgs(cc)
			for ai, a := range args {
				if !p.valueFromParam(a, prm) {
					continue
				}
				for _, callee := range p.Callees(site) {
					if !inModule(callee) || len(callee.Blocks) == 0 {
						continue
					}
					// map argument index to callee parameter index (receiver is Params[0] for methods)
					pi := ai
					if pi < len(callee.Params) {
						add(paramKey{callee, pi})
					}
				}
			}
		}
	}
	return d
}

func (p *Prog) valueFromParam(v ssa.Value, prm *ssa.Parameter) bool {
	return p.valueFromParamDepth(v, prm, 0)
}

// valueFromParamDepth also sees through wrappers: a struct (literal) one of whose fields holds the
// parameter — `escapeWriter{w}`, `&countingWriter{dst: w}`, bufio.NewWriter(w) — is the parameter
// for the purpose of "who receives the destination".
func (p *Prog) valueFromParamDepth(v ssa.Value, prm *ssa.Parameter, depth int) bool {
	if depth > 3 {
		return false
	}
	for _, o := range p.origins(v, OriginOpts{}) {
		if o == prm {
			return true
		}
		var obj *ssa.Alloc
		switch x := o.(type) {
		case *ssa.Alloc:
			obj = x
		case *ssa.UnOp:
			if a, ok := x.X.(*ssa.Alloc); ok && x.Op == token.MUL {
				obj = a
			}
		}
		if obj == nil || obj.Referrers() == nil {
			continue
		}
		for _, u := range *obj.Referrers() {
			fa, ok := u.(*ssa.FieldAddr)
			if !ok {
				continue
			}
			for _, uu := range *fa.Referrers() {
				if st, ok := uu.(*ssa.Store); ok && st.Addr == ssa.Value(fa) && p.valueFromParamDepth(st.Val, prm, depth+1) {
					return true
				}
			}
		}
	}
	return false
}

// destArg returns the tainted destination parameter a call receives, if any.
func (p *Prog) destArg(site ssa.CallInstruction, d map[paramKey]bool) *ssa.Parameter {
	fn := site.Parent()
	for _, a := range callArgs(site.Common()) {
		for _, o := range p.origins(a, OriginOpts{}) {
			if prm, ok := o.(*ssa.Parameter); ok && prm.Parent() == fn {
				for i, q := range fn.Params {
					if q == prm && d[paramKey{fn, i}] {
						return prm
					}
				}
			}
		}
	}
	return nil
}

// isTemplateMethod reports whether fn is a method of the type implementing the Template interface.
func (p *Prog) isTemplateMethod(fn *ssa.Function) bool {
	recv := fn.Signature.Recv()
	if recv == nil {
		return false
	}
	root := p.PkgBy[modPath]
	if root == nil {
		return false
	}
	obj := root.Types.Scope().Lookup("Template")
	if obj == nil {
		undecided("interface Template not found in the root package")
	}
	iface, ok := obj.Type().Underlying().(*types.Interface)
	if !ok {
		undecided("Template is not an interface")
	}
	return types.Implements(recv.Type(), iface)
}

func returnsError(c *ssa.CallCommon) bool {
	res := c.Signature().Results()
	for i := 0; i < res.Len(); i++ {
		if isErrorType(res.At(i).Type()) {
			return true
		}
	}
	return false
}

// errorPropagated reports whether the error result of the call reaches the function's return:
// directly, through a phi/cell, or wrapped by a call (fmt.Errorf) whose result is returned;
// or is tested against nil with the non-nil edge leading to a return of a non-nil error.
func errorPropagated(call ssa.CallInstruction) (bool, string) {
	vals, has := errorResultOf(call)
	if !has {
		return false, "the call has no error result to return"
	}
	if len(vals) == 0 {
		return false, "the error result is discarded (no instruction consumes it)"
	}
	fnRes := call.Parent().Signature.Results()
	if fnRes.Len() == 0 || !isErrorType(fnRes.At(fnRes.Len()-1).Type()) {
		return false, "the enclosing function has no error result"
	}
	for _, v := range vals {
		if errReaches(v, map[ssa.Value]bool{}) {
			return true, ""
		}
	}
	return false, "the error result never reaches a return of the enclosing function"
}

func errReaches(v ssa.Value, seen map[ssa.Value]bool) bool {
	return flowsTo(v, func(u ssa.Instruction, via ssa.Value) bool {
		switch x := u.(type) {
		case *ssa.Return:
			return true
		case *ssa.Call:
			// wrapped: fmt.Errorf("...%w", err) and similar; result must itself be propagated
			if seen[x] {
				return false
			}
			seen[x] = true
			if isErrorType(x.Type()) || x.Type().String() == "error" {
				return errReaches(x, seen)
			}
			// a helper that hands the error back among several results (`return failed(err)` with
			// failed := func(err error) (T, U, error) { …; return nil, nil, err })
			if _, isTuple := x.Type().(*types.Tuple); isTuple && x.Referrers() != nil {
				for _, r := range *x.Referrers() {
					if ex, ok := r.(*ssa.Extract); ok && isErrorType(ex.Type()) && !seen[ex] {
						seen[ex] = true
						if errReaches(ex, seen) {
							return true
						}
					}
				}
			}
		case *ssa.Store:
			// parked in a field of a local struct (a `sticky error` helper whose methods were inlined here):
			// it is propagated if that field of that very object is read again and the value read is
			if fa, ok := x.Addr.(*ssa.FieldAddr); ok && x.Val == via {
				if al, ok := fa.X.(*ssa.Alloc); ok && al.Referrers() != nil {
					for _, r := range *al.Referrers() {
						fb, ok := r.(*ssa.FieldAddr)
						if !ok || fb.Field != fa.Field || fb.Referrers() == nil {
							continue
						}
						for _, rr := range *fb.Referrers() {
							if ld, ok := rr.(*ssa.UnOp); ok && ld.Op == token.MUL && !seen[ld] {
								seen[ld] = true
								if errReaches(ld, seen) {
									return true
								}
							}
						}
					}
				}
			}
			// variadic packing: err stored into the backing array of a slice passed to a call
			if ia, ok := x.Addr.(*ssa.IndexAddr); ok {
				if al, ok := ia.X.(*ssa.Alloc); ok {
					if refs := al.Referrers(); refs != nil {
						for _, r := range *refs {
							if sl, ok := r.(*ssa.Slice); ok && !seen[sl] {
								seen[sl] = true
								if errReaches(sl, seen) {
									return true
								}
							}
						}
					}
				}
			}
		case *ssa.BinOp:
			// err != nil guarding a return of some non-nil error
			if (x.Op == token.NEQ || x.Op == token.EQL) && (isNilConst(x.X) || isNilConst(x.Y)) {
				if refs := x.Referrers(); refs != nil {
					for _, r := range *refs {
						ifi, ok := r.(*ssa.If)
						if !ok {
							continue
						}
						succ := ifi.Block().Succs[0]
						if x.Op == token.EQL {
							succ = ifi.Block().Succs[1]
						}
						// the non-nil edge must return an error made right there (errors.New / fmt.Errorf) —
						// continuing with other work and returning *its* error is a swallowed error
						if blockReturnsFreshError(succ) {
							return true
						}
					}
				}
			}
		}
		return false
	})
}

// blockReturnsFreshError: the block ends in a return whose error result is constructed in this very
// block by errors.New / fmt.Errorf (or a module constructor), with no other fallible work in between.
func blockReturnsFreshError(b *ssa.BasicBlock) bool {
	if len(b.Instrs) == 0 {
		return false
	}
	r, ok := b.Instrs[len(b.Instrs)-1].(*ssa.Return)
	if !ok || len(r.Results) == 0 {
		return false
	}
	last := r.Results[len(r.Results)-1]
	if !isErrorType(last.Type()) || isNilConst(last) {
		return false
	}
	v := last
	if mi, ok := v.(*ssa.MakeInterface); ok {
		v = mi.X
	}
	cl, ok := v.(*ssa.Call)
	if !ok || cl.Block() != b {
		// a pre-declared sentinel error (global) is fine as well
		if ld, ok := v.(*ssa.UnOp); ok {
			if _, isG := ld.X.(*ssa.Global); isG {
				return true
			}
		}
		return false
	}
	n := calleeName(&cl.Call)
	return n == "fmt.Errorf" || n == "errors.New" || strings.HasPrefix(n, "errors.")
}

func blockReturnsNonNilError(b *ssa.BasicBlock) bool {
	if len(b.Instrs) == 0 {
		return false
	}
	r, ok := b.Instrs[len(b.Instrs)-1].(*ssa.Return)
	if !ok || len(r.Results) == 0 {
		return false
	}
	last := r.Results[len(r.Results)-1]
	return isErrorType(last.Type()) && !isNilConst(last)
}

func init() {
	register(&Rule{
		ID: "C12.R1", Props: []string{"C12", "C07"}, Min: 20, Local: true, // the flow of one call's error result inside one function, local helper structs included (errReaches)
		Doc: "every call that receives the destination writer (Write, io.WriteString, io.Copy, WriteTo, Fprint*, or a module function handed the writer) propagates its error result to the enclosing function's error return, all the way up to the render entry",
		Run: func(p *Prog, c *Ctx) {
			d := p.destTaint()
			n := map[string]int{}
			for _, fn := range p.Funcs {
				for _, site := range callsIn(fn) {
					prm := p.destArg(site, d)
					if prm == nil {
						continue
					}
					cc := site.Common()
					name := calleeName(cc)
					if !returnsError(cc) {
						// a helper that takes the writer but cannot report failure: only fine if it never writes
						if callee := cc.StaticCallee(); callee != nil && inModule(callee) {
							continue // its own writes are obligations of their own
						}
						if strings.HasPrefix(name, "builtin.") {
							continue
						}
						// e.g. (*bufio.Writer) constructors; not a write
						continue
					}
					n[shortName(fn)+"→"+name]++
					key := fmt.Sprintf("%s: %s(%s)#%d", shortName(fn), name, prm.Name(), n[shortName(fn)+"→"+name])
					ok, why := errorPropagated(site)
					c.check(ok, key, p.instrPos(site), "error result reaches the return", "write to the destination drops its error: "+why+"; a failing writer would yield a nil error")
				}
			}
		},
	})

	register(&Rule{
		ID: "C12.R2", Props: []string{"C12"}, Min: 8,
		Doc: "evaluate completely, then write: in every function holding the destination writer no fallible non-write call is reachable after the first call that may write; functions called repeatedly with the writer contain no fallible call other than writes",
		Run: func(p *Prog, c *Ctx) {
			d := p.destTaint()
			holders := map[*ssa.Function]bool{}
			for k := range d {
				holders[k.fn] = true
			}
			// pureWriter: every error-returning call inside receives the writer and (if a module function) is itself a pure writer.
			memo := map[*ssa.Function]int{} // 0 unknown, 1 in progress/true, 2 false
			var pure func(fn *ssa.Function) bool
			pure = func(fn *ssa.Function) bool {
				switch memo[fn] {
				case 1:
					return true
				case 2:
					return false
				}
				memo[fn] = 1
				for _, site := range callsIn(fn) {
					cc := site.Common()
					if !returnsError(cc) {
						continue
					}
					if p.destArg(site, d) == nil {
						memo[fn] = 2
						return false
					}
					for _, callee := range p.Callees(site) {
						if inModule(callee) && len(callee.Blocks) > 0 && !pure(callee) {
							memo[fn] = 2
							return false
						}
					}
				}
				return true
			}
			for _, fn := range sortedFuncs(holders) {
				var writes []ssa.CallInstruction
				for _, site := range callsIn(fn) {
					if p.destArg(site, d) != nil {
						writes = append(writes, site)
					}
				}
				if len(writes) == 0 {
					continue
				}
				bad := ""
				var badPos ssa.Instruction
				for _, w := range writes {
					// a non-pure module callee must not be re-entered after a write (loops)
					for _, site := range callsIn(fn) {
						cc := site.Common()
						if !returnsError(cc) || !canFollow(w, site) {
							continue
						}
						if p.destArg(site, d) == nil {
							if isCall(site, "context.Context.Err") {
								// a cancellation that is noticed after the write must not turn into an error either
								if call, ok := site.(*ssa.Call); !ok || !errReaches(call, map[ssa.Value]bool{}) {
									continue
								}
							}
							bad = fmt.Sprintf("fallible call %s may run after the destination was written by %s", calleeName(cc), calleeName(w.Common()))
							badPos = site
							break
						}
						for _, callee := range p.Callees(site) {
							if inModule(callee) && len(callee.Blocks) > 0 && !pure(callee) {
								bad = fmt.Sprintf("%s evaluates (contains fallible non-write calls) and may run after the destination was written by %s", shortName(callee), calleeName(w.Common()))
								badPos = site
							}
						}
						if bad != "" {
							break
						}
					}
					if bad != "" {
						break
					}
				}
				key := shortName(fn)
				if bad == "" {
					c.ok(key, p.pos(fn.Pos()), fmt.Sprintf("%d writer-holding calls; nothing fallible other than writes follows the first", len(writes)))
				} else {
					c.fail(key, p.instrPos(badPos), bad+": an error after that point leaves partial output behind")
				}
			}
		},
	})

	register(&Rule{
		ID: "C12.R3", Props: []string{"C12"}, Min: 5,
		Doc: "every Template render entry polls ctx.Err() and returns it before any call that may write to the destination (directly or in the callee it delegates to)",
		Run: func(p *Prog, c *Ctx) {
			d := p.destTaint()
			memo := map[*ssa.Function]string{}
			var polled func(fn *ssa.Function, depth int) string // "" = ok, else reason
			polled = func(fn *ssa.Function, depth int) string {
				if r, ok := memo[fn]; ok {
					return r
				}
				memo[fn] = ""
				if _, opaque := p.opaqueAt(p.pos(fn.Pos())); opaque {
					// its own obligation is withdrawn (opaque.go); callers that delegate to it are not blamed for it
					return ""
				}
				var ctxParam *ssa.Parameter
				for _, prm := range fn.Params {
					if isNamed(prm.Type(), "context", "Context") {
						ctxParam = prm
					}
				}
				if ctxParam == nil {
					memo[fn] = "no context parameter"
					return memo[fn]
				}
				var polls []ssa.Instruction
				for _, site := range callsIn(fn) {
					if isCall(site, "context.Context.Err") && p.valueFromParam(site.Common().Value, ctxParam) {
						if call, ok := site.(*ssa.Call); ok && errReaches(call, map[ssa.Value]bool{}) {
							polls = append(polls, site)
						}
					}
				}
				for _, site := range callsIn(fn) {
					if p.destArg(site, d) == nil {
						continue
					}
					dominated := false
					for _, pl := range polls {
						if dominates(pl, site) {
							dominated = true
						}
					}
					if dominated {
						continue
					}
					// delegation: the callee receives ctx and polls itself
					deleg := false
					if depth < 6 {
						callees := p.Callees(site)
						deleg = len(callees) > 0
						for _, callee := range callees {
							if !inModule(callee) || polled(callee, depth+1) != "" {
								deleg = false
							}
						}
					}
					if !deleg {
						memo[fn] = fmt.Sprintf("call %s at %s may write before cancellation is polled", calleeName(site.Common()), p.instrPos(site))
						return memo[fn]
					}
				}
				return ""
			}
			for _, fn := range p.renderEntries() {
				if !p.isTemplateMethod(fn) {
					continue // the property speaks of the Template render methods
				}
				hasCtx := false
				for _, prm := range fn.Params {
					if isNamed(prm.Type(), "context", "Context") {
						hasCtx = true
					}
				}
				if !hasCtx {
					continue
				}
				r := polled(fn, 0)
				c.check(r == "", shortName(fn), p.pos(fn.Pos()), "ctx.Err() is tested and returned before the first possible write", r)
			}
		},
	})
}
