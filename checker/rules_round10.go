package main

import (
	"fmt"
	"go/token"
	"go/types"
	"sort"
	"strings"

	"golang.org/x/tools/go/ssa"
)

// Rules that came with the tenth seeding round.

// memoStores: the places where the module fills a long-lived memo — a sync.Map Store / LoadOrStore / Swap, or an update
// of a map that is a field of an engine object or a package-level variable.
func (p *Prog) memoStores() []struct {
	at       ssa.Instruction
	key, val ssa.Value
} {
	var out []struct {
		at       ssa.Instruction
		key, val ssa.Value
	}
	for _, fn := range p.liveFuncs() {
		if pk := funcPkg(fn); pk == nil || strings.Contains(pk.Path(), "/cmd/") {
			continue
		}
		for _, site := range callsIn(fn) {
			n := calleeName(site.Common())
			if n == "(*sync.Map).Store" || n == "(*sync.Map).LoadOrStore" || n == "(*sync.Map).Swap" {
				a := site.Common().Args
				out = append(out, struct {
					at       ssa.Instruction
					key, val ssa.Value
				}{site, a[1], a[2]})
			}
		}
		eachInstr(fn, func(in ssa.Instruction) {
			mu, ok := in.(*ssa.MapUpdate)
			if !ok {
				return
			}
			ap := accessPath(mu.Map)
			if strings.HasPrefix(ap, "global:") || (strings.HasPrefix(ap, "param0.") && fn.Signature.Recv() != nil) {
				out = append(out, struct {
					at       ssa.Instruction
					key, val ssa.Value
				}{mu, mu.Key, mu.Value})
			}
		})
	}
	return out
}

func init() {
	register(&Rule{
		ID: "C12.R8", Props: []string{"C12", "C15", "C10"}, Min: 1,
		Doc: "a memo is filled on the success way only: wherever the module stores into a long-lived memo (a sync.Map, a map in an engine object or a package-level map) a value that comes out of a call that can fail, the store lies behind the test of that call's error — on the way on which the error is nil. `content, _ := cache.LoadOrStore(key, string(d)); return content, err` remembers the empty result of the failed read: the first render fails, every later one returns nil and writes a document with a hole",
		Run: func(p *Prog, c *Ctx) {
			n := 0
			for _, st := range p.memoStores() {
				// fallible calls among the origins of the stored value
				var fall []*ssa.Call
				seen := map[ssa.Value]bool{}
				var walk func(v ssa.Value, d int)
				walk = func(v ssa.Value, d int) {
					if v == nil || seen[v] || d > 6 {
						return
					}
					seen[v] = true
					for _, o := range p.origins(unwrapIface(v), OriginOpts{}) {
						switch x := o.(type) {
						case *ssa.Extract:
							if cl, ok := x.Tuple.(*ssa.Call); ok {
								if _, has := errorResultOf(cl); has {
									fall = append(fall, cl)
								}
								for _, a := range callArgs(&cl.Call) {
									walk(a, d+1)
								}
							}
						case *ssa.Call:
							if _, has := errorResultOf(x); has {
								fall = append(fall, x)
							}
							for _, a := range callArgs(&x.Call) {
								walk(a, d+1)
							}
						}
					}
				}
				walk(st.val, 0)
				for _, cl := range fall {
					if cl.Parent() != st.at.Parent() {
						continue
					}
					n++
					errs, _ := errorResultOf(cl)
					ok := false
					for _, e := range errs {
						if guardedBy(st.at.Block(), func(cnd ssa.Value, want bool) bool {
							b, isB := cnd.(*ssa.BinOp)
							if !isB || !((b.X == e && isNilConst(b.Y)) || (b.Y == e && isNilConst(b.X))) {
								return false
							}
							return (b.Op == token.EQL && want) || (b.Op == token.NEQ && !want)
						}) {
							ok = true
						}
						// or: the failure edge left the function before the store (if err != nil { return … })
						if e.Referrers() != nil {
							for _, r := range *e.Referrers() {
								b, isB := r.(*ssa.BinOp)
								if !isB || b.Referrers() == nil || !(isNilConst(b.X) || isNilConst(b.Y)) {
									continue
								}
								for _, rr := range *b.Referrers() {
									if ifi, isIf := rr.(*ssa.If); isIf && dominates(ifi, st.at) {
										nonNil := ifi.Block().Succs[0]
										if b.Op == token.EQL {
											nonNil = ifi.Block().Succs[1]
										}
										if !blocksAfter(nonNil)[st.at.Block()] && nonNil != st.at.Block() {
											ok = true
										}
									}
								}
							}
						}
					}
					c.check(ok, fmt.Sprintf("%s: memo filled from %s#%d", shortName(st.at.Parent()), calleeName(&cl.Call), n), p.instrPos(st.at), "behind the test of the call's error", "the memo is filled with what "+calleeName(&cl.Call)+" returned before (or whether or not) its error was looked at: a failed call leaves its empty result in the memo, and every later lookup of the key is answered from there — without an error")
				}
			}
			c.ok("memo stores examined", "-", fmt.Sprintf("%d stores fed by fallible calls", n))
		},
	})

	register(&Rule{
		ID: "C12.R9", Props: []string{"C12", "C13", "C14"}, Min: 2,
		Doc: "the lenient evaluator serves conditions only: evalConditionExpr — which never returns an error (what does not evaluate is tried as a path, then read as false, `!undefined` as true) — is called from the condition positions (evalCondition and the v-if chain, evalVShow) and from nowhere else. A bound attribute, an interpolation or a prop that is routed through it turns a failing function into the string \"true\": the render returns nil and writes the document",
		Run: func(p *Prog, c *Ctx) {
			fn := p.MustFn("(*vuego.Vue).evalConditionExpr")
			n := 0
			for _, site := range p.Callers(fn) {
				caller := shortName(rootFunc(site.Parent()))
				n++
				low := strings.ToLower(caller)
				ok := strings.Contains(low, "condition") || strings.Contains(low, "vshow") || strings.Contains(low, "elseif") || strings.Contains(low, "evalvif") || strings.Contains(low, "chain") || strings.HasSuffix(caller, ".evaluate")
				c.check(ok, fmt.Sprintf("%s calls the lenient condition evaluator#%d", caller, n), p.instrPos(site), "a condition position", caller+" is not a condition position: its expression now goes through the evaluator that swallows every error (a failing or unknown function reads as false, its negation as true) — the render reports success for a failing program")
			}
		},
	})

	register(&Rule{
		ID: "C10.R13", Props: []string{"C10", "C09", "C13"}, Min: 5,
		Doc: "a filter does not write into what it is given: the arguments of the functions of the default function map (upper, lower, trim, join, default, …) are values of the caller's data, handed over by reference — they are followed through each builtin and nothing is stored through them (an element of a slice argument, an entry of a map argument). A filter `extended to lists` that writes fn(element) back into the slice it received rewrites the caller's data: the next render of the same data object prints what this render left",
		Run: func(p *Prog, c *Ctx) {
			dfm := p.MustFn("(*vuego.Vue).DefaultFuncMap")
			t := newROTaint(p)
			seeds := 0
			seen := map[*ssa.Function]bool{}
			var reg []*ssa.Function
			walkFuncTree(dfm, func(f *ssa.Function) {
				eachInstr(f, func(in ssa.Instruction) {
					for _, op := range in.Operands(nil) {
						if op == nil || *op == nil {
							continue
						}
						var g *ssa.Function
						switch x := (*op).(type) {
						case *ssa.Function:
							g = x
						case *ssa.MakeClosure:
							g, _ = x.Fn.(*ssa.Function)
						}
						if g != nil && inModule(g) && !seen[g] && g != dfm {
							seen[g] = true
							reg = append(reg, g)
						}
					}
				})
			})
			// builtins referenced through package-level tables as well
			for _, g := range p.liveFuncs() {
				if g.Parent() == nil && strings.HasSuffix(g.Name(), "Func") && g.Signature.Recv() == nil && !seen[g] {
					if pk := funcPkg(g); pk != nil && pk.Path() == modPath {
						seen[g] = true
						reg = append(reg, g)
					}
				}
			}
			for _, g := range sortedFuncs(fnSetOf(reg)) {
				for _, prm := range g.Params {
					switch prm.Type().Underlying().(type) {
					case *types.Slice, *types.Map, *types.Interface, *types.Pointer:
						if isNamed(prm.Type(), modPath, "Vue") || isNamed(prm.Type(), modPath, "VueContext") {
							continue
						}
						seeds++
						t.seed(prm, fmt.Sprintf("argument %s of the builtin %s", prm.Name(), shortName(g)))
					}
				}
			}
			t.run()
			c.ok("builtin arguments followed", "-", fmt.Sprintf("%d arguments of %d builtins followed to all uses", seeds, len(reg)))
			for i := 0; i < seeds; i++ {
				c.ok(fmt.Sprintf("builtin argument#%d", i+1), "-", "followed")
			}
			for _, vi := range t.viol {
				c.fail(fmt.Sprintf("%s: %s through a filter argument", shortName(vi.at.Parent()), vi.what), p.instrPos(vi.at), vi.what+" on a value the template handed to a builtin: "+shortWhy(vi.why)+" — the caller's data is changed by rendering it")
			}
		},
	})
}

func fnSetOf(fs []*ssa.Function) map[*ssa.Function]bool {
	m := map[*ssa.Function]bool{}
	for _, f := range fs {
		m[f] = true
	}
	return m
}

func init() {
	register(&Rule{
		ID: "C17.R21", Props: []string{"C17", "C08", "C09", "C04"}, Min: 3,
		Doc: "the stack's own discipline, three necessary conditions. (a) Copy shares no scope with its original: nothing read out of the receiver's scope list (an element of s.stack) is put into the scope list of the stack Copy returns — a copy that starts on the original's root map `until its first write` sees every later Assign of the original. (b) Set binds whatever value it is given: every way through Set updates the innermost scope with the value itself, no way deletes from a scope or leaves early for a nil value — a loop variable bound to nil must hide an outer variable of its name. (c) Pop keeps the two parallel lists in step: wherever Pop re-creates the root scope it resets the pooled flags in the same branch, and Set never creates a scope on its own",
		Run: func(p *Prog, c *Ctx) {
			// (a)
			cp := p.MustFn("(*vuego.Stack).Copy")
			shared := ""
			eachInstr(cp, func(in ssa.Instruction) {
				st, ok := in.(*ssa.Store)
				if !ok {
					return
				}
				if _, isMap := st.Val.Type().Underlying().(*types.Map); !isMap {
					return
				}
				for _, o := range append(p.origins(st.Val, OriginOpts{}), st.Val) {
					ld, ok := o.(*ssa.UnOp)
					if !ok || ld.Op != token.MUL {
						continue
					}
					if ia, ok := ld.X.(*ssa.IndexAddr); ok {
						if fl := loadedField(ia.X); fl != nil && fieldIs(fl, "stack") {
							shared = p.instrPos(st)
						}
					}
				}
			})
			c.check(shared == "", "Copy: shares no scope with the original", p.pos(cp.Pos()), "no element of s.stack is stored into the copy", "a scope map of the original is put into the copy's scope list at "+shared+": the two stacks write into one map (whoever of them writes first, or later, is seen by the other)")
			// (b)
			set := p.MustFn("(*vuego.Stack).Set")
			var valPrm *ssa.Parameter
			for _, prm := range set.Params {
				if types.IsInterface(prm.Type()) {
					valPrm = prm
				}
			}
			via := map[ssa.Instruction]bool{}
			deletes := ""
			eachInstr(set, func(in ssa.Instruction) {
				if mu, ok := in.(*ssa.MapUpdate); ok && valPrm != nil && unwrapIface(mu.Value) == ssa.Value(valPrm) {
					via[in] = true
				}
				if cs, ok := in.(ssa.CallInstruction); ok {
					if b, ok := cs.Common().Value.(*ssa.Builtin); ok && b.Name() == "delete" {
						deletes = p.instrPos(in)
					}
				}
			})
			okSet := len(via) > 0 && deletes == ""
			for _, r := range returnsOf(set) {
				if !mustPassBefore(set, r, via) {
					okSet = false
				}
			}
			c.check(okSet, "Set: binds the value on every way", p.pos(set.Pos()), "top[key] = val before every return; no delete", "some way through Set does not store the value (or deletes the key instead): a binding to nil — the nil item of a loop, a JSON null, an unset slot prop — no longer hides an outer variable of the same name")
			// (c)
			pop := p.MustFn("(*vuego.Stack).Pop")
			inStep := true
			why := ""
			eachInstr(pop, func(in ssa.Instruction) {
				st, ok := in.(*ssa.Store)
				if !ok {
					return
				}
				fv := fieldVar(st.Addr)
				if fv == nil || !fieldIs(fv, "stack") {
					return
				}
				// a store of a grown list (append of a fresh scope): the same block stores pooled as well
				if cl := isCallNamed(st.Val, "builtin.append"); cl != nil {
					found := false
					for _, x := range st.Block().Instrs {
						if s2, ok := x.(*ssa.Store); ok {
							if f2 := fieldVar(s2.Addr); f2 != nil && fieldIs(f2, "pooled") {
								found = true
							}
						}
					}
					if !found {
						inStep = false
						why = p.instrPos(st)
					}
				}
			})
			grows := ""
			eachInstr(set, func(in ssa.Instruction) {
				if st, ok := in.(*ssa.Store); ok {
					if fv := fieldVar(st.Addr); fv != nil && fieldIs(fv, "stack") {
						if cl := isCallNamed(st.Val, "builtin.append"); cl != nil {
							// Set appending a scope: must append to pooled too
							found := false
							eachInstr(set, func(x ssa.Instruction) {
								if s2, ok := x.(*ssa.Store); ok {
									if f2 := fieldVar(s2.Addr); f2 != nil && fieldIs(f2, "pooled") {
										found = true
									}
								}
							})
							if !found {
								grows = p.instrPos(st)
							}
						}
					}
				}
			})
			// the root is re-created somewhere: by Pop (with its flag), or — if Pop does not — by nobody without one
			popRecreates := false
			eachInstr(pop, func(in ssa.Instruction) {
				if st, ok := in.(*ssa.Store); ok {
					if fv := fieldVar(st.Addr); fv != nil && fieldIs(fv, "stack") && isCallNamed(st.Val, "builtin.append") != nil {
						popRecreates = true
					}
				}
			})
			c.check(inStep && (popRecreates || grows == ""), "Pop / Set: scope list and pooled flags stay in step", p.pos(pop.Pos()), "a scope is created together with its flag", "a scope is created without its pooled flag (at "+why+grows+"): the two parallel lists are one apart from then on, and a later Pop reads the flag of another scope — it clears a map the caller handed to Push and puts it into the pool")
		},
	})

	register(&Rule{
		ID: "C17.R22", Props: []string{"C17", "C04", "C13"}, Min: 1,
		Doc: "a path step is a literal: the step resolver (resolveStep) works on the value it was given and the text of the step — it does not look anything up in the scopes (no call of Stack.Lookup / Resolve / EnvMap / Get* from it). `p.rank` names the field rank of p; a resolver that first asks whether `rank` is a variable reads it as the loop's index wherever the (index, item) form calls its index so",
		Run: func(p *Prog, c *Ctx) {
			fn := p.MustFn("(*vuego.Stack).resolveStep")
			n := 0
			bad := ""
			walkFuncTree(fn, func(f *ssa.Function) {
				for _, site := range callsIn(f) {
					n++
					nm := calleeName(site.Common())
					if strings.HasPrefix(nm, "(*vuego.Stack).") && nm != "(*vuego.Stack).resolveStep" {
						bad = nm + " at " + p.instrPos(site)
					}
				}
			})
			c.check(bad == "", "resolveStep: consults no scope", p.pos(fn.Pos()), fmt.Sprintf("%d calls, none into the stack", n), "the step resolver calls "+bad+": the text of a path step is looked up as a variable, so a field or key that happens to be named like a variable in scope (the index of `(rank, p) in players`) is replaced by that variable's value")
		},
	})
}

func init() {
	register(&Rule{
		ID: "C03.R19", Props: []string{"C03", "C01", "C14"}, Min: 1,
		Doc: "truthiness looks at the value as it is: the truthiness table (helpers.IsTruthy and what it calls by name) applies no normalising string function — Trim*, Fields, ToLower / ToUpper, Replace* — to the value it judges. The documented falsy strings are \"\" and \"false\"; \" \" is a value, and a bound attribute (`:placeholder=\"hint\"`) whose value is a blank keeps the attribute — trimmed first, every blank value removes the attribute it reaches, so the set of attribute names depends on the data",
		Run: func(p *Prog, c *Ctx) {
			fn := p.MustFn("helpers.IsTruthy")
			set := map[*ssa.Function]bool{}
			var add func(f *ssa.Function)
			add = func(f *ssa.Function) {
				if f == nil || set[f] || !inModule(f) {
					return
				}
				set[f] = true
				for _, af := range f.AnonFuncs {
					add(af)
				}
				for _, site := range callsIn(f) {
					add(site.Common().StaticCallee())
				}
			}
			add(fn)
			bad := ""
			n := 0
			for _, g := range sortedFuncs(set) {
				for _, site := range callsIn(g) {
					n++
					nm := calleeName(site.Common())
					if strings.HasPrefix(nm, "strings.Trim") || nm == "strings.Fields" || nm == "strings.ToLower" || nm == "strings.ToUpper" || strings.HasPrefix(nm, "strings.Replace") || nm == "strings.EqualFold" {
						bad = nm + " at " + p.instrPos(site)
					}
				}
			}
			c.check(bad == "", "IsTruthy: judges the value as it is", p.pos(fn.Pos()), fmt.Sprintf("%d calls, no normalising string function", n), "the truthiness table normalises the string before it judges it ("+bad+"): values that are not one of the documented falsy strings (a blank, \" false \", \"FALSE\") become falsy, and every position that asks IsTruthy — v-if, v-show, :class, and whether a bound attribute is written at all — follows")
		},
	})

	register(&Rule{
		ID: "C02.R19", Props: []string{"C02"}, Min: 1,
		Doc: "the interpolator knows the two delimiters and nothing else: interpolateToWriter (and the helpers it calls on the text alone) compares the template text with `{` and `}` only — no backslash, no other escape character. A backslash in front of `{{` is static text of the template (`C:\\Users\\{{ name }}`); an escape convention added there drops a character of the neighbourhood and leaves the expression unsubstituted",
		Run: func(p *Prog, c *Ctx) {
			fn := p.MustFn("(*vuego.Vue).interpolateToWriter")
			have := comparedChars(fn)
			var extra []string
			for r := range have {
				if r == '\\' || r == '$' || r == '@' || r == '#' {
					extra = append(extra, fmt.Sprintf("%q", r))
				}
			}
			sort.Strings(extra)
			c.check(len(extra) == 0, "interpolateToWriter: no escape character", p.pos(fn.Pos()), "the text is searched for the delimiters only", "the interpolator compares the template text with "+strings.Join(extra, ", ")+": a character in front of `{{` changes whether the expression is substituted, and is itself removed from the output — static text of the template is altered")
		},
	})

	register(&Rule{
		ID: "C05.R17", Props: []string{"C05", "C14", "C02"}, Min: 2,
		Doc: "the shorthand tag and the explicit include are one thing, and only directives are kept out of the output: (a) every name in the serialiser's `not written` table (shouldIgnoreAttr) is a directive or an internal carrier — it begins with `v-` or `data-v-`; `key`, `ref`, `is` are attributes a template may pass as props and write as attributes (evalAttributes leaves what the table lists uninterpolated). (b) replaceWithInclude turns `<my-card …>` into `<template include=…>` by adding the include attribute — it does not rewrite the attributes the tag carries (no store into an element of node.Attr): a bare `dismissible` is the empty string in both spellings",
		Run: func(p *Prog, c *Ctx) {
			ig := p.MustFn("vuego.shouldIgnoreAttr")
			n := 0
			var bad []string
			walkFuncTree(ig, func(f *ssa.Function) {
				eachInstr(f, func(in ssa.Instruction) {
					b, ok := in.(*ssa.BinOp)
					if !ok || b.Op != token.EQL {
						return
					}
					for _, side := range []ssa.Value{b.X, b.Y} {
						if s, ok := constString(side); ok {
							n++
							if !strings.HasPrefix(s, "v-") && !strings.HasPrefix(s, "data-v-") {
								bad = append(bad, s)
							}
						}
					}
				})
			})
			// a table in a package-level set
			for _, k := range p.globalStringSetKeys(ig) {
				n++
				if !strings.HasPrefix(k, "v-") && !strings.HasPrefix(k, "data-v-") {
					bad = append(bad, k)
				}
			}
			sort.Strings(bad)
			if n == 0 {
				undecided("shouldIgnoreAttr compares the key with no constant")
			}
			c.check(len(bad) == 0, "shouldIgnoreAttr: only directives and carriers", p.pos(ig.Pos()), fmt.Sprintf("%d names, all `v-…` / `data-v-…`", n), "the `not written` table lists "+strings.Join(bad, ", ")+": an ordinary attribute name — a static attribute of that name is dropped from the output, and (the attribute evaluator consults the same table) its `{{ }}` is no longer interpolated before it is handed to a component as a prop")
			ri := p.Fn("(*vuego.Vue).replaceWithInclude")
			if ri == nil {
				ri = p.MustFn("(*vuego.Vue).processComponentNode")
			}
			rewrites := ""
			eachInstr(ri, func(in ssa.Instruction) {
				st, ok := in.(*ssa.Store)
				if !ok {
					return
				}
				if ia, ok := st.Addr.(*ssa.IndexAddr); ok {
					if fl := loadedField(ia.X); fl != nil && fieldIs(fl, "Attr") {
						rewrites = p.instrPos(st)
					}
				}
				if fa, ok := st.Addr.(*ssa.FieldAddr); ok {
					if ia, ok := fa.X.(*ssa.IndexAddr); ok {
						if fl := loadedField(ia.X); fl != nil && fieldIs(fl, "Attr") {
							rewrites = p.instrPos(st)
						}
					}
				}
			})
			c.check(rewrites == "", shortName(ri)+": the tag's attributes are handed on as written", p.pos(ri.Pos()), "only the include attribute is added", "an attribute of the component tag is rewritten at "+rewrites+" before the include evaluator sees it: the shorthand tag and `<template include>` no longer pass the same props")
		},
	})

	register(&Rule{
		ID: "C06.R16", Props: []string{"C06", "C07"}, Min: 1,
		Doc: "whether a page supplies slot content is decided by the parsed page, not by a text search: in the layout chain the call that collects the page's slot templates (extractSlotsFromDOM, with the parse in front of it) is controlled by the position in the chain only — no condition on the way looks at the page's source bytes (bytes.Contains / strings.Contains / Index over templateBytes). `<template\\n  #hero>` and `<template data-x #hero>` are slot templates for the parser and invisible to a search for `<template #`",
		Run: func(p *Prog, c *Ctx) {
			fn := p.MustFn("(*vuego.template).layout")
			n := 0
			for _, site := range callsIn(fn) {
				nm := calleeName(site.Common())
				if nm != "vuego.extractSlotsFromDOM" && nm != "parser.ParseTemplateBytes" {
					continue
				}
				n++
				bad := ""
				for _, g := range controllingIfs(site) {
					for _, leaf := range condLeaves(g.If.Cond) {
						walkCond(leaf, func(v ssa.Value) {
							cl, ok := v.(*ssa.Call)
							if !ok {
								return
							}
							cn := calleeName(&cl.Call)
							if strings.HasPrefix(cn, "bytes.Contains") || strings.HasPrefix(cn, "bytes.Index") || strings.HasPrefix(cn, "strings.Contains") || strings.HasPrefix(cn, "strings.Index") || strings.HasPrefix(cn, "bytes.HasPrefix") {
								for _, a := range callArgs(&cl.Call) {
									for _, o := range append(p.origins(a, OriginOpts{}), a) {
										if fl := loadedField(o); fl != nil && fieldIs(fl, "templateBytes") {
											bad = cn + " at " + p.instrPos(cl)
										}
									}
								}
							}
						})
					}
				}
				c.check(bad == "", fmt.Sprintf("layout: %s#%d is not decided by a text search", nm, n), p.instrPos(site), "controlled by the position in the chain", "whether the page's slot templates are collected is decided by "+bad+" over the page's source: a slot template spelled in a way the search does not foresee is parsed as one and never collected — every <slot> of the layouts shows its fallback")
			}
		},
	})
}

// globalStringSetKeys: the string keys of the package-level map literals that fn looks its argument up in
// (`return evalOnlyAttrs[key]`).
func (p *Prog) globalStringSetKeys(fn *ssa.Function) []string {
	var out []string
	seenG := map[*ssa.Global]bool{}
	walkFuncTree(fn, func(f *ssa.Function) {
		eachInstr(f, func(in ssa.Instruction) {
			ld, ok := in.(*ssa.UnOp)
			if !ok || ld.Op != token.MUL {
				return
			}
			g, ok := ld.X.(*ssa.Global)
			if !ok || g.Pkg == nil || seenG[g] {
				return
			}
			seenG[g] = true
			init := g.Pkg.Func("init")
			if init == nil {
				return
			}
			eachInstr(init, func(x ssa.Instruction) {
				st, ok := x.(*ssa.Store)
				if !ok || st.Addr != ssa.Value(g) {
					return
				}
				switch v := st.Val.(type) {
				case *ssa.MakeMap: // a map literal: the keys
					if v.Referrers() != nil {
						for _, r := range *v.Referrers() {
							if mu, ok := r.(*ssa.MapUpdate); ok {
								if k, ok := constString(mu.Key); ok {
									out = append(out, k)
								}
							}
						}
					}
				case *ssa.Slice: // a slice literal: the elements of the backing array
					if al, ok := v.X.(*ssa.Alloc); ok && al.Referrers() != nil {
						for _, r := range *al.Referrers() {
							if ia, ok := r.(*ssa.IndexAddr); ok && ia.Referrers() != nil {
								for _, rr := range *ia.Referrers() {
									if es, ok := rr.(*ssa.Store); ok {
										if k, ok := constString(es.Val); ok {
											out = append(out, k)
										}
									}
								}
							}
						}
					}
				}
			})
		})
	})
	return out
}

func init() {
	register(&Rule{
		ID: "C13.R28", Props: []string{"C13", "C12"}, Min: 1,
		Doc: "a registered function has failed only if its error result holds something: wherever the reflective caller reads an error out of a result (`out[i].Interface().(error)`), every way to that assertion has asked the reflect value whether it is nil (Value.IsNil under a nilable kind). A function declared `func(…) (string, *MyErr)` that returns a nil pointer has succeeded; boxed into the error interface the nil pointer is a non-nil error, and the pipe fails with the text of an error that was never returned",
		Run: func(p *Prog, c *Ctx) {
			fn := p.MustFn("(*vuego.Vue).callFunc")
			n := 0
			check := func(f *ssa.Function) {
				via := map[ssa.Instruction]bool{}
				asksNil := false
				for _, site := range callsIn(f) {
					switch calleeName(site.Common()) {
					case "(reflect.Value).IsNil":
						via[site] = true
						asksNil = true
					case "(reflect.Value).Kind":
						via[site] = true // the ways round IsNil are the kinds that cannot be nil
					}
				}
				if !asksNil {
					via = map[ssa.Instruction]bool{}
				}
				eachInstr(f, func(in ssa.Instruction) {
					ta, ok := in.(*ssa.TypeAssert)
					if !ok || !isErrorType(ta.AssertedType) {
						return
					}
					fromResult := false
					for _, o := range append(p.origins(ta.X, OriginOpts{}), ta.X) {
						if cl, ok := o.(*ssa.Call); ok && calleeName(&cl.Call) == "(reflect.Value).Interface" {
							fromResult = true
						}
					}
					if !fromResult {
						return
					}
					n++
					c.check(len(via) > 0 && mustPassBefore(f, ta, via), fmt.Sprintf("%s: error read out of a result#%d", shortName(f), n), p.instrPos(ta), "behind Value.IsNil", "the result is boxed into the error interface without a look at whether it is nil: a function whose error result has a concrete pointer type fails the render although it returned nil")
				})
			}
			check(fn)
			for _, site := range callsIn(fn) {
				if callee := site.Common().StaticCallee(); callee != nil && inModule(callee) && callee != fn {
					for _, prm := range callee.Params {
						if isNamed(prm.Type(), "reflect", "Value") {
							check(callee)
							break
						}
					}
				}
			}
			if n == 0 {
				undecided("callFunc reads no error out of a result")
			}
		},
	})
}

func init() {
	register(&Rule{
		ID: "C13.R29", Props: []string{"C13"}, Min: 2,
		Doc: "an argument that does not fit its parameter is not converted: (a) in the reflective caller every Value.Convert of an argument is reached only on ways that asked whether the number fits the parameter's integer type (Value.OverflowInt / OverflowUint, directly or in a module helper) or that established a non-integer target; (b) where convertValue parses a string for an integer parameter it parses at the parameter's width (the bitSize of ParseInt / ParseUint is not the constant 64). Go's conversion wraps: 300 for an int8 parameter arrives as 44, \"300\" likewise — the function is applied to a number the template never wrote",
		Run: func(p *Prog, c *Ctx) {
			fn := p.MustFn("(*vuego.Vue).callFunc")
			asks := func(g *ssa.Function) bool {
				found := false
				for h := range p.Cone(g) {
					for _, s2 := range callsIn(h) {
						if nm := calleeName(s2.Common()); nm == "(reflect.Value).OverflowInt" || nm == "(reflect.Value).OverflowUint" {
							found = true
						}
					}
				}
				return found
			}
			via := map[ssa.Instruction]bool{}
			for _, site := range callsIn(fn) {
				nm := calleeName(site.Common())
				if nm == "(reflect.Value).OverflowInt" || nm == "(reflect.Value).OverflowUint" {
					via[site] = true
				}
				if callee := site.Common().StaticCallee(); callee != nil && inModule(callee) && callee != fn && !strings.HasSuffix(shortName(callee), "convertValue") && asks(callee) {
					via[site] = true
				}
			}
			n := 0
			for _, site := range callsIn(fn) {
				if calleeName(site.Common()) != "(reflect.Value).Convert" {
					continue
				}
				n++
				// (a range test written into the function looks at the parameter type's kind first: the ways round
				// OverflowInt / OverflowUint are the kinds that are no integers)
				via2 := map[ssa.Instruction]bool{}
				for k := range via {
					via2[k] = true
				}
				if len(via) > 0 {
					for _, s2 := range callsIn(fn) {
						cc := s2.Common()
						if cc.IsInvoke() && cc.Method.Name() == "Kind" && sameValue(cc.Value, site.Common().Args[1]) {
							via2[s2] = true
						}
					}
				}
				c.check(len(via) > 0 && mustPassBefore(fn, site, via2), fmt.Sprintf("callFunc: Convert of an argument#%d only after the range was checked", n), p.instrPos(site), "behind an overflow test", "an argument is converted to the parameter's type by Go's conversion without a look at whether it fits: a number outside the range of an int8 / uint16 / … parameter is wrapped around, and the function is applied to another number than the template wrote")
			}
			cv := p.MustFn("vuego.convertValue")
			for _, site := range callsIn(cv) {
				nm := calleeName(site.Common())
				if nm != "strconv.ParseInt" && nm != "strconv.ParseUint" {
					continue
				}
				n++
				_, is64 := constInt(site.Common().Args[2])
				c.check(!is64, fmt.Sprintf("convertValue: %s parses at the parameter's width#%d", nm, n), p.instrPos(site), "bitSize taken from the target type", nm+" is told to accept any 64-bit number and the result is then converted down: \"300\" for an int8 parameter parses and wraps to 44")
			}
			if n == 0 {
				undecided("callFunc converts no argument")
			}
		},
	})
}

func init() {
	register(&Rule{
		ID: "C07.R14", Props: []string{"C07"}, Min: 1,
		Doc: "every link hands on what it rendered, also when that is nothing: inside the layout loop the store of the link's output under `content` is not controlled by a look at that output (its length, its trimmed form, a comparison with \"\"). A link that renders to nothing — a members-only layout behind `v-if=\"user\"`, an empty page — must hand on nothing; if the store is skipped, the next layout embeds the output of two links back (or the caller's own `content`), and the nesting is no longer innermost-first",
		Run: func(p *Prog, c *Ctx) {
			fn := p.MustFn("(*vuego.template).layout")
			n := 0
			eachInstr(fn, func(in ssa.Instruction) {
				mu, ok := in.(*ssa.MapUpdate)
				if !ok {
					return
				}
				if k, isK := constString(unwrapIface(mu.Key)); !isK || k != "content" {
					return
				}
				n++
				bad := ""
				fromOutput := func(v ssa.Value) bool {
					hit := false
					var walk func(v ssa.Value, d int)
					seen := map[ssa.Value]bool{}
					walk = func(v ssa.Value, d int) {
						if v == nil || seen[v] || d > 6 {
							return
						}
						seen[v] = true
						for _, o := range append(p.origins(v, OriginOpts{}), v) {
							if cl, ok := o.(*ssa.Call); ok {
								nm := calleeName(&cl.Call)
								if strings.HasPrefix(nm, "(*bytes.Buffer).") || strings.HasPrefix(nm, "(*strings.Builder).") {
									hit = true
								}
								for _, a := range callArgs(&cl.Call) {
									walk(a, d+1)
								}
							}
							if b, ok := o.(*ssa.BinOp); ok {
								walk(b.X, d+1)
								walk(b.Y, d+1)
							}
						}
					}
					walk(v, 0)
					return hit
				}
				for _, g := range controllingIfs(mu) {
					if loopHeaderOf(g.If.Block()) == nil {
						continue
					}
					for _, leaf := range condLeaves(g.If.Cond) {
						if fromOutput(leaf) {
							bad = p.instrPos(g.If)
						}
					}
				}
				c.check(bad == "", fmt.Sprintf("layout: content#%d is handed on whatever it is", n), p.instrPos(mu), "the store is not controlled by a look at the output", "the condition at "+bad+" looks at the link's rendered output before it is stored under `content`: a link that renders to nothing leaves the previous value in place, and the next layout embeds the wrong link's output")
			})
		},
	})

	register(&Rule{
		ID: "C14.R21", Props: []string{"C14", "C13"}, Min: 1,
		Doc: "the printer prints the value it is given: helpers.Sprint hands its parameter to fmt as it is (behind the cycle guard) — it does not replace it by something derived from it (the pointee of a pointer, a converted copy). The methods a value prints itself with belong to its type: `*url.URL`, `*big.Int`, a user's `*T` with String() on the pointer receiver lose them when the pointer is dereferenced first, and come out as a dump of struct fields in `href=\"…\"`",
		Run: func(p *Prog, c *Ctx) {
			fn := p.MustFn("helpers.Sprint")
			n := 0
			ok := true
			where := ""
			for _, site := range callsIn(fn) {
				nm := calleeName(site.Common())
				if !strings.HasPrefix(nm, "fmt.Sprint") {
					continue
				}
				for _, po := range printedOperands(site) {
					if po.verb == 'T' {
						continue
					}
					n++
					v := po.val
					for {
						if mi, isMI := v.(*ssa.MakeInterface); isMI {
							v = mi.X
							continue
						}
						if ci, isCI := v.(*ssa.ChangeInterface); isCI {
							v = ci.X
							continue
						}
						break
					}
					if _, isPrm := v.(*ssa.Parameter); !isPrm {
						ok = false
						where = p.instrPos(site)
					}
				}
			}
			if n == 0 {
				undecided("helpers.Sprint no longer prints through fmt.Sprint")
			}
			c.check(ok, "Sprint: prints its parameter", p.pos(fn.Pos()), "fmt gets the value itself", "at "+where+" fmt is handed something derived from the value, not the value: what the value's own String() / Error() / Format would have printed is lost (a dereferenced pointer prints as the struct's fields)")
		},
	})

	register(&Rule{
		ID: "C15.R6", Props: []string{"C15", "C10", "C08"}, Min: 2, Local: true, // the store and the probe it remembers lie in one function
		Doc: "what the cache hands out is what the loader put in: (a) the cache loader (loadCachedWithFrontMatter) passes nothing through an encoder on its way out — no encoding/json, gob or yaml round trip of the cached front-matter: JSON turns every int into a float64 and a date into a string, so the second render of an unchanged file prints 1.5e+06 and takes other branches than the first; (b) a freshness probe is never memoised: nothing stores the answer of fs.Stat / FileInfo.ModTime (or of the loader's Stat) in a long-lived map — for as long as the memo is believed, an edited or deleted file is served as it was",
		Run: func(p *Prog, c *Ctx) {
			fn := p.MustFn("(*vuego.Vue).loadCachedWithFrontMatter")
			set := map[*ssa.Function]bool{}
			var add func(f *ssa.Function)
			add = func(f *ssa.Function) {
				if f == nil || set[f] || !inModule(f) {
					return
				}
				set[f] = true
				for _, af := range f.AnonFuncs {
					add(af)
				}
				for _, site := range callsIn(f) {
					add(site.Common().StaticCallee())
				}
			}
			add(fn)
			bad := ""
			for _, g := range sortedFuncs(set) {
				if strings.Contains(shortName(g), "loadFragment") || strings.Contains(shortName(g), "extractFrontMatter") || strings.Contains(shortName(g), "parser.") {
					continue // reading the file is decoding
				}
				for _, site := range callsIn(g) {
					nm := calleeName(site.Common())
					if strings.HasPrefix(nm, "encoding/json.") || strings.HasPrefix(nm, "encoding/gob.") || strings.Contains(nm, "yaml.Marshal") || strings.Contains(nm, "yaml.Unmarshal") {
						bad = nm + " at " + p.instrPos(site)
					}
				}
			}
			c.check(bad == "", "cache loader: no encoder on the way out", p.pos(fn.Pos()), "cached values are handed out as stored (or structurally copied)", "the cache loader calls "+bad+": what a hit returns has been through an encoder and has other Go types than what the first load returned — numbers print and compare differently from the second render on")
			n := 0
			for _, st := range p.memoStores() {
				probe := ""
				payload := false
				// the parts of the stored value: itself, or — for a struct built on the spot — what its fields are set to
				var parts []ssa.Value
				sv := unwrapIface(st.val)
				var al *ssa.Alloc
				switch x := sv.(type) {
				case *ssa.Alloc:
					al = x
				case *ssa.UnOp:
					if x.Op == token.MUL {
						al, _ = x.X.(*ssa.Alloc)
					}
				}
				if al != nil && al.Referrers() != nil {
					for _, r := range *al.Referrers() {
						if fa, ok := r.(*ssa.FieldAddr); ok && fa.Referrers() != nil {
							for _, rr := range *fa.Referrers() {
								if fs, ok := rr.(*ssa.Store); ok && fs.Addr == ssa.Value(fa) {
									parts = append(parts, fs.Val)
								}
							}
						}
					}
				}
				if len(parts) == 0 {
					parts = []ssa.Value{sv}
				}
				for _, part := range parts {
					isProbe, isClock := false, false
					for _, o := range append(p.origins(unwrapIface(part), OriginOpts{}), part) {
						var cl *ssa.Call
						switch x := o.(type) {
						case *ssa.Call:
							cl = x
						case *ssa.Extract:
							cl, _ = x.Tuple.(*ssa.Call)
						}
						if cl == nil {
							continue
						}
						nm := calleeName(&cl.Call)
						if nm == "io/fs.Stat" || strings.HasSuffix(nm, ".ModTime") || strings.HasSuffix(nm, "Loader).Stat") || nm == "os.Stat" {
							isProbe = true
							probe = nm
						}
						if nm == "time.Now" {
							isClock = true
						}
					}
					if _, isConst := unwrapIface(part).(*ssa.Const); !isProbe && !isClock && !isConst {
						payload = true // content stored together with the time it was valid at: a cache entry, not a memoised probe
					}
				}
				if payload {
					probe = ""
				}
				n++
				c.check(probe == "", fmt.Sprintf("%s: memo store#%d is not a remembered freshness probe", shortName(st.at.Parent()), n), p.instrPos(st.at), "the stored value is not the answer of a Stat / ModTime", "the answer of "+probe+" is stored in a long-lived map and reused: while it is reused nothing notices that the file was edited, replaced or deleted")
			}
		},
	})

	register(&Rule{
		ID: "C18.R12", Props: []string{"C18"}, Min: 1,
		Doc: "the overlay asks a layer when a path is asked for, not when it is built: NewOverlayFS calls nothing on the layers it is given (no fs.Stat, Open, ReadDir at construction) — it only leaves out nil layers. Whether a layer has a path is decided per lookup; a layer that cannot stat its root (a files-only fs.FS), or whose directory is created after the overlay, is a layer all the same",
		Run: func(p *Prog, c *Ctx) {
			fn := p.MustFn("vuego.NewOverlayFS")
			bad := ""
			n := 0
			walkFuncTree(fn, func(f *ssa.Function) {
				for _, site := range callsIn(f) {
					n++
					nm := calleeName(site.Common())
					if strings.HasPrefix(nm, "io/fs.") || site.Common().IsInvoke() {
						bad = nm + " at " + p.instrPos(site)
					}
				}
			})
			c.check(bad == "", "NewOverlayFS: probes no layer", p.pos(fn.Pos()), fmt.Sprintf("%d calls, none on a layer", n), "the constructor calls "+bad+" on a layer and decides once, for every path, whether the layer takes part: paths of a layer that failed the probe come from a lower layer or report not-exist for good")
		},
	})

	register(&Rule{
		ID: "C20.R18", Props: []string{"C20"}, Min: 1,
		Doc: "rendering Markdown fails only where something it calls fails: the node walk of the Markdown renderer (renderNode, renderChildren and the per-node renderers) makes no error of its own — every error it returns comes out of a call (a child, a template, a writer). A limit invented in the walk (`blocks nested deeper than 32 levels`) makes documents fail that the reference renders: sixteen nested lists are a document",
		Run: func(p *Prog, c *Ctx) {
			n := 0
			for _, fn := range p.liveFuncs() {
				pk := funcPkg(fn)
				if pk == nil || pk.Path() != markdownPkg {
					continue
				}
				name := shortName(rootFunc(fn))
				if !strings.Contains(name, ").render") || strings.Contains(name, "renderTemplate") {
					continue
				}
				n++
				bad := ""
				for _, site := range callsIn(fn) {
					nm := calleeName(site.Common())
					if nm == "errors.New" {
						bad = p.instrPos(site)
					}
					if nm == "fmt.Errorf" {
						wraps := false
						for _, po := range printedOperands(site) {
							if isErrorType(po.val.Type()) || po.verb == 'w' {
								wraps = true
							}
							if mi, ok := po.val.(*ssa.MakeInterface); ok && isErrorType(mi.X.Type()) {
								wraps = true
							}
						}
						if !wraps {
							bad = p.instrPos(site)
						}
					}
				}
				c.check(bad == "", name+": makes no error of its own", p.pos(fn.Pos()), "errors come out of calls", "the node walk creates an error at "+bad+" that no callee reported: a document the reference renderer accepts now fails to render")
			}
		},
	})
}

func init() {
	register(&Rule{
		ID: "C19.R22", Props: []string{"C19"}, Min: 1,
		Doc: "the formatter writes every element it is given: in formatNode, on every way from the start of the element case to a return, the element's tags are written — by renderOpenTag, or by one of the formatter's own functions that writes them (formatRawTextElement, html.Render-free). No kind of element is `unwrapped` (its children formatted in its place): a <tbody> the parser added looks exactly like one the author wrote, two bare <tbody> of one table are two bodies, and a table whose body is dropped is re-parsed with a new one — the second pass differs from the first",
		Run: func(p *Prog, c *Ctx) {
			fn := p.MustFn("(*formatter.Formatter).formatNode")
			// functions of the formatter that write an open tag
			writes := map[*ssa.Function]bool{}
			for _, g := range p.liveFuncs() {
				if pk := funcPkg(g); pk == nil || !strings.HasSuffix(pk.Path(), "/formatter") {
					continue
				}
				for _, site := range callsIn(g) {
					if strings.HasSuffix(calleeName(site.Common()), ").renderOpenTag") {
						writes[rootFunc(g)] = true
					}
				}
			}
			isTagWriter := func(in ssa.Instruction) bool {
				cs, ok := in.(ssa.CallInstruction)
				if !ok {
					return false
				}
				if strings.HasSuffix(calleeName(cs.Common()), ").renderOpenTag") {
					return true
				}
				callee := cs.Common().StaticCallee()
				return callee != nil && callee != fn && writes[callee]
			}
			n := 0
			eachInstr(fn, func(in ssa.Instruction) {
				ifi, ok := in.(*ssa.If)
				if !ok {
					return
				}
				b, ok := ifi.Cond.(*ssa.BinOp)
				if !ok || b.Op != token.EQL {
					return
				}
				k, isK := constInt(b.Y)
				fl := loadedField(b.X)
				if !isK || k != 3 || fl == nil || !fieldIs(fl, "Type") { // html.ElementNode
					return
				}
				arm := ifi.Block().Succs[0]
				if len(arm.Instrs) == 0 {
					return
				}
				n++
				first := arm.Instrs[0]
				bad := ssa.Instruction(nil)
				if !isTagWriter(first) {
					bad = pathAvoiding(first, func(x ssa.Instruction) bool { _, isRet := x.(*ssa.Return); return isRet }, isTagWriter)
				}
				where := ""
				if bad != nil {
					where = p.instrPos(bad)
				}
				c.check(bad == nil, fmt.Sprintf("formatNode: element case#%d writes the element's tags on every way", n), p.instrPos(ifi), "every return of the element case lies behind a tag writer", "a way through the element case reaches the return at "+where+" without the element's open tag having been written: that kind of element is dropped from the formatted document (its children, if any, move up into its parent) — the document means something else, and the next pass formats something else again")
			})
			if n == 0 {
				undecided("formatNode has no `n.Type == html.ElementNode` case")
			}
		},
	})

	register(&Rule{
		ID: "C04.R15", Props: []string{"C04", "C03", "C17"}, Min: 1,
		Doc: "every instance of a loop has a scope of its own: wherever evalFor (its per-item callback included) binds a loop variable (Stack.Set), a Push in the *same* function comes before it and the matching Pop after it — the scope is opened per item, inside the callback, not once around the whole loop. What an instance binds besides the loop variables (a <template name=…> in the body sets variables in the current scope) must be gone when the next instance starts: with one scope for the loop, a later instance's v-if / v-show / :class reads what an earlier instance left",
		Run: func(p *Prog, c *Ctx) {
			fn := p.MustFn("(*vuego.Vue).evalFor")
			n := 0
			walkFuncTree(fn, func(f *ssa.Function) {
				for _, site := range callsIn(f) {
					if !isStackCall(site.Common(), "Set") {
						continue
					}
					n++
					pushed := false
					inLoopOrCallback := f != fn || loopHeaderOf(site.Block()) != nil
					for _, s2 := range callsIn(f) {
						if isStackCall(s2.Common(), "Push") && dominates(s2, site) {
							// per item: the Push lies in the callback, or inside the loop that the Set lies in
							if f != fn || (loopHeaderOf(s2.Block()) != nil && loopHeaderOf(s2.Block()) == loopHeaderOf(site.Block())) {
								pushed = true
							}
						}
					}
					c.check(pushed && inLoopOrCallback, fmt.Sprintf("evalFor: loop variable#%d is bound in a scope opened for this item", n), p.instrPos(site), "Push in the same per-item function, before the Set", "the loop variable is bound in a scope that was not opened for this item (the Push lies outside the per-item callback / loop body, or is missing): all instances share one scope, and what one instance binds is still there for the next")
				}
			})
			if n == 0 {
				undecided("evalFor binds no loop variable through Stack.Set")
			}
		},
	})
}

func init() {
	register(&Rule{
		ID: "C14.R22", Props: []string{"C14", "C03"}, Min: 1,
		Doc: "one function knows what a repeated style property means: parseStyleDecls builds its list through setStyleDecl — the function the :style merge and v-show use to set a property — and does not append declarations to it on its own. If the parser keeps `display:-webkit-box;display:flex` as two entries while setStyleDecl overwrites the first it finds, `display:none` lands on the fallback and the later static declaration wins: the element that v-show hides stays visible",
		Run: func(p *Prog, c *Ctx) {
			fn := p.MustFn("vuego.parseStyleDecls")
			viaSetter, direct := 0, ""
			for _, site := range callsIn(fn) {
				nm := calleeName(site.Common())
				if nm == "vuego.setStyleDecl" {
					viaSetter++
				}
				if nm == "builtin.append" {
					if sl, ok := site.Common().Args[0].Type().Underlying().(*types.Slice); ok {
						if nt, ok := sl.Elem().(*types.Named); ok && nt.Obj().Name() == "styleDecl" {
							direct = p.instrPos(site)
						}
					}
				}
			}
			c.check(viaSetter > 0 && direct == "", "parseStyleDecls: declarations are entered through setStyleDecl", p.pos(fn.Pos()), "no append of its own", "parseStyleDecls appends declarations itself (at "+direct+"): a property written twice is kept twice, while every later setStyleDecl — the :style merge, v-show's display:none — changes only the first occurrence and the second one wins in the browser")
		},
	})
}

func init() {
	register(&Rule{
		ID: "C17.R23", Props: []string{"C17", "C08", "C11"}, Min: 2,
		Doc: "what is remembered about a struct is remembered under its address *and* its type: the maps in which the struct → map converter keeps the structs on the current path and the finished conversions are keyed by something that includes the reflect.Type — not by the bare address. In Go a struct and its first field have one address: `o.First = &o.Inner` is no cycle, and `a.C` and `&a.C.B` are two values; keyed by address alone the first is converted to an empty map and the second receives the other's conversion — the same data filled as a map renders differently from the struct",
		Run: func(p *Prog, c *Ctx) {
			fn := p.MustFn("reflect.structToMap")
			n := 0
			seenT := map[string]bool{}
			walkFuncTree(fn, func(f *ssa.Function) {
				eachInstr(f, func(in ssa.Instruction) {
					var m ssa.Value
					switch x := in.(type) {
					case *ssa.Lookup:
						m = x.X
					case *ssa.MapUpdate:
						m = x.Map
					default:
						return
					}
					mt, ok := m.Type().Underlying().(*types.Map)
					if !ok {
						return
					}
					// the bookkeeping maps: keyed by an address, or by a struct that holds one
					holdsAddr, holdsType := false, false
					switch k := mt.Key().Underlying().(type) {
					case *types.Basic:
						holdsAddr = k.Kind() == types.Uintptr || k.Kind() == types.UnsafePointer
					case *types.Struct:
						for i := 0; i < k.NumFields(); i++ {
							ft := k.Field(i).Type()
							if b, isB := ft.Underlying().(*types.Basic); isB && (b.Kind() == types.Uintptr || b.Kind() == types.UnsafePointer) {
								holdsAddr = true
							}
							if isNamed(ft, "reflect", "Type") {
								holdsType = true
							}
						}
					}
					if !holdsAddr || seenT[mt.String()] {
						return
					}
					seenT[mt.String()] = true
					n++
					c.check(holdsType, fmt.Sprintf("structToMap: bookkeeping map %s is keyed by address and type", mt.String()), p.instrPos(in), "the key holds a reflect.Type next to the address", "the map is keyed by the address alone: a struct and its first field (o and &o.Inner) are one address — the field is taken for the struct itself (a cycle: an empty map) or handed the struct's conversion")
				})
			})
			if n == 0 {
				undecided("structToMap keeps no map keyed by an address")
			}
		},
	})
}
