package main

import (
	"fmt"
	"go/constant"
	"go/token"
	"go/types"
	"sort"
	"strings"

	"golang.org/x/tools/go/ssa"
)

// ---------- naming ----------

// calleeName gives a stable printable name for the callee of a call:
// "strings.Contains", "(*strings.Builder).WriteString", "io.Writer.Write" (interface invoke),
// module functions by their short name, "<dynamic>" otherwise.
func calleeName(c *ssa.CallCommon) string {
	if c.IsInvoke() {
		recv := c.Value.Type()
		return typeShort(recv) + "." + c.Method.Name()
	}
	switch v := c.Value.(type) {
	case *ssa.Function:
		return shortName(v)
	case *ssa.Builtin:
		return "builtin." + v.Name()
	case *ssa.MakeClosure:
		if f, ok := v.Fn.(*ssa.Function); ok {
			return shortName(f)
		}
	}
	return "<dynamic>"
}

func typeShort(t types.Type) string {
	s := types.TypeString(t, func(p *types.Package) string {
		path := p.Path()
		if path == modPath {
			return "vuego"
		}
		if strings.HasPrefix(path, modPath+"/") {
			path = strings.TrimPrefix(path, modPath+"/")
			path = strings.TrimPrefix(path, "internal/")
			return path
		}
		return path
	})
	return s
}

func callOf(in ssa.Instruction) *ssa.CallCommon {
	if c, ok := in.(ssa.CallInstruction); ok {
		return c.Common()
	}
	return nil
}

// isCall reports whether the instruction is a (go/defer/plain) call whose callee name is one of names.
func isCall(in ssa.Instruction, names ...string) bool {
	c := callOf(in)
	if c == nil {
		return false
	}
	n := calleeName(c)
	for _, x := range names {
		if n == x {
			return true
		}
	}
	return false
}

func eachInstr(fn *ssa.Function, f func(ssa.Instruction)) {
	for _, b := range fn.Blocks {
		for _, in := range b.Instrs {
			f(in)
		}
	}
}

func callsIn(fn *ssa.Function) []ssa.CallInstruction {
	var out []ssa.CallInstruction
	eachInstr(fn, func(in ssa.Instruction) {
		if c, ok := in.(ssa.CallInstruction); ok {
			out = append(out, c)
		}
	})
	return out
}

// callArgs returns receiver+arguments in a uniform list (receiver first for invokes).
func callArgs(c *ssa.CallCommon) []ssa.Value {
	if c.IsInvoke() {
		return append([]ssa.Value{c.Value}, c.Args...)
	}
	return c.Args
}

// ---------- positions inside a block ----------

func instrIndex(in ssa.Instruction) int {
	for i, x := range in.Block().Instrs {
		if x == in {
			return i
		}
	}
	return -1
}

// dominates reports whether a is executed before b on every path reaching b.
func dominates(a, b ssa.Instruction) bool {
	if a.Block() == b.Block() {
		return instrIndex(a) < instrIndex(b)
	}
	return a.Block().Dominates(b.Block())
}

// blocksAfter returns the blocks reachable from the successors of b (b itself only if on a cycle).
func blocksAfter(b *ssa.BasicBlock) map[*ssa.BasicBlock]bool {
	seen := map[*ssa.BasicBlock]bool{}
	var work []*ssa.BasicBlock
	work = append(work, b.Succs...)
	for len(work) > 0 {
		x := work[len(work)-1]
		work = work[:len(work)-1]
		if seen[x] {
			continue
		}
		seen[x] = true
		work = append(work, x.Succs...)
	}
	return seen
}

// canFollow reports whether b may execute after a on some CFG path (same function).
func canFollow(a, b ssa.Instruction) bool {
	if a.Block() == b.Block() && instrIndex(a) < instrIndex(b) {
		return true
	}
	return blocksAfter(a.Block())[b.Block()]
}

// ---------- guards (edge dominance) ----------

// Guard is one conditional edge that every path to a block must take.
type Guard struct {
	If     *ssa.If
	Branch bool // true: the block is only reached when Cond is true
}

// guardsOf lists the conditional edges that control block b: edge (D -> S) such that S dominates b
// and D is S's only predecessor. Ordered innermost first.
func guardsOf(b *ssa.BasicBlock) []Guard {
	var out []Guard
	for x := b; x != nil; x = x.Idom() {
		if len(x.Preds) != 1 {
			continue
		}
		d := x.Preds[0]
		if len(d.Instrs) == 0 {
			continue
		}
		ifi, ok := d.Instrs[len(d.Instrs)-1].(*ssa.If)
		if !ok {
			continue
		}
		if d.Succs[0] == x && d.Succs[1] != x {
			out = append(out, Guard{ifi, true})
		} else if d.Succs[1] == x && d.Succs[0] != x {
			out = append(out, Guard{ifi, false})
		}
	}
	return out
}

// stripNot peels `!x` and returns the inner value and whether polarity flipped.
func stripNot(v ssa.Value) (ssa.Value, bool) {
	flip := false
	for {
		u, ok := v.(*ssa.UnOp)
		if !ok || u.Op != token.NOT {
			return v, flip
		}
		v = u.X
		flip = !flip
	}
}

// guardedBy reports whether block b is controlled by a condition for which pred returns true.
// pred receives the condition with negations stripped and the polarity the block requires.
func guardedBy(b *ssa.BasicBlock, pred func(cond ssa.Value, want bool) bool) bool {
	for _, g := range guardsOf(b) {
		c, flip := stripNot(g.If.Cond)
		want := g.Branch != flip
		if pred(c, want) {
			return true
		}
		// a condition kept in a boolean local (stray := a || b; if !pre && stray …): when the local is false every
		// disjunct is false, when a conjunction is true every conjunct is true
		if alts, isOr, ok := shortCircuitAlternatives(c); ok && want != isOr {
			for _, a := range alts {
				ac, aflip := stripNot(a)
				if pred(ac, want != aflip) {
					return true
				}
			}
		}
	}
	return false
}

// shortCircuitAlternatives: v is the φ that Go's `a || b || c` (isOr) or `a && b && c` leaves behind when the result is
// kept in a variable — constant edges from the blocks that tested the earlier operands, the last operand on the last
// edge. It returns the operands. Only the canonical chain is recognised: each earlier operand's block ends in a
// branch on that operand, one way to the φ's block (with the constant), the other way to the next operand's block.
func shortCircuitAlternatives(v ssa.Value) (alts []ssa.Value, isOr bool, ok bool) {
	ph, isPhi := v.(*ssa.Phi)
	if !isPhi || len(ph.Edges) < 2 {
		return nil, false, false
	}
	if b, isB := ph.Type().Underlying().(*types.Basic); !isB || b.Info()&types.IsBoolean == 0 {
		return nil, false, false
	}
	blk := ph.Block()
	decided := false
	var last ssa.Value
	nLast := 0
	for i, e := range ph.Edges {
		pred := blk.Preds[i]
		k, isC := e.(*ssa.Const)
		if !isC || k.Value == nil {
			last = e
			nLast++
			continue
		}
		val := constant.BoolVal(k.Value)
		if !decided {
			isOr = val
			decided = true
		} else if isOr != val {
			return nil, false, false
		}
		if len(pred.Instrs) == 0 {
			return nil, false, false
		}
		ifi, isIf := pred.Instrs[len(pred.Instrs)-1].(*ssa.If)
		if !isIf {
			return nil, false, false
		}
		// `||`: the true edge of the operand's test leads here; `&&`: the false edge
		want := 0
		if !val {
			want = 1
		}
		if pred.Succs[want] != blk {
			return nil, false, false
		}
		alts = append(alts, ifi.Cond)
	}
	if !decided || nLast != 1 || last == nil {
		return nil, false, false
	}
	alts = append(alts, last)
	return alts, isOr, true
}

// ---------- constants ----------

func constString(v ssa.Value) (string, bool) {
	if c, ok := v.(*ssa.Const); ok && c.Value != nil && c.Value.Kind() == constant.String {
		return constant.StringVal(c.Value), true
	}
	return "", false
}

func constInt(v ssa.Value) (int64, bool) {
	if c, ok := v.(*ssa.Const); ok && c.Value != nil && c.Value.Kind() == constant.Int {
		if i, ok := constant.Int64Val(c.Value); ok {
			return i, true
		}
	}
	return 0, false
}

func isNilConst(v ssa.Value) bool {
	c, ok := v.(*ssa.Const)
	return ok && c.Value == nil
}

// ---------- cells: local variables that were spilled to memory, and closure captures ----------

// cellOf resolves an address to the Alloc it denotes, following closure free variables to the
// enclosing function's binding. Returns nil when the address is not a plain local cell.
func cellOf(addr ssa.Value) *ssa.Alloc {
	switch a := addr.(type) {
	case *ssa.Alloc:
		return a
	case *ssa.FreeVar:
		fn := a.Parent()
		par := fn.Parent()
		if par == nil {
			return nil
		}
		idx := -1
		for i, fv := range fn.FreeVars {
			if fv == a {
				idx = i
			}
		}
		if idx < 0 {
			return nil
		}
		var found *ssa.Alloc
		walkFuncTree(par, func(f *ssa.Function) {
			eachInstr(f, func(in ssa.Instruction) {
				if mc, ok := in.(*ssa.MakeClosure); ok && mc.Fn == fn && idx < len(mc.Bindings) {
					if c := cellOf(mc.Bindings[idx]); c != nil {
						found = c
					}
				}
			})
		})
		return found
	}
	return nil
}

func walkFuncTree(f *ssa.Function, visit func(*ssa.Function)) {
	visit(f)
	for _, a := range f.AnonFuncs {
		walkFuncTree(a, visit)
	}
}

func rootFunc(f *ssa.Function) *ssa.Function {
	for f.Parent() != nil {
		f = f.Parent()
	}
	return f
}

// storesToCell returns every value stored into the cell, in the owning function and its closures.
func storesToCell(cell *ssa.Alloc) []*ssa.Store {
	var out []*ssa.Store
	walkFuncTree(rootFunc(cell.Parent()), func(f *ssa.Function) {
		eachInstr(f, func(in ssa.Instruction) {
			if st, ok := in.(*ssa.Store); ok && cellOf(st.Addr) == cell {
				out = append(out, st)
			}
		})
	})
	return out
}

// ---------- origins ----------

// OriginOpts tunes the backward value walk.
type OriginOpts struct {
	Depth       int                             // how many static module callees' returns to descend into
	Dynamic     bool                            // also descend into interface/dynamic calls when every call-graph callee is a module function
	StopAt      func(callee *ssa.Function) bool // do not descend into these callees: their call is a leaf
	ThroughCall func(c *ssa.Call) []ssa.Value   // optional: treat a call as a pass-through of these operands
}

// origins walks v backwards to its sources. Leaves are: *ssa.Parameter, *ssa.Const, *ssa.Call
// (not descended), *ssa.Alloc (fresh object, when the value is the pointer itself), *ssa.Global,
// *ssa.MakeMap/MakeSlice/MakeChan/MakeClosure, *ssa.UnOp (load through a field/index address),
// *ssa.Lookup, *ssa.FreeVar, *ssa.BinOp (non-concatenation), *ssa.Function.
func (p *Prog) origins(v ssa.Value, opt OriginOpts) []ssa.Value {
	seen := map[ssa.Value]bool{}
	var out []ssa.Value
	var walk func(v ssa.Value, depth int)
	walk = func(v ssa.Value, depth int) {
		if v == nil || seen[v] {
			return
		}
		seen[v] = true
		switch x := v.(type) {
		case *ssa.Phi:
			for _, e := range x.Edges {
				walk(e, depth)
			}
		case *ssa.ChangeType:
			walk(x.X, depth)
		case *ssa.Convert:
			walk(x.X, depth)
		case *ssa.MakeInterface:
			walk(x.X, depth)
		case *ssa.ChangeInterface:
			walk(x.X, depth)
		case *ssa.TypeAssert:
			walk(x.X, depth)
		case *ssa.Slice:
			walk(x.X, depth)
		case *ssa.SliceToArrayPointer:
			walk(x.X, depth)
		case *ssa.Extract:
			switch t := x.Tuple.(type) {
			case *ssa.TypeAssert:
				walk(t.X, depth)
			case *ssa.Next:
				if r, ok := t.Iter.(*ssa.Range); ok {
					walk(r.X, depth)
				} else {
					out = append(out, v)
				}
			case *ssa.Call:
				if opt.ThroughCall != nil {
					if ops := opt.ThroughCall(t); ops != nil {
						for _, o := range ops {
							walk(o, depth)
						}
						return
					}
				}
				if cs := p.descendable(t, opt, depth); cs != nil {
					for _, callee := range cs {
						for _, r := range returnsOf(callee) {
							if x.Index < len(r.Results) {
								walk(r.Results[x.Index], depth-1)
							}
						}
					}
					return
				}
				out = append(out, v)
			default:
				out = append(out, v)
			}
		case *ssa.Call:
			if opt.ThroughCall != nil {
				if ops := opt.ThroughCall(x); ops != nil {
					for _, o := range ops {
						walk(o, depth)
					}
					return
				}
			}
			if cs := p.descendable(x, opt, depth); cs != nil {
				for _, callee := range cs {
					for _, r := range returnsOf(callee) {
						if len(r.Results) > 0 {
							walk(r.Results[0], depth-1)
						}
					}
				}
				return
			}
			out = append(out, v)
		case *ssa.BinOp:
			if x.Op == token.ADD && isString(x.Type()) {
				walk(x.X, depth)
				walk(x.Y, depth)
				return
			}
			out = append(out, v)
		case *ssa.UnOp:
			if x.Op == token.MUL {
				if cell := cellOf(x.X); cell != nil {
					sts := storesToCell(cell)
					if len(sts) == 0 {
						out = append(out, v)
						return
					}
					for _, st := range sts {
						walk(st.Val, depth)
					}
					return
				}
				// a parameter spilled for address-taking: `new T (param)` handled above via stores
				// a field of a struct that lives in a local variable and is only used through its fields
				// (`o := walker{keys: m.MapKeys()}; sort.Slice(o.keys, …)`): what was stored into that field
				if fa, ok := x.X.(*ssa.FieldAddr); ok {
					if al, ok := fa.X.(*ssa.Alloc); ok && localStructOnly(al) {
						vals, unknown := localFieldValues(al, fa.Field, x, 0)
						if len(vals) > 0 {
							for _, sv := range vals {
								walk(sv, depth)
							}
							if unknown {
								out = append(out, v)
							}
							return
						}
					}
				}
				// an element of a table written as a literal in this function (`for _, c := range []T{a, b}`):
				// whatever was stored into the literal's backing array
				if ia, ok := x.X.(*ssa.IndexAddr); ok {
					base := ia.X
					if sl, ok := base.(*ssa.Slice); ok {
						base = sl.X
					}
					if al, ok := base.(*ssa.Alloc); ok && al.Referrers() != nil {
						if _, isArr := al.Type().(*types.Pointer).Elem().Underlying().(*types.Array); isArr {
							private, found := true, false
							var vals []ssa.Value
							for _, r := range *al.Referrers() {
								switch y := r.(type) {
								case *ssa.IndexAddr:
									if y.Referrers() != nil {
										for _, u := range *y.Referrers() {
											if st, ok := u.(*ssa.Store); ok && st.Addr == ssa.Value(y) {
												vals = append(vals, st.Val)
												found = true
											}
										}
									}
								case *ssa.Slice:
								default:
									private = false
								}
							}
							if private && found {
								for _, sv := range vals {
									walk(sv, depth)
								}
								return
							}
						}
					}
				}
			}
			out = append(out, v)
		case *ssa.Index:
			walk(x.X, depth)
		default:
			out = append(out, v)
		}
	}
	walk(v, opt.Depth)
	return out
}

// descendable returns the module callees whose return values stand for the call's result, or nil.
func (p *Prog) descendable(c *ssa.Call, opt OriginOpts, depth int) []*ssa.Function {
	if depth <= 0 {
		return nil
	}
	if callee := c.Call.StaticCallee(); callee != nil {
		if opt.StopAt != nil && opt.StopAt(callee) {
			return nil
		}
		if inModule(callee) && len(callee.Blocks) > 0 {
			return []*ssa.Function{callee}
		}
		return nil
	}
	if !opt.Dynamic {
		return nil
	}
	cs := p.Callees(c)
	if len(cs) == 0 {
		return nil
	}
	for _, f := range cs {
		if !inModule(f) || len(f.Blocks) == 0 {
			return nil
		}
	}
	return cs
}

func inModule(fn *ssa.Function) bool {
	pk := funcPkg(fn)
	return pk != nil && strings.HasPrefix(pk.Path(), modPath)
}

func returnsOf(fn *ssa.Function) []*ssa.Return {
	var out []*ssa.Return
	eachInstr(fn, func(in ssa.Instruction) {
		if r, ok := in.(*ssa.Return); ok {
			out = append(out, r)
		}
	})
	return out
}

func isString(t types.Type) bool {
	b, ok := t.Underlying().(*types.Basic)
	return ok && b.Info()&types.IsString != 0
}

func isErrorType(t types.Type) bool {
	return types.Identical(t, types.Universe.Lookup("error").Type())
}

// ---------- forward uses ----------

// flowsTo reports whether v (or a value derived from it by phi/convert/extract/assert/concat,
// or by being stored into a local cell and loaded again) reaches an instruction accepted by sink.
func flowsTo(v ssa.Value, sink func(user ssa.Instruction, via ssa.Value) bool) bool {
	seen := map[ssa.Value]bool{}
	var walk func(v ssa.Value) bool
	walk = func(v ssa.Value) bool {
		if v == nil || seen[v] {
			return false
		}
		seen[v] = true
		refs := v.Referrers()
		if refs == nil {
			return false
		}
		for _, u := range *refs {
			if sink(u, v) {
				return true
			}
			switch x := u.(type) {
			case *ssa.Phi, *ssa.ChangeType, *ssa.Convert, *ssa.MakeInterface, *ssa.ChangeInterface, *ssa.TypeAssert, *ssa.Extract, *ssa.Slice:
				if walk(x.(ssa.Value)) {
					return true
				}
			case *ssa.BinOp:
				if x.Op == token.ADD && isString(x.Type()) && walk(x) {
					return true
				}
			case *ssa.Store:
				if x.Val == v {
					if cell := cellOf(x.Addr); cell != nil {
						// loads of the cell anywhere in the function tree
						found := false
						walkFuncTree(rootFunc(cell.Parent()), func(f *ssa.Function) {
							eachInstr(f, func(in ssa.Instruction) {
								if found {
									return
								}
								if ld, ok := in.(*ssa.UnOp); ok && ld.Op == token.MUL && cellOf(ld.X) == cell {
									if walk(ld) {
										found = true
									}
								}
							})
						})
						if found {
							return true
						}
					}
				}
			}
		}
		return false
	}
	return walk(v)
}

// reachesReturn reports whether v flows into a Return of its function (the value is propagated).
func reachesReturn(v ssa.Value) bool {
	return flowsTo(v, func(u ssa.Instruction, via ssa.Value) bool {
		_, ok := u.(*ssa.Return)
		return ok
	})
}

// ---------- access paths ----------

// accessPath renders an address or value as root.field.field…; roots are parameters (by index),
// globals, free variables (resolved to the captured cell's name) and fresh allocations.
func accessPath(v ssa.Value) string {
	switch x := v.(type) {
	case *ssa.Parameter:
		for i, p := range x.Parent().Params {
			if p == x {
				return fmt.Sprintf("param%d", i)
			}
		}
		return "param?"
	case *ssa.Global:
		return "global:" + x.Name()
	case *ssa.FreeVar:
		if c := cellOf(x); c != nil {
			return "cell:" + c.Comment
		}
		return "free:" + x.Name()
	case *ssa.Alloc:
		return "cell:" + x.Comment
	case *ssa.FieldAddr:
		return accessPath(x.X) + "." + fieldName(x.X.Type(), x.Field)
	case *ssa.Field:
		return accessPath(x.X) + "." + fieldNameStruct(x.X.Type(), x.Field)
	case *ssa.UnOp:
		if x.Op == token.MUL {
			return accessPath(x.X)
		}
	case *ssa.IndexAddr:
		return accessPath(x.X) + "[]"
	case *ssa.Phi:
		// loop-carried pointers: use the first non-self edge
		for _, e := range x.Edges {
			if e != v {
				return accessPath(e)
			}
		}
	case *ssa.ChangeType:
		return accessPath(x.X)
	case *ssa.MakeInterface:
		return accessPath(x.X)
	}
	return fmt.Sprintf("?%T", v)
}

func fieldName(ptrT types.Type, idx int) string {
	t := ptrT.Underlying()
	if p, ok := t.(*types.Pointer); ok {
		t = p.Elem().Underlying()
	}
	if s, ok := t.(*types.Struct); ok && idx < s.NumFields() {
		return canonFieldName(s.Field(idx))
	}
	return fmt.Sprintf("f%d", idx)
}

func fieldNameStruct(t types.Type, idx int) string {
	if s, ok := t.Underlying().(*types.Struct); ok && idx < s.NumFields() {
		return canonFieldName(s.Field(idx))
	}
	return fmt.Sprintf("f%d", idx)
}

// fieldVar returns the *types.Var of the field selected by a FieldAddr/Field.
func fieldVar(v ssa.Value) *types.Var {
	switch x := v.(type) {
	case *ssa.FieldAddr:
		t := x.X.Type().Underlying()
		if p, ok := t.(*types.Pointer); ok {
			if s, ok := p.Elem().Underlying().(*types.Struct); ok {
				return s.Field(x.Field)
			}
		}
	case *ssa.Field:
		if s, ok := x.X.Type().Underlying().(*types.Struct); ok {
			return s.Field(x.Field)
		}
	}
	return nil
}

// loadedField: if v is a load (`*addr`) of a struct field (or a Field extraction), return that field.
func loadedField(v ssa.Value) *types.Var {
	switch x := v.(type) {
	case *ssa.UnOp:
		if x.Op == token.MUL {
			return fieldVar(x.X)
		}
	case *ssa.Field:
		return fieldVar(x)
	}
	return nil
}

func namedType(t types.Type) (pkg, name string) {
	if p, ok := t.(*types.Pointer); ok {
		t = p.Elem()
	}
	if n, ok := t.(*types.Named); ok {
		if n.Obj().Pkg() != nil {
			return n.Obj().Pkg().Path(), n.Obj().Name()
		}
		return "", n.Obj().Name()
	}
	return "", ""
}

func isNamed(t types.Type, pkg, name string) bool {
	p, n := namedType(t)
	return p == pkg && n == name
}

// ---------- post-dominance style questions ----------

// mustPassBefore reports whether every path from the function entry to target passes through
// at least one instruction in the set `via` (i.e. removing via-blocks' instructions disconnects).
// Implemented as: target unreachable from entry when paths are cut *after* reaching a via instruction.
func mustPassBefore(fn *ssa.Function, target ssa.Instruction, via map[ssa.Instruction]bool) bool {
	// Forward search from entry over (block, startIndex) without crossing a via instruction.
	type state struct{ b *ssa.BasicBlock }
	seen := map[*ssa.BasicBlock]bool{}
	var work []*ssa.BasicBlock
	if len(fn.Blocks) == 0 {
		return true
	}
	work = append(work, fn.Blocks[0])
	for len(work) > 0 {
		b := work[len(work)-1]
		work = work[:len(work)-1]
		if seen[b] {
			continue
		}
		seen[b] = true
		cut := false
		for _, in := range b.Instrs {
			if in == target {
				return false // reached the target without crossing a via instruction
			}
			if via[in] {
				cut = true
				break
			}
		}
		if !cut {
			work = append(work, b.Succs...)
		}
	}
	return true
}

// pathAvoiding reports whether there is a CFG path from instruction `from` (exclusive) to an
// instruction satisfying `to` that does not cross an instruction in `avoid`.
func pathAvoiding(from ssa.Instruction, to func(ssa.Instruction) bool, avoid func(ssa.Instruction) bool) ssa.Instruction {
	b := from.Block()
	idx := instrIndex(from)
	// rest of the first block
	for _, in := range b.Instrs[idx+1:] {
		if to(in) {
			return in
		}
		if avoid != nil && avoid(in) {
			return nil
		}
	}
	seen := map[*ssa.BasicBlock]bool{}
	work := append([]*ssa.BasicBlock(nil), b.Succs...)
	for len(work) > 0 {
		x := work[len(work)-1]
		work = work[:len(work)-1]
		if seen[x] {
			continue
		}
		seen[x] = true
		cut := false
		for _, in := range x.Instrs {
			if to(in) {
				return in
			}
			if avoid != nil && avoid(in) {
				cut = true
				break
			}
		}
		if !cut {
			work = append(work, x.Succs...)
		}
	}
	return nil
}

// ---------- misc ----------

func sortedKeys[M ~map[string]V, V any](m M) []string {
	out := make([]string, 0, len(m))
	for k := range m {
		out = append(out, k)
	}
	sort.Strings(out)
	return out
}

// recvOf returns the receiver operand of a method call (static or invoke), or nil.
func recvOf(c *ssa.CallCommon) ssa.Value {
	if c.IsInvoke() {
		return c.Value
	}
	if f := c.StaticCallee(); f != nil && f.Signature.Recv() != nil && len(c.Args) > 0 {
		return c.Args[0]
	}
	return nil
}

// errorResultOf returns the value(s) holding the error result of a call, or nil if it has none.
// For a single `error` result it is the call itself; for tuples the Extract of the error index.
// dropped is true when the result exists in the signature but no SSA value consumes it.
func errorResultOf(call ssa.CallInstruction) (vals []ssa.Value, has bool) {
	sig := call.Common().Signature()
	res := sig.Results()
	errIdx := -1
	for i := 0; i < res.Len(); i++ {
		if isErrorType(res.At(i).Type()) {
			errIdx = i
		}
	}
	if errIdx < 0 {
		return nil, false
	}
	cv, ok := call.(*ssa.Call)
	if !ok {
		return nil, true // go/defer: result is dropped
	}
	if res.Len() == 1 {
		return []ssa.Value{cv}, true
	}
	if refs := cv.Referrers(); refs != nil {
		for _, r := range *refs {
			if ex, ok := r.(*ssa.Extract); ok && ex.Index == errIdx {
				vals = append(vals, ex)
			}
		}
	}
	return vals, true
}

// ---------- alternatives of a merged value ----------

// Alt is one way a value can come about: V itself, produced when control leaves From towards To
// (a φ edge), or, for a value that is not a φ, V at the block where it is used (To == nil).
type Alt struct {
	V    ssa.Value
	From *ssa.BasicBlock
	To   *ssa.BasicBlock
}

// alternatives unfolds φ-nodes: every leaf value together with the edge it arrives on.
func alternatives(v ssa.Value, at *ssa.BasicBlock) []Alt {
	var out []Alt
	seen := map[*ssa.Phi]bool{}
	var walk func(v ssa.Value, from, to *ssa.BasicBlock)
	walk = func(v ssa.Value, from, to *ssa.BasicBlock) {
		if phi, ok := v.(*ssa.Phi); ok {
			if seen[phi] {
				return
			}
			seen[phi] = true
			for i, e := range phi.Edges {
				walk(e, phi.Block().Preds[i], phi.Block())
			}
			return
		}
		out = append(out, Alt{v, from, to})
	}
	walk(v, at, nil)
	return out
}

// holdsFor reports whether the alternative only arises under a condition accepted by accept: a guard
// (or short-circuit disjunction) controlling the block the value comes from, or the condition of the
// very edge it arrives on.
func (a Alt) holdsFor(accept func(cond ssa.Value, want bool) bool) bool {
	if enteredOnlyUnder(a.From, accept) {
		return true
	}
	if a.To != nil && len(a.From.Instrs) > 0 {
		if ifi, ok := a.From.Instrs[len(a.From.Instrs)-1].(*ssa.If); ok && a.From.Succs[0] != a.From.Succs[1] {
			cnd, flip := stripNot(ifi.Cond)
			want := (a.From.Succs[0] == a.To) != flip
			return accept(cnd, want)
		}
	}
	return false
}

// everyPathCrosses reports whether every CFG path from the function's entry to target takes at least
// one conditional edge for which accept(cond, polarity) holds — and the condition still speaks about
// the same values when target is reached: an accepted edge is not honoured if, after taking it,
// control can run through the block that computes the condition again and then reach target without
// taking an accepted edge (the fact would belong to an earlier loop iteration).
func everyPathCrosses(target *ssa.BasicBlock, accept func(cond ssa.Value, want bool) bool) bool {
	fn := target.Parent()
	type edge struct {
		from *ssa.BasicBlock
		k    int
	}
	accepted := map[edge]bool{}
	defBlocks := map[edge][]*ssa.BasicBlock{}
	for _, b := range fn.Blocks {
		ifi, isIf := b.Instrs[len(b.Instrs)-1].(*ssa.If)
		if !isIf || b.Succs[0] == b.Succs[1] {
			continue
		}
		cnd, flip := stripNot(ifi.Cond)
		for k := range b.Succs {
			want := (k == 0) != flip
			if accept(cnd, want) {
				e := edge{b, k}
				accepted[e] = true
				walkCond(cnd, func(v ssa.Value) {
					if in, ok := v.(ssa.Instruction); ok && in.Block() != nil {
						defBlocks[e] = append(defBlocks[e], in.Block())
					}
					if ex, ok := v.(*ssa.Extract); ok {
						if in, ok := ex.Tuple.(ssa.Instruction); ok && in.Block() != nil {
							defBlocks[e] = append(defBlocks[e], in.Block())
						}
					}
				})
			}
		}
	}
	reach := func(from *ssa.BasicBlock) map[*ssa.BasicBlock]bool {
		seen := map[*ssa.BasicBlock]bool{}
		work := []*ssa.BasicBlock{from}
		for len(work) > 0 {
			b := work[len(work)-1]
			work = work[:len(work)-1]
			if seen[b] {
				continue
			}
			seen[b] = true
			for k, s := range b.Succs {
				if accepted[edge{b, k}] {
					continue
				}
				work = append(work, s)
			}
		}
		return seen
	}
	for changed := true; changed; {
		changed = false
		for e := range accepted {
			s := e.from.Succs[e.k]
			fromS := reach(s)
			stale := false
			for _, db := range defBlocks[e] {
				if db == e.from && !fromS[db] {
					continue
				}
				if fromS[db] && reach(db)[target] {
					stale = true
				}
			}
			if stale {
				delete(accepted, e)
				changed = true
			}
		}
	}
	return !reach(fn.Blocks[0])[target]
}

// relationOnEdge returns the ordering relation `x op y` that holds when the branch on cond is taken
// (branch == true) or not taken: a comparison, negated for the false edge.
func relationOnEdge(cond ssa.Value, branch bool) (op token.Token, x, y ssa.Value, ok bool) {
	c, flip := stripNot(cond)
	if flip {
		branch = !branch
	}
	b, isB := c.(*ssa.BinOp)
	if !isB {
		return 0, nil, nil, false
	}
	op = b.Op
	if !branch {
		switch op {
		case token.LSS:
			op = token.GEQ
		case token.LEQ:
			op = token.GTR
		case token.GTR:
			op = token.LEQ
		case token.GEQ:
			op = token.LSS
		case token.EQL:
			op = token.NEQ
		case token.NEQ:
			op = token.EQL
		default:
			return 0, nil, nil, false
		}
	}
	switch op {
	case token.LSS, token.LEQ, token.GTR, token.GEQ, token.EQL, token.NEQ:
		return op, b.X, b.Y, true
	}
	return 0, nil, nil, false
}

// eqOnEdge returns the comparison when taking the edge (cond with this polarity) means X == Y:
// `X == Y` taken or `X != Y` not taken; nil otherwise.
func eqOnEdge(cond ssa.Value, want bool) *ssa.BinOp {
	if cond == nil {
		return nil
	}
	c, flip := stripNot(cond)
	if flip {
		want = !want
	}
	b, ok := c.(*ssa.BinOp)
	if !ok {
		return nil
	}
	if (b.Op == token.EQL && want) || (b.Op == token.NEQ && !want) {
		return b
	}
	return nil
}

// ---------- membership in a constant table ----------

// memberOf recognises a test `x ∈ {constants}` written against a table: slices.Contains(table, x) or
// slices.Index(table, x) ≥ 0 with a table backed by a literal of string constants (local or package
// level), or a lookup in a package-level map with constant keys. It returns the subject and the set;
// the returned polarity tells whether cond being true means "is a member".
func memberOf(cond ssa.Value) (subject ssa.Value, set []string, memberWhenTrue bool, ok bool) {
	switch x := cond.(type) {
	case *ssa.Call:
		n := calleeName(&x.Call)
		if (strings.HasPrefix(n, "slices.Contains[") || n == "slices.Contains") && len(x.Call.Args) == 2 {
			if tbl, ok := backingConsts(x.Call.Args[0], 0); ok {
				return x.Call.Args[1], tbl, true, true
			}
		}
	case *ssa.BinOp:
		// slices.Index(table, x) >= 0 / != -1 / < 0 …
		if cl, isCall := x.X.(*ssa.Call); isCall {
			n := calleeName(&cl.Call)
			if (strings.HasPrefix(n, "slices.Index[") || n == "slices.Index") && len(cl.Call.Args) == 2 {
				if tbl, ok := backingConsts(cl.Call.Args[0], 0); ok {
					if k, isK := constInt(x.Y); isK {
						switch {
						case x.Op == token.GEQ && k == 0, x.Op == token.GTR && k == -1, x.Op == token.NEQ && k == -1:
							return cl.Call.Args[1], tbl, true, true
						case x.Op == token.LSS && k == 0, x.Op == token.EQL && k == -1:
							return cl.Call.Args[1], tbl, false, true
						}
					}
				}
			}
		}
	case *ssa.Extract:
		// _, ok := table[x] on a package-level map with constant keys
		if lk, isLk := x.Tuple.(*ssa.Lookup); isLk && x.Index == 1 {
			if keys, ok := mapKeyConsts(lk.X); ok {
				return lk.Index, keys, true, true
			}
		}
	case *ssa.Lookup:
		// table[x] on a map[string]bool
		if !x.CommaOk {
			if b, isB := x.Type().Underlying().(*types.Basic); isB && b.Kind() == types.Bool {
				if keys, ok := mapKeyConsts(x.X); ok {
					return x.Index, keys, true, true
				}
			}
		}
	}
	return nil, nil, false, false
}

// mapKeyConsts: the string-constant keys of a package-level map built by a literal in the initialiser.
func mapKeyConsts(m ssa.Value) ([]string, bool) {
	ld, ok := m.(*ssa.UnOp)
	if !ok || ld.Op != token.MUL {
		return nil, false
	}
	g, ok := ld.X.(*ssa.Global)
	if !ok {
		return nil, false
	}
	init := g.Pkg.Func("init")
	if init == nil {
		return nil, false
	}
	var mk ssa.Value
	n := 0
	eachInstr(init, func(in ssa.Instruction) {
		if st, ok := in.(*ssa.Store); ok && st.Addr == ssa.Value(g) {
			mk = st.Val
			n++
		}
	})
	if n != 1 || mk == nil {
		return nil, false
	}
	var keys []string
	okAll := true
	eachInstr(init, func(in ssa.Instruction) {
		if mu, ok := in.(*ssa.MapUpdate); ok && mu.Map == mk {
			if k, ok := constString(mu.Key); ok {
				keys = append(keys, k)
			} else {
				okAll = false
			}
		}
	})
	return keys, okAll && len(keys) > 0
}

// inSetOnEdge normalises "x is / is not one of these constants" as implied by taking a branch: equality
// or inequality with a string constant, or a membership test against a constant table (memberOf).
// member tells whether the edge implies x ∈ set (true) or x ∉ set (false).
func inSetOnEdge(cond ssa.Value, want bool) (x ssa.Value, set []string, member bool, ok bool) {
	c, flip := stripNot(cond)
	if flip {
		want = !want
	}
	if b, isB := c.(*ssa.BinOp); isB && (b.Op == token.EQL || b.Op == token.NEQ) {
		if k, isK := constString(b.Y); isK {
			return b.X, []string{k}, (b.Op == token.EQL) == want, true
		}
		if k, isK := constString(b.X); isK {
			return b.Y, []string{k}, (b.Op == token.EQL) == want, true
		}
	}
	if subj, set, whenTrue, isM := memberOf(c); isM {
		return subj, set, whenTrue == want, true
	}
	return nil, nil, false, false
}

// ---------- facts that hold on every feasible path ----------

// condKey gives structurally equal pure expressions the same key (a small value numbering): two
// `len(next) == 0` computed at different places are the same condition.
func condKey(v ssa.Value, depth int) string {
	if v == nil {
		return "nil"
	}
	if depth > 6 {
		return fmt.Sprintf("%p", v)
	}
	switch x := v.(type) {
	case *ssa.Const:
		if x.Value == nil {
			return "c:nil"
		}
		return "c:" + x.Value.ExactString()
	case *ssa.BinOp:
		return "(" + x.Op.String() + " " + condKey(x.X, depth+1) + " " + condKey(x.Y, depth+1) + ")"
	case *ssa.Convert:
		return condKey(x.X, depth+1)
	case *ssa.ChangeType:
		return condKey(x.X, depth+1)
	case *ssa.Call:
		n := calleeName(&x.Call)
		switch {
		case n == "builtin.len", n == "builtin.cap", strings.HasPrefix(n, "strings.Has"), n == "strings.Contains", n == "strings.TrimSpace", n == "strings.Index":
			k := "call:" + n + "("
			for _, a := range x.Call.Args {
				k += condKey(a, depth+1) + ","
			}
			return k + ")"
		}
	case *ssa.UnOp:
		if x.Op == token.MUL {
			if cell := cellOf(x.X); cell != nil {
				// a local that is assigned exactly once holds one value
				if sts := storesToCell(cell); len(sts) == 1 {
					return condKey(sts[0].Val, depth+1)
				}
			}
		}
	}
	return fmt.Sprintf("%p", v)
}

// PathFact is a branch condition with the polarity it has on the paths considered.
type PathFact struct {
	Cond ssa.Value
	Want bool
}

// pathFacts returns the branch facts that hold on every feasible path to target within one iteration
// of its innermost loop (from the loop header) or from the function entry. A path is infeasible when it
// takes two edges that contradict each other on structurally equal conditions. ok is false when there
// are too many paths to enumerate.
func pathFacts(target *ssa.BasicBlock) (facts []PathFact, ok bool) {
	fn := target.Parent()
	start := fn.Blocks[0]
	if h := loopHeaderOf(target); h != nil && h != target {
		start = h
	}
	type fact struct {
		cond ssa.Value
		want bool
	}
	var common map[string]fact
	paths := 0
	tooMany := false
	var cur []fact
	curKeys := map[string]bool{} // key+polarity → present
	onPath := map[*ssa.BasicBlock]bool{}
	var dfs func(b *ssa.BasicBlock)
	dfs = func(b *ssa.BasicBlock) {
		if tooMany {
			return
		}
		if b == target {
			paths++
			if paths > 4000 {
				tooMany = true
				return
			}
			set := map[string]fact{}
			for _, f := range cur {
				k, inv := eqKey(f.cond)
				if f.want != inv {
					k = "+" + k
				} else {
					k = "-" + k
				}
				set[k] = f
			}
			if common == nil {
				common = set
			} else {
				for k := range common {
					if _, has := set[k]; !has {
						delete(common, k)
					}
				}
			}
			return
		}
		if onPath[b] {
			return
		}
		onPath[b] = true
		defer func() { onPath[b] = false }()
		ifi, isIf := b.Instrs[len(b.Instrs)-1].(*ssa.If)
		for k, s := range b.Succs {
			if s.Dominates(b) && s != target {
				continue // a back edge: the next iteration
			}
			if isIf && b.Succs[0] != b.Succs[1] {
				cnd, flip := stripNot(ifi.Cond)
				want := (k == 0) != flip
				key, inv := eqKey(cnd)
				pos, neg := "+"+key, "-"+key
				mine, other := pos, neg
				if want == inv { // the edge on which the ==-form of the test is false
					mine, other = neg, pos
				}
				if curKeys[other] {
					continue // contradicts an earlier edge of this path
				}
				had := curKeys[mine]
				curKeys[mine] = true
				cur = append(cur, fact{cnd, want})
				dfs(s)
				cur = cur[:len(cur)-1]
				if !had {
					delete(curKeys, mine)
				}
				continue
			}
			dfs(s)
		}
	}
	dfs(start)
	if tooMany || common == nil {
		return nil, false
	}
	var keys []string
	for k := range common {
		keys = append(keys, k)
	}
	sort.Strings(keys)
	for _, k := range keys {
		facts = append(facts, PathFact{common[k].cond, common[k].want})
	}
	return facts, true
}

// localStructOnly: the allocation is a struct variable of its function that is only ever accessed field by
// field or copied as a whole (never passed by address), so its fields behave like local variables.
func localStructOnly(al *ssa.Alloc) bool {
	pt, ok := al.Type().Underlying().(*types.Pointer)
	if !ok {
		return false
	}
	if _, ok := pt.Elem().Underlying().(*types.Struct); !ok {
		return false
	}
	refs := al.Referrers()
	if refs == nil {
		return false
	}
	for _, u := range *refs {
		switch x := u.(type) {
		case *ssa.FieldAddr:
			// the field's address must itself only be loaded from / stored to
			for _, uu := range *x.Referrers() {
				switch y := uu.(type) {
				case *ssa.Store:
					if y.Addr != ssa.Value(x) {
						return false
					}
				case *ssa.UnOp:
					if y.Op != token.MUL {
						return false
					}
				default:
					return false
				}
			}
		case *ssa.UnOp:
			if x.Op != token.MUL {
				return false
			}
		case *ssa.Store:
			if x.Addr != ssa.Value(al) {
				return false
			}
		case *ssa.DebugRef:
		default:
			return false
		}
	}
	return true
}

// localFieldValues: the values a field of a local struct variable may hold when it is read at `at`:
// what was stored into the field before, and — when the struct was assigned as a whole from another
// local struct (`order := walker{…}` is built in a temporary and copied) — that struct's field.
// unknown reports that the struct was also assigned as a whole from something that is not followed.
func localFieldValues(al *ssa.Alloc, field int, at ssa.Instruction, depth int) (vals []ssa.Value, unknown bool) {
	if depth > 3 {
		return nil, true
	}
	for _, u := range *al.Referrers() {
		switch x := u.(type) {
		case *ssa.FieldAddr:
			if x.Field != field {
				continue
			}
			for _, uu := range *x.Referrers() {
				if st, ok := uu.(*ssa.Store); ok && st.Addr == ssa.Value(x) && (at.Parent() != st.Parent() || canFollow(st, at)) {
					vals = append(vals, st.Val)
				}
			}
		case *ssa.Store:
			if x.Addr != ssa.Value(al) {
				continue
			}
			if ld, ok := x.Val.(*ssa.UnOp); ok && ld.Op == token.MUL {
				if src, ok := ld.X.(*ssa.Alloc); ok && src != al && localStructOnly(src) {
					v2, u2 := localFieldValues(src, field, ld, depth+1)
					vals = append(vals, v2...)
					if u2 || len(v2) == 0 {
						unknown = true
					}
					continue
				}
			}
			unknown = true
		}
	}
	return vals, unknown
}

// relationConstRight is relationOnEdge with a constant operand moved to the right-hand side
// (`0 < n` becomes `n > 0`).
func relationConstRight(cond ssa.Value, branch bool) (op token.Token, x, y ssa.Value, ok bool) {
	op, x, y, ok = relationOnEdge(cond, branch)
	if !ok {
		return
	}
	_, xc := x.(*ssa.Const)
	_, yc := y.(*ssa.Const)
	if xc && !yc {
		x, y = y, x
		switch op {
		case token.LSS:
			op = token.GTR
		case token.LEQ:
			op = token.GEQ
		case token.GTR:
			op = token.LSS
		case token.GEQ:
			op = token.LEQ
		}
	}
	return
}

// mustPassBetween reports whether every CFG path from instruction `from` (exclusive) to `to` crosses
// an instruction of via.
func mustPassBetween(from, to ssa.Instruction, via map[ssa.Instruction]bool) bool {
	return pathAvoiding(from, func(in ssa.Instruction) bool { return in == to }, func(in ssa.Instruction) bool { return via[in] }) == nil
}

// canFollowSameRound is canFollow without back edges: b can run after a before any enclosing loop
// starts its next iteration (SSA values of the body then stand for the same dynamic values).
func canFollowSameRound(a, b ssa.Instruction) bool {
	if a.Block() == b.Block() && instrIndex(b) > instrIndex(a) {
		return true
	}
	seen := map[*ssa.BasicBlock]bool{}
	var work []*ssa.BasicBlock
	push := func(from *ssa.BasicBlock) {
		for _, s := range from.Succs {
			if s.Dominates(from) {
				continue // back edge
			}
			work = append(work, s)
		}
	}
	push(a.Block())
	for len(work) > 0 {
		x := work[len(work)-1]
		work = work[:len(work)-1]
		if seen[x] {
			continue
		}
		seen[x] = true
		if x == b.Block() {
			return true
		}
		push(x)
	}
	return false
}

// eqKey is condKey with `x != y` keyed as the negation of `x == y` (operands in a fixed order), so that the
// two spellings of one test contradict / confirm each other on a path.
func eqKey(cnd ssa.Value) (key string, inverted bool) {
	if b, ok := cnd.(*ssa.BinOp); ok {
		x, y := condKey(b.X, 1), condKey(b.Y, 1)
		switch b.Op {
		case token.EQL, token.NEQ:
			if y < x {
				x, y = y, x
			}
			return "(== " + x + " " + y + ")", b.Op == token.NEQ
		// the four orderings as one: a<b, a>=b ≡ !(a<b), a>b ≡ b<a, a<=b ≡ !(b<a)
		case token.LSS:
			return "(< " + x + " " + y + ")", false
		case token.GEQ:
			return "(< " + x + " " + y + ")", true
		case token.GTR:
			return "(< " + y + " " + x + ")", false
		case token.LEQ:
			return "(< " + y + " " + x + ")", true
		}
	}
	return condKey(cnd, 0), false
}

// ---------- range-over-func loops over the standard iterators ----------

// rangeFunc describes `for … := range slices.Backward(x) { body }` and its relatives: go/ssa compiles the
// body into a closure (the yield function) that the iterator calls once per element.
type rangeFunc struct {
	Seq  *ssa.Call     // the call that makes the iterator (slices.Backward, slices.All, slices.Values, maps.Keys…)
	Over ssa.Value     // what is iterated
	Iter *ssa.Call     // the call of the iterator with the body
	Body *ssa.Function // the loop body
	Dir  int           // +1 ascending, -1 descending, 0 unordered (maps)
}

func rangeFuncs(fn *ssa.Function) []rangeFunc {
	var out []rangeFunc
	for _, site := range callsIn(fn) {
		it, ok := site.(*ssa.Call)
		if !ok || it.Call.IsInvoke() || it.Call.StaticCallee() != nil || len(it.Call.Args) != 1 {
			continue
		}
		seq, ok := it.Call.Value.(*ssa.Call)
		if !ok || len(seq.Call.Args) == 0 {
			continue
		}
		mc, ok := it.Call.Args[0].(*ssa.MakeClosure)
		if !ok {
			continue
		}
		body, _ := mc.Fn.(*ssa.Function)
		if body == nil {
			continue
		}
		name := calleeName(&seq.Call)
		if i := strings.Index(name, "["); i >= 0 {
			name = name[:i]
		}
		dir, known := 0, true
		switch name {
		case "slices.Backward":
			dir = -1
		case "slices.All", "slices.Values":
			dir = +1
		case "maps.Keys", "maps.Values", "maps.All":
			dir = 0
		default:
			known = false
		}
		if !known {
			continue
		}
		out = append(out, rangeFunc{Seq: seq, Over: seq.Call.Args[0], Iter: it, Body: body, Dir: dir})
	}
	return out
}

// paramOf returns the parameter of fn that plays a given part: the one of that name if there is one (parameters move
// when one is added, dropped or turned into a field / a receiver), else the one at the position it had in the pinned
// tree — provided the function still has as many parameters as it had there. Otherwise the rule that asks cannot
// tell the parameters apart and is undecided for this tree.
func paramOf(fn *ssa.Function, name string, idx, count int) *ssa.Parameter {
	for _, prm := range fn.Params {
		if prm.Name() == name {
			return prm
		}
	}
	if len(fn.Params) == count && idx < count {
		return fn.Params[idx]
	}
	undecided("parameter %q of %s cannot be identified: the function's parameter list changed (%d parameters, none of that name)", name, shortName(fn), len(fn.Params))
	return nil
}

// originsThroughCallers is origins, with a parameter of an unexported module function (or of a method that
// only the module calls) replaced by the origins of the corresponding argument at every call site — the
// value a caller now computes and hands in. A parameter of a function without known call sites stays a leaf.
func (p *Prog) originsThroughCallers(v ssa.Value, opt OriginOpts, depth int) []ssa.Value {
	var out []ssa.Value
	seen := map[ssa.Value]bool{}
	var walk func(v ssa.Value, d int)
	walk = func(v ssa.Value, d int) {
		for _, o := range p.origins(v, opt) {
			if seen[o] {
				continue
			}
			seen[o] = true
			prm, ok := o.(*ssa.Parameter)
			if !ok || d <= 0 || prm.Parent() == nil || token.IsExported(prm.Parent().Name()) {
				out = append(out, o)
				continue
			}
			fn := prm.Parent()
			idx := -1
			for i, q := range fn.Params {
				if q == prm {
					idx = i
				}
			}
			callers := p.Callers(fn)
			if idx < 0 || len(callers) == 0 {
				out = append(out, o)
				continue
			}
			for _, cs := range callers {
				args := cs.Common().Args
				if cs.Common().IsInvoke() || idx >= len(args) {
					out = append(out, o)
					continue
				}
				walk(args[idx], d-1)
			}
		}
	}
	walk(v, depth)
	return out
}

// throughCallee: a value that is one result of a call of a local closure stands for what that
// function returns in that position, with the function's parameters replaced by the call's arguments
// (`return failed(err)` with failed := func(err error) (T, U, error) { cleanup(); return nil, nil, err }).
// Anything else stands for itself.
func throughCallee(v ssa.Value) []ssa.Value {
	ex, ok := v.(*ssa.Extract)
	if !ok {
		return []ssa.Value{v}
	}
	cl, ok := ex.Tuple.(*ssa.Call)
	if !ok {
		return []ssa.Value{v}
	}
	callee := cl.Call.StaticCallee()
	if callee == nil || !inModule(callee) || len(callee.Blocks) == 0 || callee.Parent() == nil {
		return []ssa.Value{v} // (named functions are roles of their own, or have been inlined: only local closures)
	}
	args := cl.Call.Args
	var out []ssa.Value
	for _, b := range callee.Blocks {
		if len(b.Instrs) == 0 {
			continue
		}
		r, isRet := b.Instrs[len(b.Instrs)-1].(*ssa.Return)
		if !isRet || ex.Index >= len(r.Results) {
			continue
		}
		res := r.Results[ex.Index]
		if prm, isP := res.(*ssa.Parameter); isP {
			for i, q := range callee.Params {
				if q == prm && i < len(args) {
					res = args[i]
				}
			}
		}
		out = append(out, res)
	}
	if len(out) == 0 {
		return []ssa.Value{v}
	}
	return out
}

// allNilConst: every value the operand stands for (throughCallee) is the nil constant.
func allNilConst(v ssa.Value) bool {
	for _, x := range throughCallee(v) {
		if !isNilConst(x) {
			return false
		}
	}
	return true
}

// concatParts: the pieces a string value is put together from, in order — the operands of a chain of `+`, or what was
// written into a local strings.Builder whose String() the value is (every write lies on the one way to that call).
// A value that is neither stands for itself.
func concatParts(v ssa.Value) []ssa.Value {
	switch x := v.(type) {
	case *ssa.BinOp:
		if x.Op == token.ADD && isString(x.Type()) {
			return append(concatParts(x.X), concatParts(x.Y)...)
		}
	case *ssa.Call:
		if calleeName(&x.Call) == "strings.Join" && len(x.Call.Args) == 2 {
			// strings.Join([]string{a, b, c}, sep): a slice literal is an array filled by constant index
			if sl, ok := x.Call.Args[0].(*ssa.Slice); ok && sl.Low == nil && sl.High == nil {
				if al, ok := sl.X.(*ssa.Alloc); ok && al.Referrers() != nil {
					if pt, ok := al.Type().Underlying().(*types.Pointer); ok {
						if arr, ok := pt.Elem().Underlying().(*types.Array); ok && arr.Len() > 0 && arr.Len() <= 16 {
							elems := make([]ssa.Value, arr.Len())
							plain := true
							for _, r := range *al.Referrers() {
								switch ia := r.(type) {
								case *ssa.IndexAddr:
									i, isC := constInt(ia.Index)
									if !isC || i < 0 || i >= arr.Len() || ia.Referrers() == nil {
										plain = false
										continue
									}
									for _, r2 := range *ia.Referrers() {
										if st, ok := r2.(*ssa.Store); ok && st.Addr == ssa.Value(ia) && elems[i] == nil && dominates(st, x) {
											elems[i] = st.Val
										} else {
											plain = false
										}
									}
								case *ssa.Slice:
									if r != ssa.Instruction(sl) {
										plain = false
									}
								default:
									plain = false
								}
							}
							for _, e := range elems {
								if e == nil {
									plain = false
								}
							}
							if _, sepConst := constString(x.Call.Args[1]); plain && sepConst {
								var out []ssa.Value
								for i, e := range elems {
									if s, _ := constString(x.Call.Args[1]); i > 0 && s != "" {
										out = append(out, x.Call.Args[1])
									}
									out = append(out, concatParts(e)...)
								}
								return out
							}
						}
					}
				}
			}
		}
		if calleeName(&x.Call) == "(*strings.Builder).String" && len(x.Call.Args) == 1 {
			if al, ok := x.Call.Args[0].(*ssa.Alloc); ok && al.Referrers() != nil {
				type w struct {
					at  ssa.Instruction
					val ssa.Value
				}
				var ws []w
				for _, r := range *al.Referrers() {
					cs, ok := r.(ssa.CallInstruction)
					if !ok || cs == ssa.CallInstruction(x) {
						continue
					}
					nm := calleeName(cs.Common())
					if nm == "(*strings.Builder).WriteString" || nm == "(*strings.Builder).WriteByte" || nm == "(*strings.Builder).WriteRune" {
						if !dominates(cs, x) {
							return []ssa.Value{v} // written on some ways only: not a plain concatenation
						}
						ws = append(ws, w{cs, cs.Common().Args[1]})
					}
				}
				if len(ws) > 0 {
					sort.SliceStable(ws, func(i, j int) bool { return dominates(ws[i].at, ws[j].at) })
					var out []ssa.Value
					for _, e := range ws {
						out = append(out, e.val)
					}
					return out
				}
			}
		}
	}
	return []ssa.Value{v}
}
