package main

import (
	"fmt"
	"go/token"
	"go/types"
	"sort"
	"strings"

	"golang.org/x/tools/go/ssa"
)

// loopBlocks returns the blocks of the natural loop whose header contains `next`
// (blocks reachable from the header that can reach it again), excluding the header's exit.
func loopBlocks(header *ssa.BasicBlock) map[*ssa.BasicBlock]bool {
	out := map[*ssa.BasicBlock]bool{header: true}
	var work []*ssa.BasicBlock
	for _, pr := range header.Preds {
		if header.Dominates(pr) { // back edge
			work = append(work, pr)
		}
	}
	for len(work) > 0 {
		b := work[len(work)-1]
		work = work[:len(work)-1]
		if out[b] {
			continue
		}
		out[b] = true
		work = append(work, b.Preds...)
	}
	return out
}

func isSortCall(c *ssa.CallCommon) bool {
	n := calleeName(c)
	switch n {
	case "sort.Strings", "sort.Ints", "sort.Float64s", "sort.Slice", "sort.SliceStable", "sort.Sort", "sort.Stable",
		"slices.Sort", "slices.SortFunc", "slices.SortStableFunc":
		return true
	}
	return strings.HasPrefix(n, "slices.Sort[") || strings.HasPrefix(n, "slices.SortFunc[") || strings.HasPrefix(n, "slices.SortStableFunc[")
}

// sortedLater: the slice value built in the loop (through cell or phi) is passed to a sort call that can follow the loop.
func (p *Prog) sortedLater(fn *ssa.Function, built ssa.Value, loop map[*ssa.BasicBlock]bool) bool {
	cellsOf := func(v ssa.Value) map[*ssa.Alloc]bool {
		out := map[*ssa.Alloc]bool{}
		if refs := v.Referrers(); refs != nil {
			for _, r := range *refs {
				if st, ok := r.(*ssa.Store); ok && st.Val == v {
					if c := cellOf(st.Addr); c != nil {
						out[c] = true
					}
				}
			}
		}
		return out
	}
	cells := cellsOf(built)
	found := false
	eachInstr(fn, func(in ssa.Instruction) {
		site, ok := in.(ssa.CallInstruction)
		if !ok || !isSortCall(site.Common()) || loop[in.Block()] {
			return
		}
		var cands []ssa.Value
		cands = append(cands, p.origins(site.Common().Args[0], OriginOpts{})...)
		// sort.Sort(byName{entries: built}): the slice travels inside a local sort.Interface value
		for _, o := range cands {
			var holder *ssa.Alloc
			if ld, ok := o.(*ssa.UnOp); ok && ld.Op == token.MUL {
				holder, _ = ld.X.(*ssa.Alloc)
			} else if al, ok := o.(*ssa.Alloc); ok {
				holder = al
			}
			if holder == nil || holder.Referrers() == nil {
				continue
			}
			for _, u := range *holder.Referrers() {
				if fa, ok := u.(*ssa.FieldAddr); ok {
					for _, uu := range *fa.Referrers() {
						if st, ok := uu.(*ssa.Store); ok && st.Addr == ssa.Value(fa) {
							cands = append(cands, p.origins(st.Val, OriginOpts{})...)
						}
					}
				}
			}
		}
		for _, o := range cands {
			if o == built {
				found = true
			}
			if ld, ok := o.(*ssa.UnOp); ok && ld.Op == token.MUL {
				if c := cellOf(ld.X); c != nil && cells[c] {
					found = true
				}
			}
			if ph, ok := o.(*ssa.Phi); ok {
				for _, e := range ph.Edges {
					if e == built {
						found = true
					}
				}
			}
		}
		// origins() stops at phi edges; also accept a phi that merges the built value
		if ph, ok := site.Common().Args[0].(*ssa.Phi); ok {
			for _, e := range ph.Edges {
				if e == built {
					found = true
				}
			}
		}
	})
	return found
}

type rangeVerdict struct {
	ordered bool // the loop's effect depends on iteration order
	reason  string
	sorted  bool // ... but the produced sequence is sorted before use
}

// classifyMapRange decides whether the body of a range-over-map loop is order-sensitive.
func (p *Prog) classifyMapRange(rng *ssa.Range) rangeVerdict {
	fn := rng.Parent()
	// the Next instruction consuming this iterator
	var next *ssa.Next
	if refs := rng.Referrers(); refs != nil {
		for _, r := range *refs {
			if n, ok := r.(*ssa.Next); ok {
				next = n
			}
		}
	}
	if next == nil {
		return rangeVerdict{}
	}
	loop := loopBlocks(next.Block())
	var keyVal ssa.Value
	if refs := next.Referrers(); refs != nil {
		for _, r := range *refs {
			if ex, ok := r.(*ssa.Extract); ok && ex.Index == 1 {
				keyVal = ex
			}
		}
	}
	var fromKeyD func(v ssa.Value, d int) bool
	fromKeyD = func(v ssa.Value, d int) bool {
		if keyVal == nil || v == nil || d > 6 {
			return false
		}
		if v == keyVal {
			return true
		}
		switch x := v.(type) {
		case *ssa.ChangeType:
			return fromKeyD(x.X, d+1)
		case *ssa.Convert:
			return fromKeyD(x.X, d+1)
		case *ssa.MakeInterface:
			return fromKeyD(x.X, d+1)
		case *ssa.Slice:
			return fromKeyD(x.X, d+1)
		case *ssa.Call:
			// string trimming / case conversion of the key keeps it a function of the key alone
			n := calleeName(&x.Call)
			if strings.HasPrefix(n, "strings.") && len(x.Call.Args) > 0 {
				return fromKeyD(x.Call.Args[0], d+1)
			}
		case *ssa.BinOp:
			if x.Op == token.ADD && isString(x.Type()) {
				if _, ok := x.X.(*ssa.Const); ok {
					return fromKeyD(x.Y, d+1)
				}
				if _, ok := x.Y.(*ssa.Const); ok {
					return fromKeyD(x.X, d+1)
				}
			}
		case *ssa.UnOp:
			if x.Op == token.MUL {
				if c := cellOf(x.X); c != nil {
					sts := storesToCell(c)
					if len(sts) == 1 {
						return fromKeyD(sts[0].Val, d+1)
					}
				}
			}
		}
		return false
	}
	fromKey := func(v ssa.Value) bool { return fromKeyD(v, 0) }
	verdict := rangeVerdict{}
	set := func(reason string) {
		if !verdict.ordered {
			verdict.ordered = true
			verdict.reason = reason
		}
	}
	for b := range loop {
		for _, in := range b.Instrs {
			switch x := in.(type) {
			case *ssa.MapUpdate:
				if !fromKey(x.Key) {
					set(fmt.Sprintf("map update under a key that is not the range key at %s (last iteration wins)", p.instrPos(x)))
				}
			case *ssa.Store:
				// stores to outer cells of non-accumulating kind (x = v): last wins, unless the address is keyed
				if cell := cellOf(x.Addr); cell != nil {
					// writes to a local declared outside the loop
					if !loop[cell.Block()] || cell.Parent() != fn {
						if isString(x.Val.Type()) || isSliceType(x.Val.Type()) {
							// accumulation handled through the value's definition below
						}
					}
				} else if ia, isIdx := x.Addr.(*ssa.IndexAddr); isIdx {
					// slice element store: position-dependent only if the index is loop-carried; conservatively ordered —
					// unless the slice is one made in this function and sorted after the loop (`out[next] = k; next++`
					// is append spelled with an index)
					sortedAfter := false
					for _, o := range append(p.origins(ia.X, OriginOpts{}), ia.X) {
						if mk, ok := o.(*ssa.MakeSlice); ok && mk.Parent() == fn && p.sortedLater(fn, mk, loop) {
							sortedAfter = true
						}
					}
					if sortedAfter {
						verdict.sorted = true
						set(fmt.Sprintf("slice filled by index at %s", p.instrPos(x)))
					} else {
						set(fmt.Sprintf("store into a slice element at %s", p.instrPos(x)))
					}
				}
			case *ssa.BinOp:
				if x.Op == token.ADD && isString(x.Type()) {
					// string accumulation across iterations: one operand is loop-carried (phi or cell load)
					if loopCarried(x.X, loop) || loopCarried(x.Y, loop) {
						set(fmt.Sprintf("string built by concatenation across iterations at %s", p.instrPos(x)))
					}
				}
			case *ssa.Return:
				if !constResults(x) {
					set(fmt.Sprintf("return of a computed value from inside the loop at %s (first match depends on iteration order)", p.instrPos(x)))
				}
			case ssa.CallInstruction:
				cc := x.Common()
				name := calleeName(cc)
				if bi, ok := cc.Value.(*ssa.Builtin); ok {
					if bi.Name() == "append" {
						if cv, ok := x.(*ssa.Call); ok {
							if p.sortedLater(fn, cv, loop) {
								verdict.sorted = true
								set(fmt.Sprintf("slice built by append at %s", p.instrPos(x)))
							} else {
								set(fmt.Sprintf("slice built by append at %s and not sorted afterwards", p.instrPos(x)))
								verdict.sorted = false
								return verdict
							}
						}
					}
					continue
				}
				if isWriteLike(name, cc) {
					set(fmt.Sprintf("%s at %s emits output inside the loop", name, p.instrPos(x)))
					continue
				}
				if cc.IsInvoke() || cc.StaticCallee() == nil {
					if _, isFn := cc.Value.Type().Underlying().(*types.Signature); isFn && !cc.IsInvoke() {
						set(fmt.Sprintf("callback invoked per element at %s", p.instrPos(x)))
					}
					continue
				}
				callee := cc.StaticCallee()
				if inModule(callee) {
					// keyed setters: the first argument after the receiver is the range key
					args := cc.Args
					if callee.Signature.Recv() != nil && len(args) > 1 && fromKey(args[1]) {
						continue
					}
					if callee.Signature.Recv() == nil && len(args) > 0 && fromKey(args[0]) && returnsNothing(callee) {
						continue
					}
					if p.hasOutputEffect(callee, map[*ssa.Function]bool{}) {
						set(fmt.Sprintf("%s at %s has ordered effects (writes/appends to shared state)", name, p.instrPos(x)))
					}
				}
			}
		}
	}
	// break out of the loop on a data condition: an exit edge from a non-header block
	for b := range loop {
		if b == next.Block() {
			continue
		}
		for _, s := range b.Succs {
			if !loop[s] {
				// leaving through `return <constants>` (all/any tests) gives the same result whichever element triggers it
				if r, ok := s.Instrs[len(s.Instrs)-1].(*ssa.Return); ok && constResults(r) && len(s.Instrs) <= 2 {
					continue
				}
				if _, isRet := b.Instrs[len(b.Instrs)-1].(*ssa.Return); !isRet {
					set(fmt.Sprintf("break out of the loop at %s (which element is seen first depends on iteration order)", p.instrPos(b.Instrs[len(b.Instrs)-1])))
				}
			}
		}
	}
	return verdict
}

func constResults(r *ssa.Return) bool {
	for _, v := range r.Results {
		if _, ok := v.(*ssa.Const); !ok {
			return false
		}
	}
	return true
}

func returnsNothing(f *ssa.Function) bool { return f.Signature.Results().Len() == 0 }

func isSliceType(t types.Type) bool {
	_, ok := t.Underlying().(*types.Slice)
	return ok
}

func loopCarried(v ssa.Value, loop map[*ssa.BasicBlock]bool) bool {
	switch x := v.(type) {
	case *ssa.Phi:
		return loop[x.Block()]
	case *ssa.UnOp:
		if x.Op == token.MUL {
			if c := cellOf(x.X); c != nil {
				// the cell is assigned inside the loop
				for _, st := range storesToCell(c) {
					if loop[st.Block()] {
						return true
					}
				}
			}
		}
	}
	return false
}

func isWriteLike(name string, cc *ssa.CallCommon) bool {
	base := name[strings.LastIndex(name, ".")+1:]
	if strings.HasPrefix(base, "Write") || strings.HasPrefix(base, "Fprint") || base == "WriteString" || base == "WriteByte" || base == "WriteRune" {
		return true
	}
	return false
}

// hasOutputEffect: the function (transitively, module only) writes to a writer/builder or appends to non-local state.
func (p *Prog) hasOutputEffect(fn *ssa.Function, seen map[*ssa.Function]bool) bool {
	if seen[fn] {
		return false
	}
	seen[fn] = true
	found := false
	eachInstr(fn, func(in ssa.Instruction) {
		if found {
			return
		}
		switch x := in.(type) {
		case *ssa.Store:
			if fa, ok := x.Addr.(*ssa.FieldAddr); ok {
				// field store through a parameter: state visible to the caller
				if strings.HasPrefix(accessPath(fa), "param") {
					if isSliceType(x.Val.Type()) {
						found = true
					}
				}
			}
		case ssa.CallInstruction:
			cc := x.Common()
			if isWriteLike(calleeName(cc), cc) {
				// writes into a builder that is local to fn are not an effect
				if r := recvOf(cc); r != nil {
					for _, o := range p.origins(r, OriginOpts{}) {
						if _, isAlloc := o.(*ssa.Alloc); !isAlloc {
							found = true
						}
					}
				} else {
					found = true
				}
			}
			if callee := cc.StaticCallee(); callee != nil && inModule(callee) {
				if p.hasOutputEffect(callee, seen) {
					found = true
				}
			}
		}
	})
	return found
}

func init() {
	register(&Rule{
		ID: "C10.R1", Props: []string{"C10", "C14", "C04", "C18"}, Min: 12,
		Doc: "no map-iteration order in ordered output: every range over a map in the module is classified from its body — commutative (map updates / keyed setters under the range key, deletes, counting) or order-sensitive (append, string building, writes, callbacks, first-match break/return, updates under a fixed key); an order-sensitive loop must sort what it produced before it is used; every reflect MapKeys() result is sorted before it is iterated",
		Run: func(p *Prog, c *Ctx) {
			n := map[string]int{}
			for _, fn := range p.Funcs {
				eachInstr(fn, func(in ssa.Instruction) {
					switch x := in.(type) {
					case *ssa.Range:
						if _, ok := x.X.Type().Underlying().(*types.Map); !ok {
							return
						}
						n[shortName(fn)]++
						key := fmt.Sprintf("%s: range %s#%d", shortName(fn), describeRangeOperand(p, x.X), n[shortName(fn)])
						v := p.classifyMapRange(x)
						switch {
						case !v.ordered:
							c.ok(key, p.instrPos(x), "commutative body: the result does not depend on iteration order")
						case v.sorted:
							c.ok(key, p.instrPos(x), "order-sensitive ("+v.reason+") but the produced slice is sorted before use")
						default:
							c.fail(key, p.instrPos(x), "order-sensitive loop over a map: "+v.reason+" — Go randomises map iteration, so the output differs from render to render")
						}
					case *ssa.Call:
						if calleeName(&x.Call) != "(reflect.Value).MapKeys" {
							return
						}
						n[shortName(fn)+"mk"]++
						key := fmt.Sprintf("%s: MapKeys#%d", shortName(fn), n[shortName(fn)+"mk"])
						var sortCall ssa.Instruction
						eachInstr(fn, func(in2 ssa.Instruction) {
							if site, ok := in2.(ssa.CallInstruction); ok && isSortCall(site.Common()) {
								for _, o := range p.origins(site.Common().Args[0], OriginOpts{}) {
									if o == x {
										sortCall = in2
									}
								}
							}
						})
						if sortCall == nil && commutativeKeysUse(fn) {
							c.ok(key, p.instrPos(x), "the keys only fill a map under keys derived from them: the result does not depend on their order")
							return
						}
						if sortCall == nil {
							c.fail(key, p.instrPos(x), "reflect MapKeys() result is iterated without being sorted: the order of a v-for over a map is random")
							return
						}
						// every other use of the keys must come after the sort
						bad := ""
						if refs := x.Referrers(); refs != nil {
							for _, r := range *refs {
								if r == sortCall {
									continue
								}
								if mi, ok := r.(*ssa.MakeInterface); ok {
									_ = mi
									continue // the interface conversion for the sort call itself
								}
								if mc, ok := r.(*ssa.MakeClosure); ok {
									_ = mc
									continue
								}
								if st, ok := r.(*ssa.Store); ok {
									if cellOf(st.Addr) != nil {
										continue // captured by the less-func closure
									}
									if fa, ok := st.Addr.(*ssa.FieldAddr); ok {
										if al, ok := fa.X.(*ssa.Alloc); ok && localStructOnly(al) {
											continue // kept in a field of a local walker struct; the sort call receives that field
										}
									}
								}
								if !dominates(sortCall, r) {
									bad = p.instrPos(r)
								}
							}
						}
						c.check(bad == "", key, p.instrPos(x), "keys are sorted before they are used", "keys are used at "+bad+" before/without passing the sort")
					}
				})
			}
		},
	})

	register(&Rule{
		ID: "C10.R4", Props: []string{"C10", "C09", "C17", "C02", "C04", "C05", "C12", "C16", "C14", "C15"}, Min: 2,
		Doc: "pooled objects are clean when they go back: every sync.Pool.Put(x) is dominated by a reset of x (delete-all loop or clear() for maps, Reset() for builders, field clearing) and x does not escape (returned / stored) after the Put",
		Run: func(p *Prog, c *Ctx) {
			for _, fn := range p.Funcs {
				for _, site := range callsIn(fn) {
					if !isCall(site, "(*sync.Pool).Put") {
						continue
					}
					arg := site.Common().Args[1]
					if mi, ok := arg.(*ssa.MakeInterface); ok {
						arg = mi.X
					}
					key := shortName(fn) + ": Put(" + typeShort(arg.Type()) + ")"
					// reset forms
					reset := false
					argKey := valueIdentity(arg)
					eachInstr(fn, func(in ssa.Instruction) {
						if !dominates(in, site) && in.Block() != site.Block() {
							// a delete-all loop precedes the Put but its body does not dominate it; accept loops whose header dominates
						}
						switch x := in.(type) {
						case ssa.CallInstruction:
							cc := x.Common()
							nm := calleeName(cc)
							if (nm == "builtin.delete" || nm == "builtin.clear") && valueIdentity(cc.Args[0]) == argKey {
								if nm == "builtin.clear" && dominates(in, site) {
									reset = true
								}
								if nm == "builtin.delete" {
									// delete(m, k) inside `for k := range m`: the range header must dominate the Put
									if rngDominates(cc.Args[0], site) {
										reset = true
									}
								}
							}
							if strings.HasSuffix(nm, ").Reset") && len(cc.Args) > 0 && valueIdentity(cc.Args[0]) == argKey && (dominates(in, site) || in.Block() == site.Block()) {
								reset = true
							}
						}
					})
					escapes := ""
					if refs := arg.Referrers(); refs != nil {
						for _, r := range *refs {
							if ret, ok := r.(*ssa.Return); ok && canFollow(site, ret) {
								escapes = "returned after the Put at " + p.instrPos(ret)
							}
						}
					}
					switch {
					case !reset:
						c.fail(key, p.instrPos(site), "object is returned to the pool without being reset on this path: the next render that takes it from the pool sees this render's values")
					case escapes != "":
						c.fail(key, p.instrPos(site), "pooled object is still used after Put: "+escapes)
					default:
						c.ok(key, p.instrPos(site), "reset (clear/delete-all/Reset) dominates the Put; no use after it")
					}
				}
			}
			// NewNode: objects taken from the node pool are fully cleared before use (nodes are never Put back)
			for _, fn := range p.Funcs {
				for _, site := range callsIn(fn) {
					if !isCall(site, "(*sync.Pool).Get") {
						continue
					}
					cv, ok := site.(*ssa.Call)
					if !ok {
						continue
					}
					// struct pointers obtained from a pool: every field must be stored before the value is returned
					var ta *ssa.TypeAssert
					if refs := cv.Referrers(); refs != nil {
						for _, r := range *refs {
							if t, ok := r.(*ssa.TypeAssert); ok {
								ta = t
							}
						}
					}
					if ta == nil {
						continue
					}
					pt, ok := ta.AssertedType.Underlying().(*types.Pointer)
					if !ok {
						continue
					}
					st, ok := pt.Elem().Underlying().(*types.Struct)
					if !ok || !reachesReturn(ta) || !isNamed(pt, "golang.org/x/net/html", "Node") {
						continue
					}
					cleared := map[int]bool{}
					if refs := ta.Referrers(); refs != nil {
						for _, r := range *refs {
							if fa, ok := r.(*ssa.FieldAddr); ok {
								if frefs := fa.Referrers(); frefs != nil {
									for _, fr := range *frefs {
										if s, ok := fr.(*ssa.Store); ok && s.Addr == fa {
											cleared[fa.Field] = true
										}
									}
								}
							}
						}
					}
					// `*n = html.Node{}`: the whole value is overwritten at once
					if refs := ta.Referrers(); refs != nil {
						for _, r := range *refs {
							if s, ok := r.(*ssa.Store); ok && s.Addr == ssa.Value(ta) {
								for i := 0; i < st.NumFields(); i++ {
									cleared[i] = true
								}
							}
						}
					}
					var missing []string
					for i := 0; i < st.NumFields(); i++ {
						if !cleared[i] {
							missing = append(missing, st.Field(i).Name())
						}
					}
					c.check(len(missing) == 0, shortName(fn)+": Get() node cleared", p.instrPos(site), fmt.Sprintf("all %d fields reset after Get()", st.NumFields()), "fields not reset after taking the node from the pool: "+strings.Join(missing, ", "))
				}
			}
		},
	})

	register(&Rule{
		ID: "C10.R5", Props: []string{"C10", "C16"}, Min: 2,
		Doc: "clock and randomness never reach the output: every value originating from time.Now/Since, math/rand, crypto/rand or the ulid generator inside the render cone is followed forward (value flow through calls, fields, builders); it must not reach a text node, an attribute that the serialiser emits, or a writer — attributes in the serialiser's ignore table (internal ids) are fine",
		Run: func(p *Prog, c *Ctx) {
			cone := p.Cone(p.renderEntries()...)
			ignored := map[string]bool{}
			for _, k := range p.ignoredAttrKeys() {
				ignored[k] = true
			}
			t := newTaint(p)
			t.Sanitizer = func(site ssa.CallInstruction, arg ssa.Value) bool {
				n := calleeName(site.Common())
				if n == "helpers.SetAttr" || n == "helpers.AppendAttr" {
					if k, ok := constString(site.Common().Args[1]); ok && ignored[k] {
						return true // stored under a key the serialiser never emits
					}
				}
				return false
			}
			t.Sink = outputSink(p)
			srcs := 0
			for _, fn := range sortedFuncs(cone) {
				for _, site := range callsIn(fn) {
					n := calleeName(site.Common())
					if n == "time.Now" || n == "time.Since" || n == "time.Until" || strings.HasPrefix(n, "math/rand.") || strings.HasPrefix(n, "(*math/rand.") || strings.HasPrefix(n, "crypto/rand.") {
						if cv, ok := site.(*ssa.Call); ok {
							srcs++
							t.Seed(cv, n+" at "+p.instrPos(site))
						}
					}
				}
			}
			t.Run()
			c.ok("cone", "-", fmt.Sprintf("%d functions reachable from the render entry points scanned; %d clock/random sources followed through %d value-flow steps", len(cone), srcs, t.Steps))
			c.ok("ignore-table", "-", fmt.Sprintf("%d attribute keys are never serialised", len(ignored)))
			for _, h := range t.Hits {
				c.fail(shortName(h.At.Parent())+": "+h.What, p.instrPos(h.At), "a clock/random value reaches the output ("+h.What+"): "+shortWhy(h.Why)+" — two renders of the same inputs differ")
			}
		},
	})

	register(&Rule{
		ID: "C10.R6", Props: []string{"C10", "C15", "C09", "C13", "C20", "C03", "C04", "C17", "C05", "C08"}, Min: 3, // C03/C04: a condition or per-item expression is a function of its text and the current scope only
		Doc: "memoised results are keyed by everything they depend on: for every cache written while rendering — a mutex-guarded map of an engine object, or a package-level sync.Map / map — the value stored under a key is computed only from the key (plus constants and, for a per-engine cache, the engine's own configuration); it never depends on per-call data that is not part of the key, and a package-level cache never depends on the instance that filled it",
		Run: func(p *Prog, c *Ctx) {
			cone := p.Cone(append(p.concurrentEntries(), p.exportedEntries(markdownPkg)...)...)
			check := func(fn *ssa.Function, at ssa.Instruction, keyV, valV ssa.Value, desc string, global bool) {
				keyParams := map[*ssa.Parameter]bool{}
				// parameters that enter the key only through a function that maps different inputs to one output
				// (case folding, whitespace collapsing, trimming, replacing): the key is a lossy digest of them
				lossyVia := map[*ssa.Parameter]string{}
				exact := map[*ssa.Parameter]bool{}
				lossyMerged := map[*ssa.Parameter]bool{} // the key is a φ of the parameter itself and a digest of it
				lossyFn := func(name string) bool {
					switch name {
					case "strings.Fields", "strings.ToLower", "strings.ToUpper", "strings.TrimSpace", "strings.Title", "strings.Replace", "strings.ReplaceAll", "strings.Map":
						return true
					}
					return strings.HasPrefix(name, "strings.Trim")
				}
				var kwalk func(v ssa.Value, d int, via string)
				kseen := map[ssa.Value]bool{}
				kwalk = func(v ssa.Value, d int, via string) {
					if v == nil || kseen[v] || d > 8 {
						return
					}
					kseen[v] = true
					for _, o := range p.origins(v, OriginOpts{}) {
						switch x := o.(type) {
						case *ssa.Parameter:
							keyParams[x] = true
							if via == "" {
								exact[x] = true
							} else {
								lossyVia[x] = via
							}
						case *ssa.Call:
							next := via
							if n := calleeName(&x.Call); lossyFn(n) {
								next = n
							}
							// the printed name of a type identifies it only up to its spelling: two function-local
							// types, or models.User from two packages called models, print alike
							if n := calleeName(&x.Call); strings.HasSuffix(n, "reflect.Type.String") || strings.HasSuffix(n, "reflect.Type.Name") || strings.HasSuffix(n, "reflect.Type.Kind") || strings.HasSuffix(n, "reflect.Type.PkgPath") {
								next = n
							}
							for _, a := range callArgs(&x.Call) {
								kwalk(a, d+1, next)
							}
						}
					}
				}
				kwalk(keyV, 0, "")
				if ph, ok := keyV.(*ssa.Phi); ok {
					for _, e := range ph.Edges {
						if prm, isP := e.(*ssa.Parameter); isP && lossyVia[prm] != "" {
							lossyMerged[prm] = true
						}
					}
				}
				bad := ""
				seen := map[ssa.Value]bool{}
				var walk func(v ssa.Value, depth int)
				walk = func(v ssa.Value, depth int) {
					if v == nil || seen[v] || depth > 12 {
						return
					}
					seen[v] = true
					for _, o := range p.origins(v, OriginOpts{}) {
						switch x := o.(type) {
						case *ssa.Parameter:
							isRecv := fn.Signature.Recv() != nil && len(fn.Params) > 0 && x == fn.Params[0]
							if keyParams[x] {
								// (a key that is the raw text on one path and a digest of it on another — `key := expr;
								// if … { key = strings.ReplaceAll(key, " ", "") }` — is a digest)
								if via := lossyVia[x]; via != "" && (!exact[x] || lossyMerged[x]) {
									bad = fmt.Sprintf("the cached value is computed from parameter %q as given, but the key only holds a digest of it (%s): two different values that %s maps to the same text share one entry, and the one cached first answers for both", x.Name(), via, via)
								}
								continue
							}
							if isRecv && !global {
								continue
							}
							if isRecv {
								bad = "the value cached in package-level storage depends on the instance (receiver) that computed it"
							} else {
								bad = fmt.Sprintf("the cached value depends on parameter %q, which is not part of the key", x.Name())
							}
						case *ssa.FreeVar:
							if global {
								bad = "the value cached in package-level storage depends on captured state of the caller"
							}
						case *ssa.Call:
							for _, a := range callArgs(&x.Call) {
								walk(a, depth+1)
							}
						case *ssa.Extract:
							if cl, ok := x.Tuple.(*ssa.Call); ok {
								for _, a := range callArgs(&cl.Call) {
									walk(a, depth+1)
								}
							}
						case *ssa.UnOp:
							// loads through the receiver's fields count as the receiver
							if strings.HasPrefix(accessPath(x), "param0") && fn.Signature.Recv() != nil && global {
								bad = "the value cached in package-level storage depends on the instance (receiver) that computed it"
							}
							// a field of a local struct variable: whatever the variable was assigned as a whole
							if fa, ok := x.X.(*ssa.FieldAddr); ok {
								if al, ok := fa.X.(*ssa.Alloc); ok {
									for _, st := range storesToCell(al) {
										walk(st.Val, depth+1)
									}
								}
							}
						case *ssa.MakeMap:
							// a map made here and filled entry by entry: everything that is put into it
							if refs := x.Referrers(); refs != nil {
								for _, r := range *refs {
									if mu, ok := r.(*ssa.MapUpdate); ok && mu.Map == ssa.Value(x) {
										walk(mu.Key, depth+1)
										walk(mu.Value, depth+1)
									}
								}
							}
						case *ssa.Alloc:
							if refs := x.Referrers(); refs != nil {
								for _, r := range *refs {
									if fa, ok := r.(*ssa.FieldAddr); ok {
										if frefs := fa.Referrers(); frefs != nil {
											for _, fr := range *frefs {
												if st, ok := fr.(*ssa.Store); ok {
													walk(st.Val, depth+1)
												}
											}
										}
									}
									if ia, ok := r.(*ssa.IndexAddr); ok {
										if irefs := ia.Referrers(); irefs != nil {
											for _, fr := range *irefs {
												if st, ok := fr.(*ssa.Store); ok {
													walk(st.Val, depth+1)
												}
											}
										}
									}
									// a buffer filled by calls: everything written into it (also when passed as an interface)
									users := []ssa.Instruction{r}
									if mi, ok := r.(*ssa.MakeInterface); ok {
										if mrefs := mi.Referrers(); mrefs != nil {
											users = append(users, *mrefs...)
										}
									}
									for _, u := range users {
										if site, ok := u.(ssa.CallInstruction); ok {
											for _, a := range callArgs(site.Common()) {
												if a != x {
													walk(a, depth+1)
												}
											}
										}
									}
								}
							}
						}
					}
				}
				walk(valV, 0)
				// a value computed from files (a filesystem is among the things it is computed from) is only as good
				// as the revision of the files it was computed from: the memo has to know that revision
				if bad == "" {
					fileDep := ""
					for v := range seen {
						t := v.Type()
						if isNamed(t, "io/fs", "FS") || isNamed(t, "io/fs", "ReadFileFS") || isNamed(t, "io/fs", "StatFS") {
							fileDep = describeValue(v)
						}
					}
					if fileDep != "" {
						fresh := false
						for g := range p.Cone(fn) {
							for _, s2 := range callsIn(g) {
								if n := calleeName(s2.Common()); strings.HasSuffix(n, ".ModTime") || strings.HasSuffix(n, ".Stat") || n == "io/fs.Stat" {
									fresh = true
								}
							}
						}
						if !fresh {
							bad = "the cached value is computed from files read through a filesystem (" + fileDep + "), and neither the key nor the lookup knows the revision of those files (no Stat / ModTime anywhere near): the entry outlives every edit of a file it was computed from"
						}
					}
				}
				// a set (the stored value is a constant: struct{}{}, true): what is remembered is *that* the key was
				// stored, so the conditions under which it is stored are the memoised result
				sv := valV
				if mi, ok := sv.(*ssa.MakeInterface); ok {
					sv = mi.X
				}
				if _, isConst := sv.(*ssa.Const); isConst && bad == "" {
					for _, g := range controllingIfs(at) {
						for _, leaf := range condLeaves(g.If.Cond) {
							walk(leaf, 0)
						}
					}
					if bad != "" {
						bad = "whether the key is remembered is decided by a condition that " + strings.TrimPrefix(bad, "the cached value ")
					}
				}
				c.check(bad == "", shortName(fn)+": "+desc, p.instrPos(at), "stored value is a function of the key (and the engine's configuration) only", bad+": a later lookup with the same key returns a result computed for other data")
			}
			for _, a := range p.collectSharedAccesses() {
				mu, ok := a.at.(*ssa.MapUpdate)
				if !ok || !cone[a.fn] {
					continue // registries filled during set-up (Funcs, RegisterComponent, loadConfig) are not memoisation
				}
				check(a.fn, mu, mu.Key, mu.Value, a.owner+"."+a.field, strings.HasPrefix(a.base, "global:"))
			}
			for _, fn := range sortedFuncs(cone) {
				for _, site := range callsIn(fn) {
					n := calleeName(site.Common())
					if n != "(*sync.Map).Store" && n != "(*sync.Map).LoadOrStore" && n != "(*sync.Map).Swap" {
						continue
					}
					args := site.Common().Args
					root := accessPath(args[0])
					check(fn, site, args[1], args[2], "sync.Map "+root, strings.HasPrefix(root, "global:"))
				}
				eachInstr(fn, func(in ssa.Instruction) {
					if mu, ok := in.(*ssa.MapUpdate); ok && strings.HasPrefix(accessPath(mu.Map), "global:") {
						already := false
						for _, a := range p.collectSharedAccesses() {
							if a.at == in {
								already = true
							}
						}
						if !already {
							check(fn, mu, mu.Key, mu.Value, "package-level map "+accessPath(mu.Map), true)
						}
					}
				})
			}
		},
	})
}

func describeRangeOperand(p *Prog, v ssa.Value) string {
	s := accessPath(v)
	if strings.HasPrefix(s, "?") {
		for _, o := range p.origins(v, OriginOpts{}) {
			return describeValue(o)
		}
	}
	return s
}

// valueIdentity gives a key under which reloads of the same local/field compare equal.
func valueIdentity(v ssa.Value) string {
	if mi, ok := v.(*ssa.MakeInterface); ok {
		v = mi.X
	}
	s := accessPath(v)
	if strings.HasPrefix(s, "?") {
		return fmt.Sprintf("%p", v)
	}
	return s
}

// rngDominates: the map m is ranged over by a loop whose header dominates `at` (a delete-all loop that precedes it).
func rngDominates(m ssa.Value, at ssa.Instruction) bool {
	id := valueIdentity(m)
	found := false
	eachInstr(at.Parent(), func(in ssa.Instruction) {
		if r, ok := in.(*ssa.Range); ok && valueIdentity(r.X) == id {
			if r.Block().Dominates(at.Block()) || r.Block() == at.Block() {
				found = true
			}
		}
	})
	return found
}

// outputSink recognises the places where a string becomes part of the rendered document:
// a store into html.Node.Data or html.Attribute.Val/Key, or an argument of a writer call.
func outputSink(p *Prog) func(u ssa.Instruction, v ssa.Value) string {
	return func(u ssa.Instruction, v ssa.Value) string {
		switch x := u.(type) {
		case *ssa.Store:
			if x.Val != v {
				return ""
			}
			if fv := fieldVar(x.Addr); fv != nil && fv.Pkg() != nil && fv.Pkg().Path() == "golang.org/x/net/html" {
				switch fv.Name() {
				case "Data", "Val", "Key":
					return "store into html " + fv.Name()
				}
			}
		case ssa.CallInstruction:
			cc := x.Common()
			n := calleeName(cc)
			if isWriteLike(n, cc) {
				args := callArgs(cc)
				for i, a := range args {
					if a == v && i > 0 {
						// only destinations that are not local builders
						for _, o := range p.origins(args[0], OriginOpts{}) {
							if _, isParam := o.(*ssa.Parameter); isParam && isWriterType(o.Type()) {
								return "written to an io.Writer by " + n
							}
						}
					}
				}
			}
		}
		return ""
	}
}

// ignoredAttrKeys extracts the serialiser's table of attribute keys that are never emitted:
// the string constants the key parameter of shouldIgnoreAttr is compared with.
func (p *Prog) ignoredAttrKeys() []string {
	fn := p.MustFn("vuego.shouldIgnoreAttr")
	return constsComparedWithParam(fn, 0)
}

func constsComparedWithParam(fn *ssa.Function, idx int) []string {
	if idx >= len(fn.Params) {
		return nil
	}
	prm := fn.Params[idx]
	seen := map[string]bool{}
	var out []string
	eachInstr(fn, func(in ssa.Instruction) {
		b, ok := in.(*ssa.BinOp)
		if !ok || b.Op != token.EQL {
			return
		}
		for _, pair := range [][2]ssa.Value{{b.X, b.Y}, {b.Y, b.X}} {
			if pair[0] == prm {
				if s, ok := constString(pair[1]); ok && !seen[s] {
					seen[s] = true
					out = append(out, s)
				} else if tbl, ok := elemConsts(pair[1]); ok {
					// `slices.Contains(table, x)` (inlined) / a loop over a constant table
					for _, s := range tbl {
						if !seen[s] {
							seen[s] = true
							out = append(out, s)
						}
					}
				}
			}
		}
	})
	// membership tests against a constant table: slices.Contains(table, x), table[x]
	eachInstr(fn, func(in ssa.Instruction) {
		v, ok := in.(ssa.Value)
		if !ok {
			return
		}
		if subj, set, _, isM := memberOf(v); isM && subj == ssa.Value(prm) {
			for _, s := range set {
				if !seen[s] {
					seen[s] = true
					out = append(out, s)
				}
			}
		}
	})
	sort.Strings(out)
	return out
}

// exportedEntries: exported functions and methods of one module package.
func (p *Prog) exportedEntries(pkgPath string) []*ssa.Function {
	var out []*ssa.Function
	for _, fn := range p.Funcs {
		if pk := funcPkg(fn); pk != nil && pk.Path() == pkgPath && fn.Parent() == nil && token.IsExported(fn.Name()) {
			out = append(out, fn)
		}
	}
	return out
}

// elemConsts: v is an element loaded from a slice or array whose backing store is a composite literal
// of string constants — a local literal, or a package-level variable initialised with one and not
// written elsewhere. Returns the constants.
func elemConsts(v ssa.Value) ([]string, bool) {
	var base ssa.Value
	switch x := v.(type) {
	case *ssa.UnOp:
		ia, ok := x.X.(*ssa.IndexAddr)
		if !ok || x.Op != token.MUL {
			return nil, false
		}
		base = ia.X
	case *ssa.Index:
		base = x.X
	default:
		return nil, false
	}
	return backingConsts(base, 0)
}

func backingConsts(base ssa.Value, depth int) ([]string, bool) {
	if depth > 4 {
		return nil, false
	}
	switch b := base.(type) {
	case *ssa.Slice:
		return backingConsts(b.X, depth+1)
	case *ssa.Alloc:
		return storedElemConsts(b, b.Parent())
	case *ssa.Global:
		init := b.Pkg.Func("init")
		if init == nil {
			return nil, false
		}
		return storedElemConsts(b, init)
	case *ssa.UnOp:
		if b.Op != token.MUL {
			return nil, false
		}
		g, ok := b.X.(*ssa.Global)
		if !ok {
			return nil, false
		}
		init := g.Pkg.Func("init")
		if init == nil {
			return nil, false
		}
		// the single store to the global in the package initialiser
		var val ssa.Value
		n := 0
		eachInstr(init, func(in ssa.Instruction) {
			if st, ok := in.(*ssa.Store); ok && st.Addr == ssa.Value(g) {
				val = st.Val
				n++
			}
		})
		if n != 1 {
			return nil, false
		}
		return backingConsts(val, depth+1)
	case *ssa.Phi:
		return nil, false
	}
	return nil, false
}

// storedElemConsts collects the constants stored through &arr[i] inside fn; any other store makes it fail.
func storedElemConsts(arr ssa.Value, fn *ssa.Function) ([]string, bool) {
	var out []string
	ok := true
	eachInstr(fn, func(in ssa.Instruction) {
		ia, isIA := in.(*ssa.IndexAddr)
		if !isIA || ia.X != arr {
			return
		}
		for _, u := range *ia.Referrers() {
			st, isSt := u.(*ssa.Store)
			if !isSt || st.Addr != ssa.Value(ia) {
				continue
			}
			if s, isC := constString(st.Val); isC {
				out = append(out, s)
			} else {
				ok = false
			}
		}
	})
	return out, ok && len(out) > 0
}

// commutativeKeysUse: a function that enumerates reflect MapKeys() without sorting them does nothing that depends on
// their order — it appends to nothing, concatenates and writes nothing, calls no callback, and fills a map under
// keys that are not constants (m[k.String()] = v.MapIndex(k).Interface()).
func commutativeKeysUse(fn *ssa.Function) bool {
	updates := 0
	ok := true
	walkFuncTree(fn, func(f *ssa.Function) {
		eachInstr(f, func(in ssa.Instruction) {
			switch x := in.(type) {
			case *ssa.MapUpdate:
				updates++
				if _, isC := x.Key.(*ssa.Const); isC {
					ok = false
				}
			case *ssa.BinOp:
				if x.Op == token.ADD && isString(x.Type()) {
					ok = false
				}
			case *ssa.Send, *ssa.Go:
				ok = false
			case *ssa.Store:
				if _, isEl := x.Addr.(*ssa.IndexAddr); isEl {
					ok = false // filling a slice by position
				}
			case ssa.CallInstruction:
				cc := x.Common()
				if b, isB := cc.Value.(*ssa.Builtin); isB {
					if b.Name() == "append" || b.Name() == "copy" {
						ok = false
					}
					return
				}
				if cc.IsInvoke() {
					nm := calleeName(cc)
					if !strings.HasPrefix(nm, "reflect.Type.") {
						ok = false
					}
					return
				}
				callee := cc.StaticCallee()
				if callee == nil {
					ok = false // a callback
					return
				}
				if nm := calleeName(cc); strings.Contains(nm, "Write") || strings.Contains(nm, "Fprint") {
					ok = false
				}
			}
		})
	})
	return ok && updates > 0
}
